(* Proofs/ScannerFailure.v — a reader failure in mid-document is reported as an error, never as a
   (truncated) token list.

   The statement as originally requested (no hypothesis on the bytes of the document) is FALSE for the model:
   the model's bytes are arbitrary integers, and a "byte" -1 delivered on the ASCII fast path of next() is
   indistinguishable from rune_eof = -1, so the tokenizer emits TEOF with no error pending and the rest of the
   document (including the reader failure) is never looked at (reader_failure_is_error_as_stated_false below).
   The theorems are therefore proved under the additional hypothesis  ~ In rune_eof (r_rest r)  (implied by
   "all bytes are in 0..255", see reader_failure_is_error_bytes).

   The theorems hold for EVERY failure mode of the reader (r_fail_mode): a sticky failure (no data, fails forever), a
   one-off failure without data, and a one-off failure that delivers its bytes together with the error (after
   which the reader may go on to a clean io.EOF).  The invariant is "the reader still fails early OR the error
   flag is already set": a failing read sets s_err in all three modes, and s_err is sticky. *)
From Coq Require Import ZArith List Bool Lia Arith.
Import ListNotations.
From Cedar Require Import Base.Utf8 Lang.Value Impl.Scanner Impl.Tokenizer Proofs.ScannerProofs.

(* ------------------------------------------------------------------------------------------------ *)
(* 1. the reader                                                                                     *)
(* ------------------------------------------------------------------------------------------------ *)
(* bytes the reader can still deliver before its first failing step; None if it never fails *)
Fixpoint avail (sched : list (nat * bool)) : option nat :=
  match sched with
  | [] => None
  | (_, true) :: _ => Some 0%nat
  | (n, false) :: s => option_map (Nat.add n) (avail s)
  end.

(* the reader fails strictly before the document is exhausted *)
Definition fails_early (r : reader) : Prop := exists a, avail (r_sched r) = Some a /\ (a < length (r_rest r))%nat.

(* no element of the list is confused with the end-of-input marker *)
Definition clean (l : list Z) : Prop := Forall (fun x => x <> rune_eof) l.

Lemma clean_skipn : forall n l, clean l -> clean (skipn n l).
Proof.
  induction n as [|n IH]; intros l H; [exact H|].
  destruct l as [|x l]; [exact H|]. cbn [skipn]. apply IH. inversion H; assumption.
Qed.

Lemma clean_firstn : forall n l, clean l -> clean (firstn n l).
Proof.
  induction n as [|n IH]; intros l H; [constructor|].
  destruct l as [|x l]; [constructor|]. cbn [firstn]. inversion H; subst. constructor; [assumption|]. apply IH; assumption.
Qed.

Lemma clean_nth : forall l n, clean l -> nth n l 128%Z <> rune_eof.
Proof.
  intros l n H. destruct (Nat.lt_ge_cases n (length l)) as [Hlt|Hge].
  - unfold clean in H. rewrite Forall_forall in H. apply H. apply nth_In. exact Hlt.
  - rewrite nth_overflow by lia. discriminate.
Qed.

(* every read, failing reader or not: the delivered bytes are a prefix of the undelivered ones *)
Lemma read_rest : forall r cap data err r', read r cap = (data, err, r') -> r_rest r = data ++ r_rest r'.
Proof.
  intros r cap data err r'. unfold read.
  destruct (r_sched r) as [|[n f] sch].
  - destruct (r_rest r) as [|x rest] eqn:Hr.
    + intros H; inversion H; subst. reflexivity.
    + match goal with |- context [if ?c then _ else _] => destruct c end; intros H; inversion H; subst; cbn [r_rest].
      * symmetry; apply app_nil_r.
      * symmetry; apply firstn_skipn.
  - destruct f.
    + destruct (r_fail_mode r); intros H; inversion H; subst; cbn [r_rest].
      * reflexivity.
      * reflexivity.
      * symmetry; apply firstn_skipn.
    + destruct (r_rest r) as [|x rest] eqn:Hr.
      * intros H; inversion H; subst. reflexivity.
      * match goal with |- context [if ?c then _ else _] => destruct c end; intros H; inversion H; subst; cbn [r_rest].
        -- symmetry; apply app_nil_r.
        -- symmetry; apply firstn_skipn.
Qed.

(* under fails_early a read never reports io.EOF: it either fails (in whichever mode: with or without data, the
   reader unchanged or advanced) or delivers data without an error, and the reader still fails early afterwards *)
Lemma read_fails_early : forall r cap data err r',
    fails_early r -> read r cap = (data, err, r') ->
    err = Some RFail \/ (err = None /\ fails_early r').
Proof.
  intros r cap data err r' [a [Ha Hlt]]. unfold read.
  destruct (r_sched r) as [|[n f] sch] eqn:Hs; cbn [avail] in Ha; [discriminate|].
  destruct f.
  - destruct (r_fail_mode r); intros H; inversion H; subst; left; reflexivity.
  - destruct (avail sch) as [a'|] eqn:Hav; cbn [option_map] in Ha; [|discriminate].
    inversion Ha; subst a. clear Ha.
    destruct (r_rest r) as [|x rest] eqn:Hr; [cbn [length] in Hlt; lia|].
    remember (Nat.min (Nat.min n cap) (length (x :: rest))) as k eqn:Hk.
    assert (Hkn : k <= n) by lia.
    destruct (Nat.eqb k (length (x :: rest))) eqn:Hkeq; [apply Nat.eqb_eq in Hkeq; lia|].
    cbn [andb]. intros H; inversion H; subst data err r'. right. split; [reflexivity|].
    exists a'. cbn [r_sched r_rest]. split; [exact Hav|]. rewrite skipn_length. lia.
Qed.

(* ------------------------------------------------------------------------------------------------ *)
(* 2. the scanner                                                                                    *)
(* ------------------------------------------------------------------------------------------------ *)
Local Ltac fields :=
  cbn [s_buf s_pos s_off s_line s_col s_lastLineLen s_lastCharLen s_tokBuf s_tokPos s_tokEnd s_err s_rd
       advance set_err bad_step rs1 eof_state token_start token_stop].

Lemma ascii_step_buf : forall s x, s_buf (ascii_step s x) = s_buf s.
Proof. intros s x. unfold ascii_step. destruct (x =? 0)%Z; reflexivity. Qed.

Lemma ascii_step_pos : forall s x, s_pos (ascii_step s x) = s_pos s + 1.
Proof. intros s x. unfold ascii_step. destruct (x =? 0)%Z; reflexivity. Qed.

Lemma finish_buf : forall s1, s_buf (fst (finish s1)) = s_buf s1.
Proof.
  intros s1. unfold finish. destruct (byte_at s1 <? 128)%Z; [apply ascii_step_buf|].
  destruct (decode_rune (window s1)) as [ch w].
  destruct ((ch =? rune_error)%Z && Nat.eqb w 1); reflexivity.
Qed.

(* the character produced after the refill loop is a byte of the buffer, U+FFFD, or a decoded rune >= 0x80 *)
Lemma finish_ne : forall s1, byte_at s1 <> rune_eof -> snd (finish s1) <> rune_eof.
Proof.
  intros s1 Hb. unfold finish. destruct (byte_at s1 <? 128)%Z eqn:Hlt; [exact Hb|].
  destruct (window s1) as [|x xs] eqn:Hw.
  - cbn. discriminate.
  - rewrite (byte_at_window _ _ _ Hw) in Hlt.
    destruct (decode_rune (x :: xs)) as [ch w] eqn:Hd.
    pose proof (decode_rune_ge128 _ _ _ _ Hlt Hd) as Hge.
    assert (Hne : ch <> rune_eof) by (unfold rune_eof; lia).
    destruct ((ch =? rune_error)%Z && Nat.eqb w 1); exact Hne.
Qed.

(* the invariant of the failure argument: the reader still fails early or a failure has already been recorded
   (a non-sticky failing step is consumed, so "fails early" alone is not preserved), and neither the buffer nor
   the undelivered bytes contain the end-of-input marker *)
Definition Pf (s : scanner) : Prop :=
  (fails_early (s_rd s) \/ s_err s = true) /\ clean (s_buf s) /\ clean (r_rest (s_rd s)).

Lemma Pf_byte_at : forall s, Pf s -> byte_at s <> rune_eof.
Proof. intros s [_ [Hb _]]. unfold byte_at. apply clean_nth. exact Hb. Qed.

(* cleanliness is preserved by every refill step, for every reader: the delivered bytes (also those delivered
   together with an error) come from the undelivered ones *)
Lemma refill_step_clean : forall b s s' out,
    clean (s_buf s) -> clean (r_rest (s_rd s)) -> refill_step b s = (s', out) ->
    clean (s_buf s') /\ clean (r_rest (s_rd s')).
Proof.
  intros b s s' out Hb Hr.
  destruct (read (s_rd s) (b - length (window s))) as [[data err] rd'] eqn:Hrd.
  rewrite (refill_step_unfold _ _ _ _ _ Hrd).
  pose proof (read_rest _ _ _ _ _ Hrd) as Hrest.
  assert (Hcl : clean (window s ++ data) /\ clean (r_rest rd')).
  { unfold clean in *. rewrite Hrest in Hr. apply Forall_app in Hr. destruct Hr as [Hd Hr'].
    split; [|exact Hr']. apply Forall_app. split; [|exact Hd]. apply clean_skipn. exact Hb. }
  destruct Hcl as [Hcl1 Hcl2].
  destruct err as [[|]|]; cbn zeta.
  - destruct (window s ++ data) as [|y ys] eqn:Hw; intros H; inversion H; subst s' out; fields.
    + split; [constructor|exact Hcl2].
    + rewrite Hw. split; [exact Hcl1|exact Hcl2].
  - destruct (window s ++ data) as [|y ys] eqn:Hw; intros H; inversion H; subst s' out; fields.
    + split; [constructor|exact Hcl2].
    + rewrite Hw. split; [exact Hcl1|exact Hcl2].
  - intros H; inversion H; subst s' out; fields. split; [exact Hcl1|exact Hcl2].
Qed.

(* a refill step keeps "fails early or error recorded", and returns end-of-input only with the error recorded *)
Lemma refill_step_fe : forall b s s' out,
    fails_early (s_rd s) \/ s_err s = true -> refill_step b s = (s', out) ->
    (fails_early (s_rd s') \/ s_err s' = true) /\ (out = ReturnEOF -> s_err s' = true).
Proof.
  intros b s s' out [HJ|He] Hst.
  - revert Hst.
    destruct (read (s_rd s) (b - length (window s))) as [[data err] rd'] eqn:Hrd.
    rewrite (refill_step_unfold _ _ _ _ _ Hrd).
    destruct (read_fails_early _ _ _ _ _ HJ Hrd) as [He|[He HJ']]; subst err.
    + cbn zeta. destruct (window s ++ data) as [|y ys]; intros H; inversion H; subst s' out; fields.
      * split; [right; reflexivity|reflexivity].
      * split; [right; reflexivity|discriminate].
    + intros H; inversion H; subst s' out; fields. split; [left; exact HJ'|discriminate].
  - destruct (refill_step_gen _ _ _ _ Hst) as [He' _]. specialize (He' He).
    split; [right; exact He'|intros _; exact He'].
Qed.

Lemma refill_step_Pf : forall b s s' out,
    Pf s -> refill_step b s = (s', out) -> Pf s' /\ (out = ReturnEOF -> s_err s' = true).
Proof.
  intros b s s' out [HJ [Hb Hr]] Hst.
  destruct (refill_step_clean _ _ _ _ Hb Hr Hst) as [Hb' Hr'].
  destruct (refill_step_fe _ _ _ _ HJ Hst) as [HJ' He].
  split; [|exact He]. unfold Pf. auto.
Qed.

Lemma refill_Pf : forall b fuel s s1 eof,
    Pf s -> refill fuel b s = Some (s1, eof) -> Pf s1 /\ (eof = true -> s_err s1 = true).
Proof.
  intros b fuel; induction fuel as [|f IH]; intros s s1 eof HP; cbn [refill]; [discriminate|].
  destruct (need_refill s).
  - destruct (refill_step b s) as [s' out] eqn:Hst.
    destruct (refill_step_Pf _ _ _ _ HP Hst) as [HP' He].
    destruct out.
    + intros H. eapply IH; eauto.
    + intros H; inversion H; subst. split; [exact HP'|discriminate].
    + intros H; inversion H; subst. split; [exact HP'|]. intros _. apply He. reflexivity.
  - intros H; inversion H; subst. split; [exact HP|discriminate].
Qed.

Lemma ascii_step_fe : forall s x,
    fails_early (s_rd s) \/ s_err s = true -> fails_early (s_rd (ascii_step s x)) \/ s_err (ascii_step s x) = true.
Proof.
  intros s x [HJ|He]; [left; rewrite ascii_step_rd; exact HJ|right; apply ascii_step_err; exact He].
Qed.

(* next(): the invariant is preserved, and end-of-input is only ever returned with the error flag set *)
Lemma next_Pf : forall fuel b s s' ch,
    Pf s -> next fuel b s = Some (s', ch) -> Pf s' /\ (ch = rune_eof -> s_err s' = true).
Proof.
  intros fuel b s s' ch HP. rewrite next_unfold.
  destruct (byte_at s <? 128)%Z.
  - intros H; inversion H; subst. split.
    + destruct HP as [HJ [Hb Hr]]. unfold Pf. rewrite ascii_step_buf.
      split; [apply ascii_step_fe; exact HJ|]. rewrite ascii_step_rd. auto.
    + intros He. exfalso. exact (Pf_byte_at _ HP He).
  - destruct (refill fuel b s) as [[s1 eof]|] eqn:Hrf; [|discriminate].
    destruct (refill_Pf _ _ _ _ _ HP Hrf) as [HP1 He].
    destruct eof.
    + intros H; inversion H; subst. split; [exact HP1|]. intros _. apply He. reflexivity.
    + pose proof (finish_rd s1) as Hfr. pose proof (finish_buf s1) as Hfb. pose proof (finish_err s1) as Hfe.
      pose proof (finish_ne s1 (Pf_byte_at _ HP1)) as Hfn.
      destruct (finish s1) as [sf chf]. cbn [fst snd] in *.
      intros H; inversion H; subst. split.
      * destruct HP1 as [HJ [Hb Hr]]. unfold Pf. rewrite Hfr, Hfb.
        split; [|auto]. destruct HJ as [HJ|HJ]; [left; exact HJ|right; apply Hfe; exact HJ].
      * intros Hc. contradiction.
Qed.

(* the token bookkeeping operations keep the invariant *)
Lemma Pf_token_start : forall s, Pf s -> Pf (token_start s).
Proof. intros s HP. exact HP. Qed.
Lemma Pf_token_stop : forall s, Pf s -> Pf (token_stop s).
Proof. intros s HP. exact HP. Qed.
Lemma Pf_set_err : forall s, Pf s -> Pf (set_err s).
Proof. intros s [_ [Hb Hr]]. unfold Pf. fields. split; [right; reflexivity|auto]. Qed.

(* ------------------------------------------------------------------------------------------------ *)
(* 3. the tokenizer, generically: "the lookahead is honest"                                          *)
(* ------------------------------------------------------------------------------------------------ *)
Section Honest.
  Variable A : Type.
  Variables (nxt : A -> option (A * Z)) (start stop seterr : A -> A) (pos : A -> Z * Z * Z)
            (text : A -> list Z) (err : A -> bool).
  Variable P : A -> Prop.
  Hypothesis H_nxt : forall s s' ch, P s -> nxt s = Some (s', ch) -> P s' /\ (ch = rune_eof -> err s' = true).
  Hypothesis H_start : forall s, P s -> P (start s) /\ err (start s) = err s.
  Hypothesis H_stop : forall s, P s -> P (stop s) /\ err (stop s) = err s.
  Hypothesis H_seterr : forall s, P s -> P (seterr s) /\ err (seterr s) = true.

  (* whenever the lookahead character is end-of-input, an error is pending *)
  Definition Q (s : A) (ch : Z) : Prop := P s /\ (ch = rune_eof -> err s = true).

  Lemma Q_P : forall s ch, Q s ch -> P s.
  Proof. intros s ch [H _]. exact H. Qed.
  Lemma P_start : forall s, P s -> P (start s).
  Proof. intros s H. apply H_start. exact H. Qed.
  Lemma P_stop : forall s, P s -> P (stop s).
  Proof. intros s H. apply H_stop. exact H. Qed.
  Lemma P_seterr : forall s, P s -> P (seterr s).
  Proof. intros s H. apply H_seterr. exact H. Qed.
  Lemma Q_nxt : forall s s' c, P s -> nxt s = Some (s', c) -> Q s' c.
  Proof. intros s s' c HP H. exact (H_nxt _ _ _ HP H). Qed.
  Lemma Q_start : forall s ch, Q s ch -> Q (start s) ch.
  Proof. intros s ch [HP He]. destruct (H_start s HP) as [HP' He']. split; [exact HP'|]. rewrite He'. exact He. Qed.
  Lemma Q_stop : forall s ch, Q s ch -> Q (stop s) ch.
  Proof. intros s ch [HP He]. destruct (H_stop s HP) as [HP' He']. split; [exact HP'|]. rewrite He'. exact He. Qed.
  Lemma Q_seterr : forall s ch, P s -> Q (seterr s) ch.
  Proof. intros s ch HP. destruct (H_seterr s HP) as [HP' He']. split; [exact HP'|]. intros _. exact He'. Qed.

  Ltac solveP :=
    lazymatch goal with
    | |- P (start ?a) => apply P_start; solveP
    | |- P (stop ?a) => apply P_stop; solveP
    | |- P (seterr ?a) => apply P_seterr; solveP
    | |- P ?a => first [assumption | eapply Q_P; eassumption]
    end.

  Ltac solveQ :=
    lazymatch goal with
    | |- Q (start ?a) _ => apply Q_start; solveQ
    | |- Q (stop ?a) _ => apply Q_stop; solveQ
    | |- Q (seterr ?a) _ => apply Q_seterr; solveP
    | |- Q ?a ?c => assumption
    end.

  Ltac red_all H := cbv beta iota zeta in H; cbn [fst snd] in H.

  (* [H : nxt a = Some (a1, c1)] is at the head of H's computation: name the result and record Q for it *)
  Ltac nxt_step H a :=
    let a1 := fresh "a" in let c1 := fresh "c" in let Ha := fresh "Ha" in let HQ := fresh "HQ" in
    destruct (nxt a) as [[a1 c1]|] eqn:Ha; [|discriminate H];
    assert (HQ : Q a1 c1) by (eapply Q_nxt; [|exact Ha]; solveP);
    red_all H.

  Ltac fin H := inversion H; subst; clear H; solveQ.
  Ltac tail_nxt H := eapply Q_nxt; [|exact H]; solveP.

  Lemma scan_while_Q : forall fuel p s ch s' ch', Q s ch ->
    scan_while A nxt fuel p s ch = Some (s', ch') -> Q s' ch'.
  Proof.
    induction fuel as [|f IH]; intros p s ch s' ch' HQ H; cbn [scan_while] in H; [discriminate H|].
    destruct (p ch).
    - nxt_step H s. eapply IH; eassumption.
    - fin H.
  Qed.

  Lemma scan_hex_Q : forall n maxd s ch count s' ch' k, Q s ch ->
    scan_hex A nxt n maxd s ch count = Some (s', ch', k) -> Q s' ch'.
  Proof.
    induction n as [|n IH]; intros maxd s ch count s' ch' k HQ H; cbn [scan_hex] in H.
    - fin H.
    - destruct (Nat.ltb count maxd && is_hex ch).
      + nxt_step H s. eapply IH; eassumption.
      + fin H.
  Qed.

  Ltac hex_step H x a c :=
    let a1 := fresh "a" in let c1 := fresh "c" in let k := fresh "k" in let Hs := fresh "Hs" in let HQ := fresh "HQ" in
    destruct x as [[[a1 c1] k]|] eqn:Hs; [|discriminate H];
    assert (HQ : Q a1 c1) by (eapply scan_hex_Q; [|exact Hs]; solveQ);
    red_all H.

  Lemma scan_escape_Q : forall s s' ch', P s ->
    scan_escape A nxt seterr s = Some (s', ch') -> Q s' ch'.
  Proof.
    intros s s' ch' HP H. unfold scan_escape in H.
    nxt_step H s.
    destruct (existsb (Z.eqb c) [110; 114; 116; 92; 48; 39; 34; 42]%Z); [tail_nxt H|].
    destruct (c =? 120)%Z.
    { nxt_step H a. hex_step H (scan_hex A nxt 3 2 a0 c0 0) a0 c0.
      destruct (Nat.ltb k 2); fin H. }
    destruct (c =? 117)%Z; [|fin H].
    nxt_step H a.
    destruct (negb (c0 =? 123)%Z); [fin H|].
    nxt_step H a0. hex_step H (scan_hex A nxt 7 6 a1 c1 0) a1 c1.
    destruct (Nat.ltb k 1); destruct (negb (c2 =? 125)%Z); try (fin H); tail_nxt H.
  Qed.

  Lemma scan_string_Q : forall fuel s ch s' ch', Q s ch ->
    scan_string A nxt seterr fuel s ch = Some (s', ch') -> Q s' ch'.
  Proof.
    induction fuel as [|f IH]; intros s ch s' ch' HQ H; cbn [scan_string] in H; [discriminate H|].
    destruct (ch =? 34)%Z; [fin H|].
    destruct ((ch =? 10) || (ch <? 0))%Z; [fin H|].
    destruct (ch =? 92)%Z.
    - destruct (scan_escape A nxt seterr s) as [[a1 c1]|] eqn:Hs; [|discriminate H].
      assert (HQ1 : Q a1 c1) by (eapply scan_escape_Q; [|exact Hs]; solveP).
      eapply IH; eassumption.
    - nxt_step H s. eapply IH; eassumption.
  Qed.

  Lemma scan_block_comment_Q : forall fuel s ch s' ch', Q s ch ->
    scan_block_comment A nxt seterr fuel s ch = Some (s', ch') -> Q s' ch'.
  Proof.
    induction fuel as [|f IH]; intros s ch s' ch' HQ H; cbn [scan_block_comment] in H; [discriminate H|].
    destruct (ch <? 0)%Z; [fin H|].
    nxt_step H s.
    destruct ((ch =? 42) && (c =? 47))%Z.
    - tail_nxt H.
    - eapply IH; eassumption.
  Qed.

  (* scanOperator never produces the EOF token type *)
  Lemma scan_operator_Q : forall s ch0 ch ty s' ch', Q s ch ->
    scan_operator A nxt s ch0 ch = Some (ty, s', ch') -> Q s' ch' /\ ty <> TEOF.
  Proof.
    intros s ch0 ch ty s' ch' HQ H. unfold scan_operator, option_map in H. red_all H.
    assert (Hfin : forall ty0 : toktype, ty0 <> TEOF -> Some (ty0, s, ch) = Some (ty, s', ch') -> Q s' ch' /\ ty <> TEOF).
    { intros ty0 Hty H0. inversion H0; subst. split; [exact HQ|exact Hty]. }
    assert (Hn : forall ty0 : toktype, ty0 <> TEOF ->
               match nxt s with Some a => Some (ty0, fst a, snd a) | None => None end = Some (ty, s', ch') ->
               Q s' ch' /\ ty <> TEOF).
    { intros ty0 Hty H0. destruct (nxt s) as [[a1 c1]|] eqn:Ha; [|discriminate H0].
      cbn [fst snd] in H0. inversion H0; subst. split; [|exact Hty]. eapply Q_nxt; [|exact Ha]. solveP. }
    destruct (existsb (Z.eqb ch0) [64; 46; 44; 59; 40; 41; 123; 125; 91; 93; 43; 45; 42]%Z);
      [eapply Hfin; [|exact H]; discriminate|].
    destruct (ch0 =? 58)%Z. { destruct (ch =? 58)%Z; [eapply Hn|eapply Hfin]; try exact H; discriminate. }
    destruct ((ch0 =? 33) || (ch0 =? 60) || (ch0 =? 62))%Z. { destruct (ch =? 61)%Z; [eapply Hn|eapply Hfin]; try exact H; discriminate. }
    destruct (ch0 =? 61)%Z. { destruct (ch =? 61)%Z; [eapply Hn|eapply Hfin]; try exact H; discriminate. }
    destruct (ch0 =? 124)%Z. { destruct (ch =? 124)%Z; [eapply Hn|eapply Hfin]; try exact H; discriminate. }
    destruct (ch0 =? 38)%Z. { destruct (ch =? 38)%Z; [eapply Hn|eapply Hfin]; try exact H; discriminate. }
    eapply Hfin; [|exact H]; discriminate.
  Qed.

  (* a leaf of next_token: [H : Some (token, a, c) = Some (t, s', ch')] *)
  Ltac leaf H :=
    inversion H; subst; clear H; split;
    [ solveQ
    | cbn [t_type]; intros Hteof; exfalso;
      repeat match type of Hteof with
             | context [match ?ty with TEOF => _ | _ => _ end] => destruct ty
             | context [if ?c then _ else _] => destruct c
             end; first [discriminate Hteof | congruence] ].

  Ltac step H :=
    lazymatch type of H with
    | Some _ = Some _ => leaf H
    | None = Some _ => discriminate H
    | ?lhs = Some _ =>
      lazymatch lhs with
      | match ?x with _ => _ end =>
        lazymatch x with
        | nxt ?a => nxt_step H a
        | scan_while A nxt _ _ ?a ?c =>
          let a1 := fresh "a" in let c1 := fresh "c" in let Hs := fresh "Hs" in let HQ := fresh "HQ" in
          destruct x as [[a1 c1]|] eqn:Hs; [|discriminate H];
          assert (HQ : Q a1 c1) by (eapply scan_while_Q; [|exact Hs]; solveQ); red_all H
        | scan_string A nxt seterr _ ?a ?c =>
          let a1 := fresh "a" in let c1 := fresh "c" in let Hs := fresh "Hs" in let HQ := fresh "HQ" in
          destruct x as [[a1 c1]|] eqn:Hs; [|discriminate H];
          assert (HQ : Q a1 c1) by (eapply scan_string_Q; [|exact Hs]; solveQ); red_all H
        | scan_block_comment A nxt seterr _ ?a ?c =>
          let a1 := fresh "a" in let c1 := fresh "c" in let Hs := fresh "Hs" in let HQ := fresh "HQ" in
          destruct x as [[a1 c1]|] eqn:Hs; [|discriminate H];
          assert (HQ : Q a1 c1) by (eapply scan_block_comment_Q; [|exact Hs]; solveQ); red_all H
        | scan_operator A nxt ?a _ ?c =>
          let ty := fresh "ty" in let a1 := fresh "a" in let c1 := fresh "c" in let Hs := fresh "Hs" in
          let HQ := fresh "HQ" in let Hty := fresh "Hty" in
          destruct x as [[[ty a1] c1]|] eqn:Hs; [|discriminate H];
          assert (HQ : Q a1 c1 /\ ty <> TEOF) by (eapply scan_operator_Q; [|exact Hs]; solveQ);
          destruct HQ as [HQ Hty]; red_all H
        | _ => lazymatch type of x with bool => destruct x; red_all H end
        end
      end
    end.

  (* nextToken keeps the lookahead honest, and the EOF token is only produced with an error pending *)
  Theorem next_token_Q : forall fuel s ch t s' ch', Q s ch ->
    next_token A nxt start stop seterr pos text fuel s ch = Some (t, s', ch') ->
    Q s' ch' /\ (t_type t = TEOF -> err s' = true).
  Proof.
    induction fuel as [|f IH]; intros s ch t s' ch' HQ H; cbn [next_token] in H; [discriminate H|].
    destruct (scan_while A nxt (S f) is_ws s ch) as [[s0 c0]|] eqn:Hw; [|discriminate H].
    assert (HQ0 : Q s0 c0) by (eapply scan_while_Q; eassumption).
    assert (HQ1 : Q (start s0) c0) by (apply Q_start; exact HQ0).
    destruct (pos (start s0)) as [[off line] col]. red_all H.
    destruct (c0 =? rune_eof)%Z eqn:Heof.
    { inversion H; subst. split; [exact HQ1|]. intros _. apply HQ1. apply Z.eqb_eq. exact Heof. }
    repeat (step H); (eapply IH; [|exact H]; solveQ).
  Qed.

  (* hence the token loop never returns a token list *)
  Theorem tokenize_loop_never_ok : forall fuel s ch acc ts, Q s ch ->
    tokenize_loop A nxt start stop seterr pos text err fuel s ch acc <> Some (Some ts).
  Proof.
    induction fuel as [|f IH]; intros s ch acc ts HQ; cbn [tokenize_loop]; [discriminate|].
    destruct (next_token A nxt start stop seterr pos text (S f) s ch) as [[[t s1] c1]|] eqn:Hn; [|discriminate].
    destruct (next_token_Q _ _ _ _ _ _ HQ Hn) as [HQ1 Hteof].
    destruct (err s1) eqn:He; [discriminate|].
    destruct (t_type t) eqn:Hty; try (apply IH; exact HQ1).
    specialize (Hteof eq_refl). congruence.
  Qed.
End Honest.

(* ------------------------------------------------------------------------------------------------ *)
(* 4. the headline theorem                                                                           *)
(* ------------------------------------------------------------------------------------------------ *)
Theorem reader_failure_is_error : forall fuel b r ts,
    (4 <= b)%nat -> fails_early r -> ~ In rune_eof (r_rest r) -> tokenize fuel b r <> Some (Some ts).
Proof.
  intros fuel b r ts _ HJ Hcl. unfold tokenize.
  assert (HP0 : Pf (init r)).
  { unfold Pf. cbn [init s_rd s_buf]. split; [left; exact HJ|]. split; [constructor|].
    unfold clean. apply Forall_forall. intros x Hin Hx. subst x. exact (Hcl Hin). }
  destruct (next fuel b (init r)) as [[s ch]|] eqn:Hn; [|discriminate].
  apply (tokenize_loop_never_ok scanner (next fuel b) token_start token_stop set_err token_position token_text s_err Pf).
  - intros s0 s' c HP H. exact (next_Pf _ _ _ _ _ HP H).
  - intros s0 HP. split; [exact (Pf_token_start _ HP)|reflexivity].
  - intros s0 HP. split; [exact (Pf_token_stop _ HP)|reflexivity].
  - intros s0 HP. split; [exact (Pf_set_err _ HP)|reflexivity].
  - exact (next_Pf _ _ _ _ _ HP0 Hn).
Qed.

(* the natural reading: the document consists of bytes *)
Corollary reader_failure_is_error_bytes : forall fuel b r ts,
    (4 <= b)%nat -> fails_early r -> Forall (fun x => 0 <= x < 256)%Z (r_rest r) -> tokenize fuel b r <> Some (Some ts).
Proof.
  intros fuel b r ts Hb HJ Hbytes. apply reader_failure_is_error; [exact Hb|exact HJ|].
  intros Hin. rewrite Forall_forall in Hbytes. specialize (Hbytes _ Hin). unfold rune_eof in Hbytes. lia.
Qed.

(* The statement without a hypothesis on the bytes does not hold: a "byte" -1 is taken for end-of-input. *)
Definition cex_reader_mode (m : fmode) : reader :=
  {| r_rest := [65; -1; 66]%Z; r_sched := [(2, false); (0, true)]; r_eof_with_data := false; r_fail_mode := m |}.
Definition cex_reader : reader := cex_reader_mode FSticky.

Lemma reader_failure_is_error_as_stated_false :
  ~ (forall fuel b r ts, (4 <= b)%nat -> fails_early r -> tokenize fuel b r <> Some (Some ts)).
Proof.
  intros H.
  refine (H 10 4 cex_reader _ (le_n 4) _ _).
  - exists 2. split; [reflexivity|]. cbn. lia.
  - vm_compute. reflexivity.
Qed.

(* ... and in every failure mode *)
Lemma reader_failure_is_error_as_stated_false_modes : forall m,
    fails_early (cex_reader_mode m) /\ exists ts, tokenize 10 4 (cex_reader_mode m) = Some (Some ts).
Proof.
  intros m. split.
  - exists 2. split; [reflexivity|]. cbn. lia.
  - destruct m; eexists; vm_compute; reflexivity.
Qed.

(* ------------------------------------------------------------------------------------------------ *)
(* 5. totality: with fuel > length of the document (and enough fuel for next()) the tokenizer always  *)
(*    returns, for ANY reader (failing or not, any bytes).                                            *)
(*    Measure: bytes not yet consumed (in the buffer window or still in the reader), plus one if the   *)
(*    lookahead is a real character.                                                                   *)
(* ------------------------------------------------------------------------------------------------ *)
Section Total.
  Variable A : Type.
  Variables (nxt : A -> option (A * Z)) (start stop seterr : A -> A) (pos : A -> Z * Z * Z)
            (text : A -> list Z) (err : A -> bool).
  Variable P : A -> Prop.
  Variable M : A -> nat.
  Hypothesis T_nxt : forall s, P s ->
    exists s' c, nxt s = Some (s', c) /\ P s' /\ M s' <= M s /\ (c <> rune_eof -> M s' < M s).
  Hypothesis T_start : forall s, P s -> P (start s) /\ M (start s) = M s.
  Hypothesis T_stop : forall s, P s -> P (stop s) /\ M (stop s) = M s.
  Hypothesis T_seterr : forall s, P s -> P (seterr s) /\ M (seterr s) = M s.

  Definition N (s : A) (ch : Z) : nat := M s + (if (ch =? rune_eof)%Z then 0 else 1).

  Lemma M_le_N : forall s ch, M s <= N s ch.
  Proof. intros s ch. unfold N. lia. Qed.

  Lemma M_lt_N : forall s ch, ch <> rune_eof -> M s < N s ch.
  Proof. intros s ch H. unfold N. apply Z.eqb_neq in H. rewrite H. lia. Qed.

  Lemma N_nxt : forall s, P s -> exists s' c, nxt s = Some (s', c) /\ P s' /\ N s' c <= M s.
  Proof.
    intros s HP. destruct (T_nxt s HP) as (s' & c & E & HP' & Hle & Hlt).
    exists s', c. split; [exact E|]. split; [exact HP'|]. unfold N.
    destruct (Z.eqb_spec c rune_eof) as [Hc|Hc]; [lia|]. specialize (Hlt Hc). lia.
  Qed.

  Lemma N_start : forall s ch, P s -> N (start s) ch = N s ch.
  Proof. intros s ch HP. unfold N. destruct (T_start s HP) as [_ E]. rewrite E. reflexivity. Qed.
  Lemma N_stop : forall s ch, P s -> N (stop s) ch = N s ch.
  Proof. intros s ch HP. unfold N. destruct (T_stop s HP) as [_ E]. rewrite E. reflexivity. Qed.
  Lemma N_seterr : forall s ch, P s -> N (seterr s) ch = N s ch.
  Proof. intros s ch HP. unfold N. destruct (T_seterr s HP) as [_ E]. rewrite E. reflexivity. Qed.

  Lemma sw_total : forall p, p rune_eof = false -> forall fuel s ch, P s -> N s ch < fuel ->
    exists s' ch', scan_while A nxt fuel p s ch = Some (s', ch') /\ P s' /\ N s' ch' <= N s ch /\
                   (p ch = true -> N s' ch' < N s ch).
  Proof.
    intros p Hp. induction fuel as [|f IH]; intros s ch HP Hf; [lia|].
    cbn [scan_while]. destruct (p ch) eqn:Hpc.
    - assert (Hne : ch <> rune_eof) by (intros ->; congruence).
      destruct (N_nxt s HP) as (s1 & c1 & E1 & HP1 & HN1). rewrite E1.
      pose proof (M_lt_N s ch Hne) as Hlt.
      destruct (IH s1 c1 HP1 ltac:(lia)) as (s' & ch' & E & HP' & HN' & _).
      exists s', ch'. split; [exact E|]. split; [exact HP'|]. split; [lia|intros _; lia].
    - exists s, ch. split; [reflexivity|]. split; [exact HP|]. split; [lia|discriminate].
  Qed.

  Lemma shex_total : forall n maxd s ch k, P s ->
    exists s' ch' k', scan_hex A nxt n maxd s ch k = Some (s', ch', k') /\ P s' /\ N s' ch' <= N s ch.
  Proof.
    induction n as [|n IH]; intros maxd s ch k HP; cbn [scan_hex].
    - exists s, ch, k. auto.
    - destruct (Nat.ltb k maxd && is_hex ch).
      + destruct (N_nxt s HP) as (s1 & c1 & E1 & HP1 & HN1). rewrite E1.
        destruct (IH maxd s1 c1 (S k) HP1) as (s' & ch' & k' & E & HP' & HN').
        exists s', ch', k'. split; [exact E|]. split; [exact HP'|]. pose proof (M_le_N s ch). lia.
      + exists s, ch, k. auto.
  Qed.

  (* an escape sequence consumes at least the lookahead character *)
  Lemma sesc_total : forall s, P s ->
    exists s' ch', scan_escape A nxt seterr s = Some (s', ch') /\ P s' /\ N s' ch' <= M s.
  Proof.
    intros s HP. unfold scan_escape.
    destruct (N_nxt s HP) as (s1 & c1 & E1 & HP1 & HN1). rewrite E1.
    pose proof (M_le_N s1 c1) as HM1.
    destruct (existsb (Z.eqb c1) [110; 114; 116; 92; 48; 39; 34; 42]%Z).
    { destruct (N_nxt s1 HP1) as (s2 & c2 & E2 & HP2 & HN2). exists s2, c2. split; [exact E2|]. split; [exact HP2|lia]. }
    destruct (c1 =? 120)%Z.
    { destruct (N_nxt s1 HP1) as (s2 & c2 & E2 & HP2 & HN2). rewrite E2.
      destruct (shex_total 3 2 s2 c2 0 HP2) as (s3 & c3 & k & E3 & HP3 & HN3). rewrite E3.
      destruct (Nat.ltb k 2).
      - exists (seterr s3), c3. split; [reflexivity|]. split; [apply T_seterr; exact HP3|]. rewrite N_seterr by exact HP3. lia.
      - exists s3, c3. split; [reflexivity|]. split; [exact HP3|lia]. }
    destruct (c1 =? 117)%Z.
    2:{ exists (seterr s1), c1. split; [reflexivity|]. split; [apply T_seterr; exact HP1|]. rewrite N_seterr by exact HP1. lia. }
    destruct (N_nxt s1 HP1) as (s2 & c2 & E2 & HP2 & HN2). rewrite E2.
    pose proof (M_le_N s2 c2) as HM2.
    destruct (negb (c2 =? 123)%Z).
    { exists (seterr s2), c2. split; [reflexivity|]. split; [apply T_seterr; exact HP2|]. rewrite N_seterr by exact HP2. lia. }
    destruct (N_nxt s2 HP2) as (s3 & c3 & E3 & HP3 & HN3). rewrite E3.
    destruct (shex_total 7 6 s3 c3 0 HP3) as (s4 & c4 & k & E4 & HP4 & HN4). rewrite E4.
    cbv zeta.
    assert (H4 : P (if Nat.ltb k 1 then seterr s4 else s4) /\
                 forall c, N (if Nat.ltb k 1 then seterr s4 else s4) c = N s4 c).
    { destruct (Nat.ltb k 1); [|auto]. split; [apply T_seterr; exact HP4|]. intros c. apply N_seterr. exact HP4. }
    destruct H4 as [HP4' HN4'].
    destruct (negb (c4 =? 125)%Z).
    - eexists; eexists. split; [reflexivity|]. split; [apply T_seterr; exact HP4'|].
      rewrite N_seterr by exact HP4'. rewrite HN4'. lia.
    - destruct (N_nxt _ HP4') as (s5 & c5 & E5 & HP5 & HN5). exists s5, c5. split; [exact E5|]. split; [exact HP5|].
      pose proof (M_le_N (if Nat.ltb k 1 then seterr s4 else s4) c4) as HM4. rewrite HN4' in HM4. lia.
  Qed.

  Lemma sstr_total : forall fuel s ch, P s -> N s ch < fuel ->
    exists s' ch', scan_string A nxt seterr fuel s ch = Some (s', ch') /\ P s' /\ N s' ch' <= N s ch.
  Proof.
    induction fuel as [|f IH]; intros s ch HP Hf; [lia|].
    cbn [scan_string].
    destruct (ch =? 34)%Z; [exists s, ch; auto|].
    destruct ((ch =? 10) || (ch <? 0))%Z eqn:Hc.
    { exists (seterr s), ch. split; [reflexivity|]. split; [apply T_seterr; exact HP|]. rewrite N_seterr by exact HP. lia. }
    assert (Hne : ch <> rune_eof) by (intros ->; cbn in Hc; discriminate).
    pose proof (M_lt_N s ch Hne) as Hlt.
    destruct (ch =? 92)%Z.
    - destruct (sesc_total s HP) as (s1 & c1 & E1 & HP1 & HN1). rewrite E1.
      destruct (IH s1 c1 HP1 ltac:(lia)) as (s' & ch' & E & HP' & HN').
      exists s', ch'. split; [exact E|]. split; [exact HP'|lia].
    - destruct (N_nxt s HP) as (s1 & c1 & E1 & HP1 & HN1). rewrite E1.
      destruct (IH s1 c1 HP1 ltac:(lia)) as (s' & ch' & E & HP' & HN').
      exists s', ch'. split; [exact E|]. split; [exact HP'|lia].
  Qed.

  Lemma sbc_total : forall fuel s ch, P s -> N s ch < fuel ->
    exists s' ch', scan_block_comment A nxt seterr fuel s ch = Some (s', ch') /\ P s' /\ N s' ch' <= N s ch.
  Proof.
    induction fuel as [|f IH]; intros s ch HP Hf; [lia|].
    cbn [scan_block_comment].
    destruct (ch <? 0)%Z eqn:Hc.
    { exists (seterr s), ch. split; [reflexivity|]. split; [apply T_seterr; exact HP|]. rewrite N_seterr by exact HP. lia. }
    assert (Hne : ch <> rune_eof) by (intros ->; cbn in Hc; discriminate).
    pose proof (M_lt_N s ch Hne) as Hlt.
    destruct (N_nxt s HP) as (s1 & c1 & E1 & HP1 & HN1). rewrite E1.
    destruct ((ch =? 42) && (c1 =? 47))%Z.
    - destruct (N_nxt s1 HP1) as (s2 & c2 & E2 & HP2 & HN2). exists s2, c2. split; [exact E2|]. split; [exact HP2|].
      pose proof (M_le_N s1 c1). lia.
    - destruct (IH s1 c1 HP1 ltac:(lia)) as (s' & ch' & E & HP' & HN').
      exists s', ch'. split; [exact E|]. split; [exact HP'|lia].
  Qed.

  Lemma sop_total : forall s ch0 ch, P s ->
    exists ty s' ch', scan_operator A nxt s ch0 ch = Some (ty, s', ch') /\ P s' /\ N s' ch' <= N s ch.
  Proof.
    intros s ch0 ch HP. unfold scan_operator, option_map.
    destruct (N_nxt s HP) as (s1 & c1 & E1 & HP1 & HN1). rewrite E1. cbn [fst snd].
    pose proof (M_le_N s ch) as HM.
    repeat match goal with
           | |- context [if ?c then _ else _] => destruct c
           end;
      first [ exists TOperator, s, ch; split; [reflexivity|]; split; [exact HP|lia]
            | exists TUnknown, s, ch; split; [reflexivity|]; split; [exact HP|lia]
            | exists TOperator, s1, c1; split; [reflexivity|]; split; [exact HP1|lia] ].
  Qed.

  Lemma ntok_total : forall fuel s ch, P s -> N s ch < fuel ->
    exists t s' ch', next_token A nxt start stop seterr pos text fuel s ch = Some (t, s', ch') /\ P s' /\
                     N s' ch' <= N s ch /\ (t_type t <> TEOF -> N s' ch' < N s ch).
  Proof.
    induction fuel as [|f IH]; intros s ch HP Hf; [lia|].
    cbn [next_token].
    destruct (sw_total is_ws eq_refl (S f) s ch HP Hf) as (s0 & c0 & E0 & HP0 & HN0 & _). rewrite E0.
    destruct (pos (start s0)) as [[off line] col]. cbv beta iota zeta.
    destruct (T_start s0 HP0) as [HP1 _]. pose proof (N_start s0 c0 HP0) as HN1.
    destruct (c0 =? rune_eof)%Z eqn:Heof.
    { do 3 eexists. split; [reflexivity|]. split; [exact HP1|]. split; [lia|]. cbn [t_type]. congruence. }
    apply Z.eqb_neq in Heof.
    (* the first character of the token is consumed *)
    destruct (N_nxt _ HP1) as (s2 & c2 & E2 & HP2 & HN2).
    pose proof (M_lt_N (start s0) c0 Heof) as Hlt0.
    assert (Hr2 : N s2 c2 < N s ch) by lia.
    destruct (is_ident_rune c0 true).
    { rewrite E2.
      destruct (sw_total (fun x => is_ident_rune x false) eq_refl (S f) s2 c2 HP2 ltac:(lia)) as (s3 & c3 & E3 & HP3 & HN3 & _).
      rewrite E3. do 3 eexists. split; [reflexivity|]. split; [exact HP3|]. split; [lia|intros _; lia]. }
    destruct (is_num c0) eqn:Hnum.
    { destruct (sw_total is_num eq_refl (S f) (start s0) c0 HP1 ltac:(lia)) as (s3 & c3 & E3 & HP3 & HN3 & HN3').
      rewrite E3. specialize (HN3' Hnum).
      do 3 eexists. split; [reflexivity|]. split; [exact HP3|]. split; [lia|intros _; lia]. }
    destruct (c0 =? 34)%Z.
    { rewrite E2.
      destruct (sstr_total (S f) s2 c2 HP2 ltac:(lia)) as (s3 & c3 & E3 & HP3 & HN3). rewrite E3.
      destruct (N_nxt s3 HP3) as (s4 & c4 & E4 & HP4 & HN4). rewrite E4.
      pose proof (M_le_N s3 c3).
      do 3 eexists. split; [reflexivity|]. split; [exact HP4|]. split; [lia|intros _; lia]. }
    destruct (c0 =? 47)%Z.
    { rewrite E2.
      destruct (T_stop s2 HP2) as [HPs2 HMs2].
      destruct (c2 =? 47)%Z.
      { destruct (N_nxt _ HPs2) as (s3 & c3 & E3 & HP3 & HN3). rewrite E3.
        pose proof (M_le_N s2 c2).
        destruct (sw_total (fun x => negb (x =? 10)%Z && (0 <=? x)%Z) eq_refl (S f) s3 c3 HP3 ltac:(lia))
          as (s4 & c4 & E4 & HP4 & HN4 & _).
        rewrite E4.
        destruct (IH s4 c4 HP4 ltac:(lia)) as (t & s' & ch' & E & HP' & HN' & _).
        exists t, s', ch'. split; [exact E|]. split; [exact HP'|]. split; [lia|intros _; lia]. }
      destruct (c2 =? 42)%Z.
      { destruct (N_nxt _ HPs2) as (s3 & c3 & E3 & HP3 & HN3). rewrite E3.
        pose proof (M_le_N s2 c2).
        destruct (sbc_total (S f) s3 c3 HP3 ltac:(lia)) as (s4 & c4 & E4 & HP4 & HN4).
        rewrite E4.
        destruct (IH s4 c4 HP4 ltac:(lia)) as (t & s' & ch' & E & HP' & HN' & _).
        exists t, s', ch'. split; [exact E|]. split; [exact HP'|]. split; [lia|intros _; lia]. }
      destruct (sop_total s2 c0 c2 HP2) as (ty & s3 & c3 & E3 & HP3 & HN3). rewrite E3.
      do 3 eexists. split; [reflexivity|]. split; [exact HP3|]. split; [lia|intros _; lia]. }
    rewrite E2.
    destruct (sop_total s2 c0 c2 HP2) as (ty & s3 & c3 & E3 & HP3 & HN3). rewrite E3.
    do 3 eexists. split; [reflexivity|]. split; [exact HP3|]. split; [lia|intros _; lia].
  Qed.

  Theorem tloop_total : forall fuel s ch acc, P s -> N s ch < fuel ->
    tokenize_loop A nxt start stop seterr pos text err fuel s ch acc <> None.
  Proof.
    induction fuel as [|f IH]; intros s ch acc HP Hf; [lia|].
    cbn [tokenize_loop].
    destruct (ntok_total (S f) s ch HP Hf) as (t & s' & c' & E & HP' & HN' & Hlt). rewrite E.
    destruct (err s'); [discriminate|].
    assert (Hcont : t_type t <> TEOF ->
                    tokenize_loop A nxt start stop seterr pos text err f s' c' (t :: acc) <> None).
    { intros Hty. specialize (Hlt Hty). apply IH; [exact HP'|lia]. }
    destruct (t_type t) eqn:Hty; [discriminate | apply Hcont; discriminate ..].
  Qed.
End Total.

(* the measure on the buffered scanner: bytes in the window plus bytes still in the reader *)
Definition Mz (s : scanner) : nat := length (window s) + length (r_rest (s_rd s)).

Lemma window_len : forall s, length (window s) = length (s_buf s) - s_pos s.
Proof. intros s. unfold window. apply skipn_length. Qed.

Lemma step_Mz : forall s s' w,
    s_buf s' = s_buf s -> s_pos s' = s_pos s + w -> s_rd s' = s_rd s -> 1 <= w -> window s <> [] -> Mz s' < Mz s.
Proof.
  intros s s' w Eb Ep Er Hw Hne.
  assert (Hl : 0 < length (window s)) by (destruct (window s); [congruence|cbn [length]; lia]).
  rewrite window_len in Hl.
  unfold Mz. rewrite (window_len s'), (window_len s), Eb, Ep, Er. lia.
Qed.

Lemma refill_step_Mz : forall b s s' out,
    refill_step b s = (s', out) -> Mz s' <= Mz s /\ (out = Break -> window s' <> []).
Proof.
  intros b s s' out.
  destruct (read (s_rd s) (b - length (window s))) as [[data err] rd'] eqn:Hrd.
  rewrite (refill_step_unfold _ _ _ _ _ Hrd).
  apply read_rest in Hrd.
  assert (HM : Mz (rs1 s data rd') = Mz s).
  { unfold Mz. change (window (rs1 s data rd')) with (window s ++ data). cbn [rs1 s_rd].
    rewrite Hrd, !app_length. lia. }
  destruct err as [[|]|]; cbn zeta.
  - destruct (window s ++ data) as [|y ys] eqn:Hw; intros H; inversion H; subst s' out.
    + split; [|discriminate]. rewrite <- HM. unfold Mz.
      change (window (eof_state (rs1 s data rd'))) with (@nil Z). cbn [length eof_state rs1 s_rd]. lia.
    + split; [rewrite HM; lia|]. intros _. change (window (rs1 s data rd')) with (window s ++ data). rewrite Hw. discriminate.
  - destruct (window s ++ data) as [|y ys] eqn:Hw; intros H; inversion H; subst s' out.
    + split; [|discriminate]. rewrite <- HM. unfold Mz.
      change (window (eof_state (set_err (rs1 s data rd')))) with (@nil Z). cbn [length eof_state set_err rs1 s_rd]. lia.
    + split.
      * rewrite <- HM. unfold Mz. change (window (set_err (rs1 s data rd'))) with (window (rs1 s data rd')).
        cbn [set_err rs1 s_rd]. lia.
      * intros _. change (window (set_err (rs1 s data rd'))) with (window s ++ data). rewrite Hw. discriminate.
  - intros H; inversion H; subst s' out. split; [rewrite HM; lia|discriminate].
Qed.

Lemma refill_Mz : forall b fuel s s1 eof,
    refill fuel b s = Some (s1, eof) -> Mz s1 <= Mz s /\ (eof = false -> window s1 <> []).
Proof.
  intros b fuel; induction fuel as [|f IH]; intros s s1 eof; cbn [refill]; [discriminate|].
  destruct (need_refill s) eqn:Hneed.
  - destruct (refill_step b s) as [s' out] eqn:Hst.
    destruct (refill_step_Mz _ _ _ _ Hst) as [Hle Hbr].
    destruct out.
    + intros H. destruct (IH _ _ _ H) as [Hle' Hw]. split; [lia|exact Hw].
    + intros H; inversion H; subst. split; [exact Hle|]. intros _. apply Hbr. reflexivity.
    + intros H; inversion H; subst. split; [exact Hle|discriminate].
  - intros H; inversion H; subst. split; [lia|]. intros _.
    destruct (no_need_refill_decode s1 [] Hneed) as [Hne _]. exact Hne.
Qed.

Lemma finish_Mz : forall s1, window s1 <> [] -> Mz (fst (finish s1)) < Mz s1.
Proof.
  intros s1 Hne. unfold finish.
  destruct (byte_at s1 <? 128)%Z.
  - cbn [fst]. apply step_Mz with (w := 1); auto using ascii_step_buf, ascii_step_pos, ascii_step_rd.
  - destruct (window s1) as [|x xs] eqn:Hw; [congruence|].
    destruct (decode_rune (x :: xs)) as [ch w] eqn:Hd.
    destruct (decode_rune_width _ _ _ _ Hd) as [Hw1 _].
    destruct ((ch =? rune_error)%Z && Nat.eqb w 1); cbn [fst].
    + apply step_Mz with (w := 1); try reflexivity; try lia; congruence.
    + apply step_Mz with (w := w); try reflexivity; try lia; congruence.
Qed.

(* next() never un-reads, and every real character consumes at least one byte *)
Lemma next_Mz : forall fuel b s s' ch,
    next fuel b s = Some (s', ch) -> Mz s' <= Mz s /\ (ch <> rune_eof -> Mz s' < Mz s).
Proof.
  intros fuel b s s' ch. rewrite next_unfold.
  destruct (byte_at s <? 128)%Z eqn:Hb.
  - destruct (byte_at_ascii _ Hb) as [xs Hw].
    intros H; inversion H; subst.
    assert (Hlt : Mz (ascii_step s (byte_at s)) < Mz s).
    { apply step_Mz with (w := 1); auto using ascii_step_buf, ascii_step_pos, ascii_step_rd. congruence. }
    split; [lia|intros _; exact Hlt].
  - destruct (refill fuel b s) as [[s1 eof]|] eqn:Hrf; [|discriminate].
    destruct (refill_Mz _ _ _ _ _ Hrf) as [Hle Hw].
    destruct eof.
    + intros H; inversion H; subst. split; [exact Hle|]. intros Hc. congruence.
    + pose proof (finish_Mz s1 (Hw eq_refl)) as Hfin.
      destruct (finish s1) as [sf chf]. cbn [fst] in Hfin.
      intros H; inversion H; subst. split; [lia|intros _; lia].
Qed.

(* totality of the whole pipeline, for any reader *)
Theorem tokenize_total_gen : forall b r fuel,
    (4 <= b)%nat -> (length (r_rest r) < fuel)%nat -> (length (r_sched r) + 2 <= fuel)%nat ->
    tokenize fuel b r <> None.
Proof.
  intros b r fuel Hb Hlen Hsched. unfold tokenize.
  set (Pt := fun s : scanner => length (r_sched (s_rd s)) + 2 <= fuel).
  assert (Hnxt : forall s, Pt s ->
            exists s' c, next fuel b s = Some (s', c) /\ Pt s' /\ Mz s' <= Mz s /\ (c <> rune_eof -> Mz s' < Mz s)).
  { intros s HP. pose proof (next_total_gen b fuel s Hb HP) as Ht.
    destruct (next fuel b s) as [[s' c]|] eqn:Hn; [|congruence].
    exists s', c. split; [reflexivity|]. split.
    - unfold Pt in *. pose proof (next_sched_le _ _ _ _ _ Hn). lia.
    - exact (next_Mz _ _ _ _ _ Hn). }
  assert (HP0 : Pt (init r)) by exact Hsched.
  destruct (Hnxt _ HP0) as (s & ch & E & HP & Hle & Hlt). rewrite E.
  apply (tloop_total scanner (next fuel b) token_start token_stop set_err token_position token_text s_err Pt Mz Hnxt).
  - intros s0 H0. split; [exact H0|reflexivity].
  - intros s0 H0. split; [exact H0|reflexivity].
  - intros s0 H0. split; [exact H0|reflexivity].
  - exact HP.
  - assert (HM0 : Mz (init r) = length (r_rest r)) by reflexivity.
    unfold N. destruct (Z.eqb_spec ch rune_eof) as [Hc|Hc]; [lia|]. specialize (Hlt Hc). lia.
Qed.

(* the positive form: with enough fuel, a reader that fails early yields exactly "error" *)
Theorem reader_failure_is_error_total : forall b r fuel,
    (4 <= b)%nat -> fails_early r -> ~ In rune_eof (r_rest r) ->
    (length (r_rest r) < fuel)%nat -> (length (r_sched r) + 2 <= fuel)%nat -> tokenize fuel b r = Some None.
Proof.
  intros b r fuel Hb HJ Hcl Hlen Hsched.
  pose proof (tokenize_total_gen b r fuel Hb Hlen Hsched) as Ht.
  destruct (tokenize fuel b r) as [[ts|]|] eqn:E; [|reflexivity|congruence].
  exfalso. exact (reader_failure_is_error fuel b r ts Hb HJ Hcl E).
Qed.

Corollary reader_failure_is_error_total_bytes : forall b r fuel,
    (4 <= b)%nat -> fails_early r -> Forall (fun x => 0 <= x < 256)%Z (r_rest r) ->
    (length (r_rest r) < fuel)%nat -> (length (r_sched r) + 2 <= fuel)%nat -> tokenize fuel b r = Some None.
Proof.
  intros b r fuel Hb HJ Hbytes Hlen Hsched. apply reader_failure_is_error_total; auto.
  intros Hin. rewrite Forall_forall in Hbytes. specialize (Hbytes _ Hin). unfold rune_eof in Hbytes. lia.
Qed.

(* the positive form as originally stated (no hypothesis on the bytes) fails on the same witness *)
Lemma reader_failure_is_error_total_as_stated_false :
  ~ (forall b r fuel, (4 <= b)%nat -> fails_early r ->
       (length (r_rest r) < fuel)%nat -> (length (r_sched r) + 2 <= fuel)%nat -> tokenize fuel b r = Some None).
Proof.
  intros H.
  assert (HJ : fails_early cex_reader) by (exists 2; split; [reflexivity|cbn; lia]).
  specialize (H 4 cex_reader 10 (le_n 4) HJ ltac:(cbn; lia) ltac:(cbn; lia)).
  vm_compute in H. discriminate H.
Qed.

(* ------------------------------------------------------------------------------------------------ *)
(* 6. non-vacuity for the data-with-error mode: the two-token document "a b" ; the failing step delivers the  *)
(*    last byte ("b") TOGETHER with the error and is followed by a clean io.EOF.  The tokenizer reports the     *)
(*    error; the same reader without the failing flag gives the two tokens (and the EOF token).               *)
(* ------------------------------------------------------------------------------------------------ *)
Definition ex_fd_reader (fail : bool) : reader :=
  {| r_rest := [97; 32; 98]%Z; r_sched := [(2, false); (1, fail)]; r_eof_with_data := false; r_fail_mode := FOnceData |}.

Example ex_fail_once_data :
  fails_early (ex_fd_reader true) /\
  (* the failing read really delivers the last byte with the error, and the next read is a clean EOF *)
  (let r1 := snd (read (ex_fd_reader true) 4) in
   read r1 4 = ([98]%Z, Some RFail, snd (read r1 4)) /\ read (snd (read r1 4)) 4 = ([], Some REOF, snd (read r1 4))) /\
  tokenize 10 4 (ex_fd_reader true) = Some None /\
  tokenize 10 1024 (ex_fd_reader true) = Some None /\
  (exists ts, tokenize 10 4 (ex_fd_reader false) = Some (Some ts) /\
              map t_type ts = [TIdent; TIdent; TEOF] /\ map t_text ts = [[97]; [98]; []]%Z /\ map t_off ts = [0; 2; 3]%Z).
Proof.
  split; [exists 2; split; [reflexivity|cbn; lia]|].
  split; [vm_compute; split; reflexivity|].
  split; [vm_compute; reflexivity|].
  split; [vm_compute; reflexivity|].
  eexists. split; [vm_compute; reflexivity|]. repeat split; reflexivity.
Qed.

(* the general theorem applies to it *)
Example ex_fail_once_data_thm : forall b fuel, (4 <= b)%nat -> (4 <= fuel)%nat -> tokenize fuel b (ex_fd_reader true) = Some None.
Proof.
  intros b fuel Hb Hf. apply reader_failure_is_error_total_bytes.
  - exact Hb.
  - exists 2. split; [reflexivity|cbn; lia].
  - repeat constructor; lia.
  - cbn. lia.
  - cbn. lia.
Qed.

Print Assumptions reader_failure_is_error.
Print Assumptions reader_failure_is_error_bytes.
Print Assumptions reader_failure_is_error_as_stated_false.
Print Assumptions tokenize_total_gen.
Print Assumptions reader_failure_is_error_total.
Print Assumptions reader_failure_is_error_total_bytes.
Print Assumptions reader_failure_is_error_total_as_stated_false.
Print Assumptions reader_failure_is_error_as_stated_false_modes.
Print Assumptions ex_fail_once_data.
Print Assumptions ex_fail_once_data_thm.
