(* C08 complement: the text normal form of a policy (Lang/RoundTrip.v: norm / norm_policy) has the same meaning.
   In a Section with  set_order (Hypothesis set_order_perm: a permutation of the positions of the member list) and
   print_ip / ip_ok (Hypothesis ip_roundtrip, the shape used in PolicyJsonProofs / ValueJsonProofs):
   - eval_norm                 : norm_env_wf en -> lit_ok e = true -> res_equiv (eval en (norm e)) (eval en e)
                                 (Ok values equal up to veq, or the same error kind)
   - eval_norm_wf              : the same with both values well formed (res_equiv_wf: on well-formed values veq is an equivalence, veqw)
   - eval_norm_bool            : bool_eval en (norm e) = bool_eval en e
   - policy_norm_same_outcome  : bool_eval en (policy_to_expr (norm_policy p)) = bool_eval en (policy_to_expr p)   (an EQUALITY)
   - policy_norm_same_sat      : sat en (norm_policy p) = sat en p
   lit_ok e: every literal value in e is wf_value (sets duplicate-free, records key-sorted) and its decimal / duration leaves are int64,
   its datetime leaves are in in_dt_range (F27: the lowest day of int64 does not read back), its ip leaves satisfy ip_ok.
   norm_env_wf en: the four request values and every attribute / tag value of the store are wf_value.
   The work: evaluation respects veq on well-formed values - one congruence lemma per operator (and_cong ... call_cong).
   Examples at the end show that wf_value, the datetime / decimal ranges and set_order_perm are needed. *)
From Coq Require Import ZArith List Bool Lia Arith String Permutation.
Import ListNotations.
From Cedar Require Import Base.Int64 Lang.Value Lang.Expr Impl.Like Impl.InSearch Impl.Eval Impl.Decimal Impl.Duration Impl.Datetime Impl.IPAddr
  Lang.RoundTrip.
From Cedar Require Import Proofs.ValueProofs Proofs.DecimalProofs Proofs.DurationProofs Proofs.DatetimeProofs Proofs.ValueJsonProofs
  Proofs.PartialProofs Proofs.PolicyJsonProofs.
Local Open Scope Z_scope.

(* ------------------------------------------------------------------------------------------ *)
(* Value equality between well-formed values is an equivalence                                  *)
(* ------------------------------------------------------------------------------------------ *)

Definition veqw (a b : value) : Prop := veq a b = true /\ wf_value a = true /\ wf_value b = true.

Lemma veqw_refl a : wf_value a = true -> veqw a a.
Proof. intros H. split; [apply veq_refl | auto]. Qed.

Lemma veqw_sym a b : veqw a b -> veqw b a.
Proof. intros (H & Ha & Hb). split; [|auto]. rewrite veq_sym; auto. Qed.

Lemma veqw_trans a b c : veqw a b -> veqw b c -> veqw a c.
Proof. intros (H1 & Ha & Hb) (H2 & _ & Hc). split; [|auto]. eapply veq_trans_nowf; eauto. Qed.

Lemma veqw_cases a b : veqw a b ->
  (atomic a /\ a = b) \/ (exists l m, a = VSet l /\ b = VSet m) \/ (exists l m, a = VRecord l /\ b = VRecord m).
Proof.
  intros (H & _ & _). destruct a; try (left; split; [exact I | apply atomic_veq_l; [exact I | exact H]]).
  - right; left. destruct (veq_set_l_inv _ _ H) as [m ->]. eauto.
  - right; right. destruct (veq_rec_l_inv _ _ H) as [m ->]. eauto.
Qed.

Lemma veq_cong x x' y y' : veqw x x' -> veqw y y' -> veq x y = veq x' y'.
Proof.
  intros Hx Hy. destruct (veq x y) eqn:E1; destruct (veq x' y') eqn:E2; auto.
  - assert (H : veq x' y' = true); [|congruence].
    apply veqw_sym in Hx. destruct Hx as (Hx & _ & _). destruct Hy as (Hy & _ & _).
    eapply veq_trans_nowf; [exact Hx|]. eapply veq_trans_nowf; eauto.
  - assert (H : veq x y = true); [|congruence].
    apply veqw_sym in Hy. destruct Hx as (Hx & _ & _). destruct Hy as (Hy & _ & _).
    eapply veq_trans_nowf; [exact Hx|]. eapply veq_trans_nowf; eauto.
Qed.

(* sets *)
Definition vsub (l l' : list value) : Prop := forall y, In y l -> exists y', In y' l' /\ veqw y y'.

Lemma veqw_set_sub l l' : veqw (VSet l) (VSet l') -> vsub l l'.
Proof.
  intros (H & Hl & Hl'). apply veq_set_iff in H. destruct H as [_ H].
  apply wf_set_inv in Hl. apply wf_set_inv in Hl'. destruct Hl as [_ Hl]. destruct Hl' as [_ Hl'].
  intros y Hy. destruct (H y Hy) as (y' & Hy' & E). exists y'. split; [auto|]. split; auto.
Qed.

Lemma veqw_set_len l l' : veqw (VSet l) (VSet l') -> List.length l = List.length l'.
Proof. intros (H & _). apply veq_set_iff in H. tauto. Qed.

Lemma vmem_sub x x' l l' : veqw x x' -> vsub l l' -> vmem x l = true -> vmem x' l' = true.
Proof.
  intros Hx Hs H. apply vmem_true_iff in H. destruct H as (y & Hy & E).
  destruct (Hs y Hy) as (y' & Hy' & Hyy). apply vmem_true_iff. exists y'. split; [auto|].
  apply veqw_sym in Hx. destruct Hx as (Hx & _). destruct Hyy as (Hyy & _).
  eapply veq_trans_nowf; [exact Hx|]. eapply veq_trans_nowf; eauto.
Qed.

Lemma vmem_cong x x' l l' : veqw x x' -> vsub l l' -> vsub l' l -> vmem x l = vmem x' l'.
Proof.
  intros Hx H1 H2. destruct (vmem x l) eqn:E1; destruct (vmem x' l') eqn:E2; auto.
  - rewrite (vmem_sub _ _ _ _ Hx H1 E1) in E2. discriminate.
  - rewrite (vmem_sub _ _ _ _ (veqw_sym _ _ Hx) H2 E2) in E1. discriminate.
Qed.

Lemma forallb_vmem_cong l l' m m' : vsub l l' -> vsub l' l -> vsub m m' -> vsub m' m ->
  forallb (fun x => vmem x l) m = forallb (fun x => vmem x l') m'.
Proof.
  intros L1 L2 M1 M2.
  destruct (forallb (fun x => vmem x l) m) eqn:E1; destruct (forallb (fun x => vmem x l') m') eqn:E2; auto.
  - assert (H : forallb (fun x => vmem x l') m' = true); [|congruence].
    rewrite forallb_forall in *. intros y' Hy'. destruct (M2 y' Hy') as (y & Hy & E).
    apply (vmem_sub y y' l l'); auto using veqw_sym.
  - assert (H : forallb (fun x => vmem x l) m = true); [|congruence].
    rewrite forallb_forall in *. intros y Hy. destruct (M1 y Hy) as (y' & Hy' & E).
    apply (vmem_sub y' y l' l); auto using veqw_sym.
Qed.

Lemma existsb_vmem_cong l l' m m' : vsub l l' -> vsub l' l -> vsub m m' -> vsub m' m ->
  existsb (fun x => vmem x l) m = existsb (fun x => vmem x l') m'.
Proof.
  intros L1 L2 M1 M2.
  destruct (existsb (fun x => vmem x l) m) eqn:E1; destruct (existsb (fun x => vmem x l') m') eqn:E2; auto.
  - assert (H : existsb (fun x => vmem x l') m' = true); [|congruence].
    apply existsb_exists in E1. destruct E1 as (y & Hy & E). destruct (M1 y Hy) as (y' & Hy' & Eyy).
    apply existsb_exists. exists y'. split; [auto|]. apply (vmem_sub y y' l l'); auto.
  - assert (H : existsb (fun x => vmem x l) m = true); [|congruence].
    apply existsb_exists in E2. destruct E2 as (y' & Hy' & E). destruct (M2 y' Hy') as (y & Hy & Eyy).
    apply existsb_exists. exists y. split; [auto|]. apply (vmem_sub y' y l' l); auto.
Qed.

(* ------------------------------------------------------------------------------------------ *)
(* Results up to value equality                                                                 *)
(* ------------------------------------------------------------------------------------------ *)

Definition res_equiv (a b : res) : Prop :=
  match a, b with Ok x, Ok y => veq x y = true | Err k, Err k' => k = k' | _, _ => False end.

(* the same, and the values are well formed *)
Definition res_equiv_wf (a b : res) : Prop :=
  match a, b with Ok x, Ok y => veqw x y | Err k, Err k' => k = k' | _, _ => False end.

Lemma res_equiv_refl r : res_equiv r r.
Proof. destruct r; cbn; [apply veq_refl | reflexivity]. Qed.

Lemma res_equiv_eq r r' : r = r' -> res_equiv r r'.
Proof. intros ->. apply res_equiv_refl. Qed.

Lemma R_res_equiv r r' : res_equiv_wf r r' -> res_equiv r r'.
Proof. destruct r, r'; cbn; auto. intros (H & _). exact H. Qed.

(* related results are equal, or both sets, or both records *)
Definition flat_res (r : res) : Prop := match r with Ok v => atomic v | Err _ => True end.

Lemma R_cases r r' : res_equiv_wf r r' ->
  (r = r' /\ flat_res r') \/ (exists l m, r = Ok (VSet l) /\ r' = Ok (VSet m) /\ veqw (VSet l) (VSet m))
         \/ (exists l m, r = Ok (VRecord l) /\ r' = Ok (VRecord m) /\ veqw (VRecord l) (VRecord m)).
Proof.
  destruct r as [x|k], r' as [x'|k']; cbn [res_equiv_wf]; try contradiction.
  - intros H. destruct (veqw_cases _ _ H) as [[Ha ->]|[(l & m & -> & ->)|(l & m & -> & ->)]]; eauto 8.
  - intros ->. left. split; [reflexivity | exact I].
Qed.

Lemma res_equiv_cases r r' : res_equiv r r' ->
  r = r' \/ (exists l m, r = Ok (VSet l) /\ r' = Ok (VSet m)) \/ (exists l m, r = Ok (VRecord l) /\ r' = Ok (VRecord m)).
Proof.
  destruct r as [x|k], r' as [x'|k']; cbn [res_equiv]; try contradiction.
  - intros H. destruct x; try (left; f_equal; apply atomic_veq_l; [exact I | exact H]).
    + right; left. destruct (veq_set_l_inv _ _ H) as [m ->]. eauto.
    + right; right. destruct (veq_rec_l_inv _ _ H) as [m ->]. eauto.
  - intros ->. auto.
Qed.

Ltac rc H :=
  let l := fresh "l" in let m := fresh "m" in let E := fresh "E" in let F := fresh "F" in
  apply R_cases in H; destruct H as [[H F]|[(l & m & ? & ? & E)|(l & m & ? & ? & E)]]; subst.
Ltac rq H :=
  let l := fresh "l" in let m := fresh "m" in
  apply res_equiv_cases in H; destruct H as [H|[(l & m & ? & ?)|(l & m & ? & ?)]]; subst.
Ltac fin := try reflexivity; try (apply res_equiv_refl).

(* ------------------------------------------------------------------------------------------ *)
(* One congruence lemma per operator                                                            *)
(* ------------------------------------------------------------------------------------------ *)

Lemma and_cong r1 r1' r2 r2' : res_equiv r1 r1' -> res_equiv r2 r2' ->
  res_equiv (bindr r1 (fun v => as_bool v (fun x => if negb x then Ok v else bindr r2 (fun w => as_bool w (fun _ => Ok w)))))
            (bindr r1' (fun v => as_bool v (fun x => if negb x then Ok v else bindr r2' (fun w => as_bool w (fun _ => Ok w))))).
Proof.
  intros H1 H2. rq H1; cbn; fin. destruct r1' as [[]|]; cbn; fin. destruct b; cbn; fin.
  rq H2; cbn; fin.
Qed.

Lemma or_cong r1 r1' r2 r2' : res_equiv r1 r1' -> res_equiv r2 r2' ->
  res_equiv (bindr r1 (fun v => as_bool v (fun x => if x then Ok v else bindr r2 (fun w => as_bool w (fun _ => Ok w)))))
            (bindr r1' (fun v => as_bool v (fun x => if x then Ok v else bindr r2' (fun w => as_bool w (fun _ => Ok w))))).
Proof.
  intros H1 H2. rq H1; cbn; fin. destruct r1' as [[]|]; cbn; fin. destruct b; cbn; fin.
  rq H2; cbn; fin.
Qed.

Lemma un_cong (f : value -> res) r r' :
  (forall l, f (VSet l) = Err EType) -> (forall l, f (VRecord l) = Err EType) ->
  res_equiv r r' -> res_equiv (bindr r f) (bindr r' f).
Proof. intros Hs Hr H. rq H; cbn; rewrite ?Hs, ?Hr; fin. Qed.

Lemma if_cong rc rc' rt rt' rf rf' : res_equiv rc rc' -> res_equiv rt rt' -> res_equiv rf rf' ->
  res_equiv (bindr rc (fun v => as_bool v (fun x => if x then rt else rf)))
            (bindr rc' (fun v => as_bool v (fun x => if x then rt' else rf'))).
Proof.
  intros H1 H2 H3. rq H1; cbn; fin. destruct rc' as [[]|]; cbn; fin. destruct b; auto.
Qed.

Lemma arith_cong op r1 r1' r2 r2' : res_equiv r1 r1' -> res_equiv r2 r2' ->
  res_equiv (arith_eval r1 r2 op) (arith_eval r1' r2' op).
Proof.
  intros H1 H2. unfold arith_eval. rq H1; cbn; fin. destruct r1' as [[]|]; cbn; fin.
  rq H2; cbn; fin.
Qed.

Lemma cmp_cong f r1 r1' r2 r2' : res_equiv r1 r1' -> res_equiv r2 r2' ->
  res_equiv (cmp_eval r1 r2 f) (cmp_eval r1' r2' f).
Proof.
  intros H1 H2. unfold cmp_eval. rq H1; cbn; fin; destruct r1' as [[]|]; cbn; fin; rq H2; cbn; fin.
Qed.

Lemma eq_cong r1 r1' r2 r2' : res_equiv_wf r1 r1' -> res_equiv_wf r2 r2' ->
  res_equiv (bindr r1 (fun v => bindr r2 (fun w => vbool (veq v w)))) (bindr r1' (fun v => bindr r2' (fun w => vbool (veq v w)))).
Proof.
  intros H1 H2. destruct r1 as [x|], r1' as [x'|]; cbn [res_equiv_wf] in H1; try contradiction; [|subst; reflexivity].
  destruct r2 as [y|], r2' as [y'|]; cbn [res_equiv_wf] in H2; try contradiction; [|subst; reflexivity].
  cbn. rewrite (veq_cong x x' y y'); auto. apply Bool.eqb_reflx.
Qed.

Lemma ne_cong r1 r1' r2 r2' : res_equiv_wf r1 r1' -> res_equiv_wf r2 r2' ->
  res_equiv (bindr r1 (fun v => bindr r2 (fun w => vbool (negb (veq v w))))) (bindr r1' (fun v => bindr r2' (fun w => vbool (negb (veq v w))))).
Proof.
  intros H1 H2. destruct r1 as [x|], r1' as [x'|]; cbn [res_equiv_wf] in H1; try contradiction; [|subst; reflexivity].
  destruct r2 as [y|], r2' as [y'|]; cbn [res_equiv_wf] in H2; try contradiction; [|subst; reflexivity].
  cbn. rewrite (veq_cong x x' y y'); auto. apply Bool.eqb_reflx.
Qed.

(* ---- in ---- *)
Lemma loop_ext {id} eqb parents (hit hit' : list id -> bool) : (forall ps, hit ps = hit' ps) ->
  forall fuel entity known todo cand,
    loop id eqb parents fuel hit entity known todo cand = loop id eqb parents fuel hit' entity known todo cand.
Proof.
  intros Hh. induction fuel as [|f IH]; intros entity known todo cand; cbn [loop]; [reflexivity|].
  destruct (parents cand) as [ps|].
  - rewrite Hh. destruct (hit' ps); [reflexivity|].
    destruct (scan id eqb parents entity ps known todo) as [kn td]. destruct td; [reflexivity | apply IH].
  - destruct todo; [reflexivity | apply IH].
Qed.

Lemma in_set_ext st a us us' : (forall p, mem uid uid_eqb p us = mem uid uid_eqb p us') -> in_set st a us = in_set st a us'.
Proof.
  intros H. unfold in_set, entity_in_set. rewrite H. destruct (mem uid uid_eqb a us'); [reflexivity|].
  apply loop_ext. intros ps. induction ps as [|p ps IH]; cbn [existsb]; [reflexivity|]. rewrite H, IH. reflexivity.
Qed.

Lemma all_entities_mem : forall l us, all_entities l = Some us ->
  forall p, mem uid uid_eqb p us = vmem (VEntity (fst p) (snd p)) l.
Proof.
  induction l as [|x l IH]; intros us; cbn [all_entities].
  - intros H p. inversion H. reflexivity.
  - destruct x; try discriminate. destruct (all_entities l) as [us0|]; [|discriminate]. cbn [option_map].
    intros H p. inversion H; subst. unfold mem. cbn [existsb]. rewrite vmem_cons. f_equal. apply (IH us0 eq_refl p).
Qed.

Lemma all_entities_some_tag : forall l us, all_entities l = Some us -> forall x, In x l -> type_tag x = 3.
Proof.
  induction l as [|x l IH]; intros us; cbn [all_entities]; [intros _ y []|].
  destruct x; try discriminate. destruct (all_entities l) as [us0|]; [|discriminate].
  intros _ y [<-|Hy]; [reflexivity | eapply IH; eauto].
Qed.

Lemma all_entities_none_tag : forall l, all_entities l = None -> exists x, In x l /\ type_tag x <> 3.
Proof.
  induction l as [|x l IH]; cbn [all_entities]; [discriminate|].
  destruct x; try (intros _; eexists; split; [left; reflexivity | cbn; lia]).
  destruct (all_entities l) as [us0|]; [discriminate|]. intros _. destruct (IH eq_refl) as (y & Hy & Ht).
  exists y. split; [right; exact Hy | exact Ht].
Qed.

Lemma sub_none l l' : vsub l' l -> all_entities l' = None -> all_entities l = None.
Proof.
  intros Hs Hn. destruct (all_entities_none_tag _ Hn) as (x' & Hx' & Ht).
  destruct (Hs x' Hx') as (x & Hx & (E & _)). apply veq_type_tag in E.
  destruct (all_entities l) as [us|] eqn:El; [|reflexivity].
  rewrite (all_entities_some_tag _ _ El x Hx) in E. congruence.
Qed.

Lemma do_in_cong st u l l' : veqw (VSet l) (VSet l') -> do_in st u (VSet l) = do_in st u (VSet l').
Proof.
  intros H. pose proof (veqw_set_sub _ _ H) as S1. pose proof (veqw_set_sub _ _ (veqw_sym _ _ H)) as S2.
  cbn [do_in]. destruct (all_entities l) as [us|] eqn:E1; destruct (all_entities l') as [us'|] eqn:E2.
  - f_equal. apply in_set_ext. intros p. rewrite (all_entities_mem _ _ E1), (all_entities_mem _ _ E2).
    apply vmem_cong; auto. apply veqw_refl. reflexivity.
  - rewrite (sub_none _ _ S2 E2) in E1. discriminate.
  - rewrite (sub_none _ _ S1 E1) in E2. discriminate.
  - reflexivity.
Qed.


Lemma in_cong st r1 r1' r2 r2' : res_equiv r1 r1' -> res_equiv_wf r2 r2' ->
  res_equiv (bindr r1 (fun v => as_entity v (fun u => bindr r2 (fun w => do_in st u w))))
            (bindr r1' (fun v => as_entity v (fun u => bindr r2' (fun w => do_in st u w)))).
Proof.
  intros H1 H2. rq H1; cbn [bindr as_entity]; fin. destruct r1' as [[]|]; cbn [bindr as_entity]; fin. rc H2; cbn [bindr]; fin.
  apply res_equiv_eq. apply do_in_cong. exact E.
Qed.

Lemma isin_cong st ty r1 r1' r2 r2' : res_equiv r1 r1' -> res_equiv_wf r2 r2' ->
  res_equiv (bindr r1 (fun v => as_entity v (fun u => if negb (str_eqb (fst u) ty) then vbool false else bindr r2 (fun w => do_in st u w))))
            (bindr r1' (fun v => as_entity v (fun u => if negb (str_eqb (fst u) ty) then vbool false else bindr r2' (fun w => do_in st u w)))).
Proof.
  intros H1 H2. rq H1; cbn [bindr as_entity]; fin. destruct r1' as [[]|]; cbn [bindr as_entity fst]; fin.
  destruct (negb (str_eqb ty0 ty)); fin.
  rc H2; cbn [bindr]; fin. apply res_equiv_eq. apply do_in_cong. exact E.
Qed.

(* ---- sets ---- *)
Lemma sub_refl l : (forall x, In x l -> wf_value x = true) -> vsub l l.
Proof. intros H z Hz. exists z. split; [exact Hz | apply veqw_refl; auto]. Qed.

Lemma contains_cong r1 r1' r2 r2' : res_equiv_wf r1 r1' -> res_equiv_wf r2 r2' ->
  res_equiv (bindr r1 (fun v => as_set v (fun l => bindr r2 (fun w => vbool (vmem w l)))))
            (bindr r1' (fun v => as_set v (fun l => bindr r2' (fun w => vbool (vmem w l))))).
Proof.
  intros H1 H2. rc H1; cbn [bindr as_set]; fin.
  - destruct r1' as [[]|]; cbn [flat_res atomic] in F; try contradiction; cbn; fin.
  - destruct r2 as [y|], r2' as [y'|]; cbn [res_equiv_wf] in H2; try contradiction; [|subst; reflexivity].
    cbn. rewrite (vmem_cong y y' l m); auto using veqw_set_sub, veqw_sym. apply Bool.eqb_reflx.
Qed.

Lemma contains_all_cong r1 r1' r2 r2' : res_equiv_wf r1 r1' -> res_equiv_wf r2 r2' ->
  res_equiv (bindr r1 (fun v => as_set v (fun l => bindr r2 (fun w => as_set w (fun m => vbool (forallb (fun x => vmem x l) m))))))
            (bindr r1' (fun v => as_set v (fun l => bindr r2' (fun w => as_set w (fun m => vbool (forallb (fun x => vmem x l) m)))))).
Proof.
  intros H1 H2. rc H1; cbn [bindr as_set]; fin.
  - destruct r1' as [[]|]; cbn [flat_res atomic] in F; try contradiction; cbn; fin.
  - rc H2; cbn [bindr as_set]; fin.
    + destruct r2' as [[]|]; cbn [flat_res atomic] in F; try contradiction; cbn; fin.
    + cbn. rewrite (forallb_vmem_cong l m l0 m0); auto using veqw_set_sub, veqw_sym. apply Bool.eqb_reflx.
Qed.

Lemma contains_any_cong r1 r1' r2 r2' : res_equiv_wf r1 r1' -> res_equiv_wf r2 r2' ->
  res_equiv (bindr r1 (fun v => as_set v (fun l => bindr r2 (fun w => as_set w (fun m => vbool (existsb (fun x => vmem x l) m))))))
            (bindr r1' (fun v => as_set v (fun l => bindr r2' (fun w => as_set w (fun m => vbool (existsb (fun x => vmem x l) m)))))).
Proof.
  intros H1 H2. rc H1; cbn [bindr as_set]; fin.
  - destruct r1' as [[]|]; cbn [flat_res atomic] in F; try contradiction; cbn; fin.
  - rc H2; cbn [bindr as_set]; fin.
    + destruct r2' as [[]|]; cbn [flat_res atomic] in F; try contradiction; cbn; fin.
    + cbn. rewrite (existsb_vmem_cong l m l0 m0); auto using veqw_set_sub, veqw_sym. apply Bool.eqb_reflx.
Qed.

Lemma is_empty_cong r r' : res_equiv_wf r r' ->
  res_equiv (bindr r (fun v => as_set v (fun l => vbool (is_nil l)))) (bindr r' (fun v => as_set v (fun l => vbool (is_nil l)))).
Proof.
  intros H. rc H; cbn [bindr as_set]; fin. apply veqw_set_len in E. destruct l, m; cbn in E; try discriminate; reflexivity.
Qed.

(* ---- records and entities: . and has ---- *)
Lemma rec_get_cong k l m : veq (VRecord l) (VRecord m) = true ->
  match rec_get k l, rec_get k m with Some x, Some y => veq x y = true | None, None => True | _, _ => False end.
Proof. rewrite veq_record. intros H. apply (rec_eqb_get l m H k). Qed.

Lemma access_cong st k r r' : res_equiv_wf r r' -> res_equiv (bindr r (fun v => get_attr st v k)) (bindr r' (fun v => get_attr st v k)).
Proof.
  intros H. rc H; cbn [bindr get_attr]; fin. destruct E as (E & _). pose proof (rec_get_cong k _ _ E) as G.
  destruct (rec_get k l), (rec_get k m); try contradiction; cbn; auto.
Qed.

Lemma has_cong st k r r' : res_equiv_wf r r' -> res_equiv (bindr r (fun v => has_attr st v k)) (bindr r' (fun v => has_attr st v k)).
Proof.
  intros H. rc H; cbn [bindr has_attr]; fin. destruct E as (E & _). pose proof (rec_get_cong k _ _ E) as G.
  destruct (rec_get k l), (rec_get k m); try contradiction; cbn; auto.
Qed.

(* ---- tags ---- *)
Lemma get_tag_cong st r1 r1' r2 r2' : res_equiv r1 r1' -> res_equiv r2 r2' ->
  res_equiv
   (bindr r1 (fun v => as_entity v (fun u => if is_zero_uid u then Err EUnspecified else
      bindr r2 (fun w => as_string w (fun t => match lookup st u with None => Err EEntity
        | Some ent => match rec_get t (e_tags ent) with Some x => Ok x | None => Err ETag end end)))))
   (bindr r1' (fun v => as_entity v (fun u => if is_zero_uid u then Err EUnspecified else
      bindr r2' (fun w => as_string w (fun t => match lookup st u with None => Err EEntity
        | Some ent => match rec_get t (e_tags ent) with Some x => Ok x | None => Err ETag end end))))).
Proof.
  intros H1 H2. rq H1; cbn [bindr as_entity]; fin. destruct r1' as [[]|]; cbn [bindr as_entity]; fin.
  destruct (is_zero_uid (ty, id)); fin. rq H2; cbn [bindr as_string]; fin.
Qed.

Lemma has_tag_cong st r1 r1' r2 r2' : res_equiv r1 r1' -> res_equiv r2 r2' ->
  res_equiv
   (bindr r1 (fun v => as_entity v (fun u =>
      bindr r2 (fun w => as_string w (fun t => match lookup st u with None => vbool false
        | Some ent => vbool (match rec_get t (e_tags ent) with Some _ => true | None => false end) end)))))
   (bindr r1' (fun v => as_entity v (fun u =>
      bindr r2' (fun w => as_string w (fun t => match lookup st u with None => vbool false
        | Some ent => vbool (match rec_get t (e_tags ent) with Some _ => true | None => false end) end))))).
Proof.
  intros H1 H2. rq H1; cbn [bindr as_entity]; fin. destruct r1' as [[]|]; cbn [bindr as_entity]; fin.
  rq H2; cbn [bindr as_string]; fin.
Qed.

(* ---- set construction ---- *)
Lemma seq_res_R rs rs' : Forall2 res_equiv_wf rs rs' ->
  match seq_res rs, seq_res rs' with
  | inr vs, inr vs' => Forall2 veqw vs vs'
  | inl e, inl e' => e = e'
  | _, _ => False
  end.
Proof.
  induction 1 as [|r r' rs rs' Hr _ IH]; cbn [seq_res]; [constructor|].
  destruct r as [x|k], r' as [x'|k']; cbn [res_equiv_wf] in Hr; try contradiction.
  - destruct (seq_res rs), (seq_res rs'); try contradiction; auto.
  - subst. reflexivity.
Qed.

Lemma Forall2_veqw_sub vs vs' : Forall2 veqw vs vs' -> vsub vs vs' /\ vsub vs' vs.
Proof.
  induction 1 as [|x x' vs vs' Hx _ [IH1 IH2]]; [split; intros y []|]. split.
  - intros y [<-|Hy]; [exists x'; split; [left; reflexivity | exact Hx]|].
    destruct (IH1 y Hy) as (y' & Hy' & E). exists y'. split; [right; exact Hy' | exact E].
  - intros y [<-|Hy]; [exists x; split; [left; reflexivity | apply veqw_sym; exact Hx]|].
    destruct (IH2 y Hy) as (y' & Hy' & E). exists y'. split; [right; exact Hy' | exact E].
Qed.

Lemma sub_wf_l l l' : vsub l l' -> Forall (fun v => wf_value v = true) l.
Proof. intros H. apply Forall_forall. intros x Hx. destruct (H x Hx) as (y & _ & (_ & Hw & _)). exact Hw. Qed.

Lemma mk_set_sub l l' : vsub l l' -> vsub l' l -> veqw (mk_set l) (mk_set l').
Proof.
  intros H1 H2. pose proof (sub_wf_l _ _ H1) as W1. pose proof (sub_wf_l _ _ H2) as W2.
  split; [|split; apply mk_set_wf; assumption].
  apply mk_set_order_irrelevant; auto. intros x Hx. apply vmem_cong; auto. apply veqw_refl. exact Hx.
Qed.

Lemma set_cong rs rs' : Forall2 res_equiv_wf rs rs' ->
  res_equiv_wf (match seq_res rs with inl e => e | inr vs => Ok (mk_set vs) end)
    (match seq_res rs' with inl e => e | inr vs => Ok (mk_set vs) end).
Proof.
  intros H. pose proof (seq_res_R _ _ H) as S.
  destruct (seq_res rs) as [e|vs] eqn:E1, (seq_res rs') as [e'|vs'] eqn:E2; try contradiction.
  - subst e'. apply seq_res_inl in E1. destruct E1 as [k ->]. reflexivity.
  - cbn [res_equiv_wf]. apply Forall2_veqw_sub in S. destruct S. apply mk_set_sub; auto.
Qed.

(* ---- record construction ---- *)
Definition kres_equiv_wf (p q : str * res) : Prop := fst p = fst q /\ res_equiv_wf (snd p) (snd q).

Lemma seq_rec_R rs rs' : Forall2 kres_equiv_wf rs rs' ->
  match seq_rec rs, seq_rec rs' with
  | inr fs, inr fs' => rec_eqb fs fs' = true /\ Forall (fun kv => wf_value (snd kv) = true) fs /\ Forall (fun kv => wf_value (snd kv) = true) fs'
                       /\ map fst fs = map fst rs /\ map fst fs' = map fst rs
  | inl e, inl e' => e = e'
  | _, _ => False
  end.
Proof.
  induction 1 as [|[k r] [k' r'] rs rs' [Hk Hr] _ IH]; cbn [seq_rec]; [repeat split; constructor|].
  cbn [fst snd] in Hk, Hr. subst k'.
  destruct r as [x|e], r' as [x'|e']; cbn [res_equiv_wf] in Hr; try contradiction.
  - destruct (seq_rec rs), (seq_rec rs'); try contradiction; auto.
    destruct IH as (I1 & I2 & I3 & I4 & I5). destruct Hr as (Hv & Hw & Hw').
    cbn [rec_eqb map fst]. rewrite str_eqb_refl, Hv, I1, I4, I5. repeat split; constructor; auto.
  - subst. reflexivity.
Qed.

Lemma record_cong rs rs' : keys_sorted rs = true -> Forall2 kres_equiv_wf rs rs' ->
  res_equiv_wf (match seq_rec rs with inl e => e | inr fs => Ok (VRecord fs) end)
    (match seq_rec rs' with inl e => e | inr fs => Ok (VRecord fs) end).
Proof.
  intros Hs H. pose proof (seq_rec_R _ _ H) as S.
  destruct (seq_rec rs) as [e|fs] eqn:E1, (seq_rec rs') as [e'|fs'] eqn:E2; try contradiction.
  - subst e'. apply seq_rec_inl in E1. destruct E1 as [k ->]. reflexivity.
  - destruct S as (S1 & S2 & S3 & S4 & S5). cbn [res_equiv_wf]. split; [rewrite veq_record; exact S1|].
    rewrite !wf_value_record, (keys_sorted_ext fs rs S4), (keys_sorted_ext fs' rs S5), Hs. cbn [andb].
    split; apply forallb_forall; apply Forall_forall; assumption.
Qed.

(* ---- extension calls: no extension function looks inside a set or a record ---- *)
Definition blur (r : res) : res :=
  match r with Ok (VSet _) => Ok (VSet []) | Ok (VRecord _) => Ok (VRecord []) | _ => r end.

Lemma R_blur r r' : res_equiv_wf r r' -> blur r = blur r'.
Proof. intros H. rc H; reflexivity. Qed.

Lemma nth_res_blur rs n : nth_res (map blur rs) n = blur (nth_res rs n).
Proof. unfold nth_res. change (Err EArity) with (blur (Err EArity)) at 1. apply map_nth. Qed.

Lemma call_ext_blur name rs : call_ext name (map blur rs) = call_ext name rs.
Proof.
  unfold call_ext. rewrite map_length, !nth_res_blur.
  destruct (ext_lookup name) as [[ar fl]|]; [|reflexivity].
  destruct (negb (Z.of_nat (List.length rs) =? ar)); [reflexivity|].
  generalize (nth_res rs 0) (nth_res rs 1). intros a0 a1.
  destruct a0 as [[]|]; destruct a1 as [[]|]; reflexivity.
Qed.

Lemma call_cong name rs rs' : Forall2 res_equiv_wf rs rs' -> call_ext name rs = call_ext name rs'.
Proof.
  intros H. rewrite <- (call_ext_blur name rs), <- (call_ext_blur name rs'). f_equal.
  induction H as [|r r' rs rs' Hr _ IH]; cbn [map]; [reflexivity|]. rewrite IH, (R_blur _ _ Hr). reflexivity.
Qed.

(* ------------------------------------------------------------------------------------------ *)
(* Small list facts                                                                             *)
(* ------------------------------------------------------------------------------------------ *)

Lemma R_trans a b c : res_equiv_wf a b -> res_equiv_wf b c -> res_equiv_wf a c.
Proof.
  destruct a, b, c; cbn [res_equiv_wf]; try contradiction; try congruence. apply veqw_trans.
Qed.

Lemma map_nth_seq {A} (l : list A) d : map (fun i => nth i l d) (seq 0 (List.length l)) = l.
Proof.
  induction l as [|x l IH]; [reflexivity|]. cbn [List.length seq map nth]. f_equal.
  rewrite <- seq_shift, map_map. exact IH.
Qed.

Lemma Forall2_nth {A B} (P : A -> B -> Prop) l1 l2 d1 d2 : Forall2 P l1 l2 -> P d1 d2 ->
  forall i, P (nth i l1 d1) (nth i l2 d2).
Proof.
  intros H Hd. induction H as [|x y l1 l2 Hxy _ IH]; intros [|i]; cbn [nth]; auto.
Qed.

Lemma perm_sub l l' : Permutation l l' -> (forall x, In x l' -> wf_value x = true) -> vsub l l' /\ vsub l' l.
Proof.
  intros Hp Hw. split; intros x Hx; exists x.
  - assert (Hx' : In x l') by (eapply Permutation_in; eauto). split; [exact Hx' | apply veqw_refl; auto].
  - split; [eapply Permutation_in; [apply Permutation_sym; exact Hp | exact Hx] | apply veqw_refl; auto].
Qed.

Lemma seq_res_ok vs : seq_res (map Ok vs) = inr vs.
Proof. induction vs as [|v vs IH]; cbn [map seq_res]; [reflexivity|]. rewrite IH. reflexivity. Qed.

Lemma seq_rec_ok kvs : seq_rec (mapv Ok kvs) = inr kvs.
Proof. induction kvs as [|[k v] kvs IH]; [reflexivity|]. rewrite mapv_cons. cbn [seq_rec fst snd]. rewrite IH. reflexivity. Qed.

Lemma mapv_kR (g h : expr -> res) l : Forall (fun kv => res_equiv_wf (g (snd kv)) (h (snd kv))) l -> Forall2 kres_equiv_wf (mapv g l) (mapv h l).
Proof. induction 1 as [|kv l Hkv _ IH]; [constructor|]. rewrite !mapv_cons. constructor; [split; [reflexivity | exact Hkv] | exact IH]. Qed.

Lemma mapv_kR_val (g h : value -> res) l : Forall (fun kv => res_equiv_wf (g (snd kv)) (h (snd kv))) l -> Forall2 kres_equiv_wf (mapv g l) (mapv h l).
Proof. induction 1 as [|kv l Hkv _ IH]; [constructor|]. rewrite !mapv_cons. constructor; [split; [reflexivity | exact Hkv] | exact IH]. Qed.

Lemma keys_sorted_mapv {A B} (g : A -> B) l : keys_sorted (mapv g l) = keys_sorted l.
Proof. apply keys_sorted_ext. apply mapv_keys. Qed.

Lemma bool_eval_cong r r' : res_equiv r r' ->
  bindr r (fun v => as_bool v (fun _ => Ok v)) = bindr r' (fun v => as_bool v (fun _ => Ok v)).
Proof. intros H. rq H; reflexivity. Qed.

(* ------------------------------------------------------------------------------------------ *)
(* The theorem                                                                                  *)
(* ------------------------------------------------------------------------------------------ *)

Section NormMeaning.
  Variable set_order : list value -> list nat.                 (* member order of a rendered set *)
  Hypothesis set_order_perm : forall l, Permutation (set_order l) (seq 0 (List.length l)).
  Variable print_ip : bool -> Z -> Z -> str.                   (* net/netip's printer *)
  Variable ip_ok : bool -> Z -> Z -> bool.                     (* the ip values whose printed form parses back *)
  Hypothesis ip_roundtrip : forall v6 a p, ip_ok v6 a p = true -> parse_ip (print_ip v6 a p) = Some (v6, a, p).

  Notation norm_value := (norm_value set_order print_ip).
  Notation norm := (norm set_order print_ip).
  Notation norm_policy := (norm_policy set_order print_ip).

  (* the extension-typed leaves of a literal value print to a text that parses back to them
     (datetime: F27, the lowest day of int64 is excluded, as in DatetimeProofs.datetime_roundtrip) *)
  Fixpoint ext_ok (v : value) : bool :=
    match v with
    | VSet l => (fix go (l : list value) : bool := match l with [] => true | x :: r => ext_ok x && go r end) l
    | VRecord kvs => (fix go (l : list (str * value)) : bool := match l with [] => true | (_, x) :: r => ext_ok x && go r end) kvs
    | VDecimal z => in64b z
    | VDatetime z => in_dt_range z
    | VDuration z => in64b z
    | VIP v6 a p => ip_ok v6 a p
    | _ => true
    end.

  Definition value_lit_ok (v : value) : bool := wf_value v && ext_ok v.

  Fixpoint lit_ok (e : expr) : bool :=
    let fix all (l : list expr) : bool := match l with [] => true | x :: r => lit_ok x && all r end in
    let fix allkv (l : list (str * expr)) : bool := match l with [] => true | (_, x) :: r => lit_ok x && allkv r end in
    match e with
    | ELit v => value_lit_ok v
    | EVar _ | EPartialError _ => true
    | ENot a | ENeg a | EIsEmpty a | EAccess a _ | EHas a _ | EIs a _ | ELike a _ => lit_ok a
    | EAnd a b | EOr a b | EAdd a b | ESub a b | EMul a b | EEq a b | ENe a b | ELt a b | ELe a b | EGt a b | EGe a b
    | EIn a b | EContains a b | EContainsAll a b | EContainsAny a b | EGetTag a b | EHasTag a b | EIsIn a _ b => lit_ok a && lit_ok b
    | EIf c t f => lit_ok c && lit_ok t && lit_ok f
    | ESet es => all es
    | ERecord kvs => allkv kvs
    | ECall _ args => all args
    end.

  Definition policy_lit_ok (p : policy) : bool := forallb (fun c : bool * expr => lit_ok (snd c)) (p_conds p).

  (* request values and the attribute / tag values of the store are well formed *)
  Definition norm_env_wf (en : env) : Prop :=
    (forall x, wf_value (var_value en x) = true) /\ store_Q (fun v => wf_value v = true) en.

  Lemma ext_ok_set l : ext_ok (VSet l) = forallb ext_ok l.
  Proof. cbn [ext_ok]. induction l as [|x l IH]; [reflexivity|]. cbn [forallb]. rewrite <- IH. reflexivity. Qed.
  Lemma ext_ok_record l : ext_ok (VRecord l) = forallb (fun kv => ext_ok (snd kv)) l.
  Proof. cbn [ext_ok]. induction l as [|[k x] l IH]; [reflexivity|]. cbn [forallb snd]. rewrite <- IH. reflexivity. Qed.

  Lemma lit_all_forallb es :
    (fix all (l : list expr) : bool := match l with [] => true | x :: r => lit_ok x && all r end) es = forallb lit_ok es.
  Proof. induction es as [|x es IH]; [reflexivity|]. cbn [forallb]. rewrite <- IH. reflexivity. Qed.
  Lemma lit_ok_set es : lit_ok (ESet es) = forallb lit_ok es.
  Proof. cbn [lit_ok]. apply lit_all_forallb. Qed.
  Lemma lit_ok_call n es : lit_ok (ECall n es) = forallb lit_ok es.
  Proof. cbn [lit_ok]. apply lit_all_forallb. Qed.
  Lemma lit_ok_record kvs : lit_ok (ERecord kvs) = forallb (fun kv => lit_ok (snd kv)) kvs.
  Proof. cbn [lit_ok]. induction kvs as [|[key x] kvs IH]; [reflexivity|]. cbn [forallb snd]. rewrite <- IH. reflexivity. Qed.

  Lemma norm_value_set l :
    norm_value (VSet l) = ESet (map (fun i => nth i (map norm_value l) (ELit (VBool false))) (set_order l)).
  Proof. cbn [RoundTrip.norm_value]. rewrite pj_fix_map. reflexivity. Qed.
  Lemma norm_value_record l : norm_value (VRecord l) = ERecord (mapv norm_value l).
  Proof. cbn [RoundTrip.norm_value]. rewrite pj_fix_mapv. reflexivity. Qed.
  Lemma norm_set es : norm (ESet es) = ESet (map norm es).
  Proof. cbn [RoundTrip.norm]. rewrite pj_fix_map. reflexivity. Qed.
  Lemma norm_call n es : norm (ECall n es) = ECall n (map norm es).
  Proof. cbn [RoundTrip.norm]. rewrite pj_fix_map. reflexivity. Qed.
  Lemma norm_record kvs : norm (ERecord kvs) = ERecord (mapv norm kvs).
  Proof. cbn [RoundTrip.norm]. rewrite pj_fix_mapv. reflexivity. Qed.

  Lemma eval_record en kvs :
    eval en (ERecord kvs) = match seq_rec (mapv (eval en) (rec_of_list kvs)) with inl e => e | inr fs => Ok (VRecord fs) end.
  Proof. cbn [eval]. change (map (fun kv : str * expr => (fst kv, eval en (snd kv))) kvs) with (mapv (eval en) kvs).
         rewrite rec_of_list_mapv. reflexivity. Qed.

  Section Env.
    Variable en : env.

    (* ---- a literal value and its constructor expression ---- *)
    Lemma call1 fn s : eval en (ext1 fn s) = call_ext (s_of fn) [Ok (VString s)].
    Proof. reflexivity. Qed.

    Lemma norm_value_meaning : forall v, wf_value v = true -> ext_ok v = true -> res_equiv_wf (eval en (norm_value v)) (Ok v).
    Proof.
      apply (value_ind' (fun v => wf_value v = true -> ext_ok v = true -> res_equiv_wf (eval en (norm_value v)) (Ok v)));
        try (intros; cbn [RoundTrip.norm_value eval res_equiv_wf]; apply veqw_refl; reflexivity).
      - (* sets *)
        intros l IH Hwf Hok. rewrite norm_value_set. cbn [eval]. rewrite ext_ok_set in Hok.
        destruct (wf_set_inv _ Hwf) as [_ Hwl].
        assert (HR : Forall2 res_equiv_wf (map (fun x => eval en (norm_value x)) l) (map Ok l)).
        { clear Hwf. induction l as [|x l IHl]; cbn [map]; constructor.
          - inversion IH; subst. cbn [forallb] in Hok. apply andb_true_iff in Hok. destruct Hok. auto using in_eq.
          - inversion IH; subst. cbn [forallb] in Hok. apply andb_true_iff in Hok. destruct Hok. apply IHl; auto using in_cons. }
        set (zs := map (fun i => nth i l (VBool false)) (set_order l)).
        apply (R_trans _ (Ok (mk_set zs))).
        + replace (Ok (mk_set zs)) with (match seq_res (map Ok zs) with inl e => e | inr vs => Ok (mk_set vs) end)
            by (rewrite seq_res_ok; reflexivity).
          apply (set_cong _ (map Ok zs)). unfold zs. clear zs. rewrite !map_map.
          induction (set_order l) as [|i o IHo]; cbn [map]; constructor; [|exact IHo].
          assert (E1 : eval en (nth i (map norm_value l) (ELit (VBool false))) =
                       nth i (map (fun x => eval en (norm_value x)) l) (Ok (VBool false))).
          { rewrite <- (map_map norm_value (eval en)). symmetry. exact (map_nth (eval en) (map norm_value l) (ELit (VBool false)) i). }
          assert (E2 : Ok (nth i l (VBool false)) = nth i (map Ok l) (Ok (VBool false))) by (symmetry; exact (map_nth Ok l (VBool false) i)).
          rewrite E1, E2. apply Forall2_nth; [exact HR|]. cbn. apply veqw_refl. reflexivity.
        + cbn [res_equiv_wf]. rewrite <- (mk_set_wf_id l Hwf).
          assert (Hp : Permutation zs l).
          { unfold zs. apply (Permutation_trans (l' := map (fun i => nth i l (VBool false)) (seq 0 (List.length l)))).
            - apply Permutation_map. apply set_order_perm.
            - rewrite map_nth_seq. apply Permutation_refl. }
          destruct (perm_sub _ _ Hp Hwl). apply mk_set_sub; auto.
      - (* records *)
        intros l IH Hwf Hok. rewrite norm_value_record, eval_record. rewrite ext_ok_record in Hok.
        destruct (wf_rec_inv _ Hwf) as [Hks Hwl].
        rewrite (vj_rec_of_list_sorted_id _ (eq_trans (keys_sorted_mapv _ _) Hks)), mapv_mapv.
        replace (Ok (VRecord l)) with (match seq_rec (mapv Ok l) with inl e => e | inr fs => Ok (VRecord fs) end)
          by (rewrite seq_rec_ok; reflexivity).
        apply record_cong; [rewrite keys_sorted_mapv; exact Hks|]. apply mapv_kR_val.
        rewrite forallb_forall in Hok. rewrite Forall_forall in *. intros kv Hkv. apply IH; auto.
      - (* decimal *)
        intros z _ Hok. cbn [ext_ok] in Hok. apply in64b_spec in Hok. cbn [RoundTrip.norm_value]. rewrite call1.
        change (call_ext (s_of "decimal") [Ok (VString (print_decimal z))]) with (opt_res (parse_decimal (print_decimal z)) VDecimal).
        rewrite (decimal_roundtrip z Hok). cbn. apply veqw_refl. reflexivity.
      - (* datetime *)
        intros z _ Hok. cbn [ext_ok] in Hok. cbn [RoundTrip.norm_value]. rewrite call1.
        change (call_ext (s_of "datetime") [Ok (VString (print_datetime z))]) with (opt_res (parse_datetime (print_datetime z)) VDatetime).
        rewrite (datetime_roundtrip z Hok). cbn. apply veqw_refl. reflexivity.
      - (* duration *)
        intros z _ Hok. cbn [ext_ok] in Hok. apply in64b_spec in Hok. cbn [RoundTrip.norm_value]. rewrite call1.
        change (call_ext (s_of "duration") [Ok (VString (print_duration z))]) with (opt_res (parse_duration (print_duration z)) VDuration).
        rewrite (duration_roundtrip z Hok). cbn. apply veqw_refl. reflexivity.
      - (* ip *)
        intros v6 a p _ Hok. cbn [ext_ok] in Hok. cbn [RoundTrip.norm_value]. rewrite call1.
        change (call_ext (s_of "ip") [Ok (VString (print_ip v6 a p))])
          with (opt_res (parse_ip (print_ip v6 a p)) (fun x => VIP (fst (fst x)) (snd (fst x)) (snd x))).
        rewrite (ip_roundtrip _ _ _ Hok). cbn. apply veqw_refl. reflexivity.
    Qed.

    (* ---- every value met during evaluation is well formed ---- *)
    Hypothesis Hen : norm_env_wf en.

    Notation Qw := (fun v : value => wf_value v = true).

    Lemma norm_value_nodes : forall v, expr_forall (node_Q Qw en) (norm_value v).
    Proof.
      apply (value_ind' (fun v => expr_forall (node_Q Qw en) (norm_value v)));
        try (intros; cbn; tauto).
      - intros l IH. rewrite norm_value_set. apply expr_forall_set. split; [exact I|].
        apply Forall_forall. intros e He. apply in_map_iff in He. destruct He as (i & <- & _).
        assert (Hd : expr_forall (node_Q Qw en) (ELit (VBool false))) by (cbn; tauto).
        revert i. induction IH as [|x l Hx _ IHl]; intros [|i]; cbn [map nth]; auto.
      - intros l IH. rewrite norm_value_record. apply expr_forall_record. split; [exact I|].
        induction IH as [|[k x] l Hx _ IHl]; [constructor|]. rewrite mapv_cons. constructor; [exact Hx | exact IHl].
    Qed.

    Lemma lit_ok_nodes : forall e, lit_ok e = true -> expr_forall (node_Q Qw en) e /\ expr_forall (node_Q Qw en) (norm e).
    Proof.
      destruct Hen as [Hvar _].
      apply (expr_ind' (fun e => lit_ok e = true -> expr_forall (node_Q Qw en) e /\ expr_forall (node_Q Qw en) (norm e)));
        try (intros a b IHa IHb Hok; cbn [lit_ok] in Hok; apply andb_true_iff in Hok; destruct Hok as [Ha Hb];
             destruct (IHa Ha), (IHb Hb); cbn [RoundTrip.norm expr_forall node_Q]; tauto);
        try (intros a IHa Hok; cbn [lit_ok] in Hok; destruct (IHa Hok); cbn [RoundTrip.norm expr_forall node_Q]; tauto);
        try (intros a k IHa Hok; cbn [lit_ok] in Hok; destruct (IHa Hok); cbn [RoundTrip.norm expr_forall node_Q]; tauto).
      - intros v Hok. cbn [lit_ok] in Hok. apply andb_true_iff in Hok. destruct Hok as [Hw _].
        split; [cbn; tauto | apply norm_value_nodes].
      - intros x _. cbn [RoundTrip.norm expr_forall node_Q]. auto.
      - intros a ty b IHa IHb Hok; cbn [lit_ok] in Hok; apply andb_true_iff in Hok; destruct Hok as [Ha Hb];
             destruct (IHa Ha), (IHb Hb); cbn [RoundTrip.norm expr_forall node_Q]; tauto.
      - intros c t f IHc IHt IHf Hok. cbn [lit_ok] in Hok. rewrite !andb_true_iff in Hok. destruct Hok as [[Hc Ht] Hf].
        destruct (IHc Hc), (IHt Ht), (IHf Hf). cbn [RoundTrip.norm expr_forall node_Q]. tauto.
      - intros es IH Hok. rewrite lit_ok_set in Hok. rewrite norm_set, !expr_forall_set. rewrite forallb_forall in Hok.
        rewrite Forall_forall in IH. repeat split; apply Forall_forall.
        + intros x Hx. apply IH; auto.
        + intros x Hx. apply in_map_iff in Hx. destruct Hx as (y & <- & Hy). apply IH; auto.
      - intros kvs IH Hok. rewrite lit_ok_record in Hok. rewrite norm_record, !expr_forall_record. rewrite forallb_forall in Hok.
        rewrite Forall_forall in IH. repeat split; apply Forall_forall.
        + intros x Hx. apply IH; auto.
        + intros x Hx. apply in_map_iff in Hx. destruct Hx as (y & <- & Hy). cbn [snd]. apply IH; auto.
      - intros n es IH Hok. rewrite lit_ok_call in Hok. rewrite norm_call, !expr_forall_call. rewrite forallb_forall in Hok.
        rewrite Forall_forall in IH. repeat split; apply Forall_forall.
        + intros x Hx. apply IH; auto.
        + intros x Hx. apply in_map_iff in Hx. destruct Hx as (y & <- & Hy). apply IH; auto.
      - intros k _. cbn. tauto.
    Qed.

    Lemma upgrade e : lit_ok e = true -> res_equiv (eval en (norm e)) (eval en e) -> res_equiv_wf (eval en (norm e)) (eval en e).
    Proof.
      intros Hok H. destruct (lit_ok_nodes e Hok) as [N1 N2]. destruct Hen as [_ Hst].
      pose proof (eval_Q Qw hered_wf en Hst e N1) as W1. pose proof (eval_Q Qw hered_wf en Hst (norm e) N2) as W2.
      destruct (eval en (norm e)) as [x|k], (eval en e) as [y|k']; cbn [res_equiv res_equiv_wf] in *; auto.
      split; [exact H|]. split; [apply W2 | apply W1]; reflexivity.
    Qed.

    (* ---- the normal form evaluates to the same value up to veq, or to the same error ---- *)
    Lemma eval_norm_env : forall e, lit_ok e = true -> res_equiv (eval en (norm e)) (eval en e).
    Proof.
      apply (expr_ind' (fun e => lit_ok e = true -> res_equiv (eval en (norm e)) (eval en e)));
        try (intros a b IHa IHb Hok; cbn [lit_ok] in Hok; apply andb_true_iff in Hok; destruct Hok as [Ha Hb];
             pose proof (upgrade a Ha (IHa Ha)) as Ra; pose proof (upgrade b Hb (IHb Hb)) as Rb;
             specialize (IHa Ha); specialize (IHb Hb); cbn [RoundTrip.norm eval];
             first [ apply and_cong | apply or_cong | apply arith_cong | apply cmp_cong | apply eq_cong | apply ne_cong
                   | apply in_cong | apply contains_cong | apply contains_all_cong | apply contains_any_cong
                   | apply get_tag_cong | apply has_tag_cong ]; assumption).
      - (* literal *) intros v Hok. cbn [lit_ok] in Hok. apply andb_true_iff in Hok. destruct Hok as [Hw Hx].
        cbn [RoundTrip.norm]. apply R_res_equiv. apply (norm_value_meaning v Hw Hx).
      - intros x _. apply res_equiv_refl.
      - (* ! *) intros a IHa Hok. cbn [lit_ok] in Hok. cbn [RoundTrip.norm eval]. apply un_cong; auto.
      - (* neg *) intros a IHa Hok. cbn [lit_ok] in Hok. cbn [RoundTrip.norm eval]. apply un_cong; auto.
      - (* isEmpty *) intros a IHa Hok. cbn [lit_ok] in Hok. cbn [RoundTrip.norm eval]. apply is_empty_cong. apply upgrade; auto.
      - (* . *) intros a k IHa Hok. cbn [lit_ok] in Hok. cbn [RoundTrip.norm eval]. apply access_cong. apply upgrade; auto.
      - (* has *) intros a k IHa Hok. cbn [lit_ok] in Hok. cbn [RoundTrip.norm eval]. apply has_cong. apply upgrade; auto.
      - (* like *) intros a p IHa Hok. cbn [lit_ok] in Hok. cbn [RoundTrip.norm eval]. apply un_cong; auto.
      - (* is *) intros a ty IHa Hok. cbn [lit_ok] in Hok. cbn [RoundTrip.norm eval]. apply un_cong; auto.
      - (* is in *) intros a ty b IHa IHb Hok. cbn [lit_ok] in Hok. apply andb_true_iff in Hok. destruct Hok as [Ha Hb].
        cbn [RoundTrip.norm eval]. apply isin_cong; [auto | apply upgrade; auto].
      - (* if *) intros c t f IHc IHt IHf Hok. cbn [lit_ok] in Hok. rewrite !andb_true_iff in Hok. destruct Hok as [[Hc Ht] Hf].
        cbn [RoundTrip.norm eval]. apply if_cong; auto.
      - (* set *) intros es IH Hok. rewrite lit_ok_set in Hok. rewrite norm_set. cbn [eval]. apply R_res_equiv. apply set_cong.
        rewrite map_map. rewrite forallb_forall in Hok. rewrite Forall_forall in IH.
        induction es as [|x es IHes]; cbn [map]; constructor.
        + apply upgrade; [|apply IH]; auto using in_eq.
        + apply IHes; intros; auto using in_cons.
      - (* record *) intros kvs IH Hok. rewrite lit_ok_record in Hok. rewrite norm_record, !eval_record.
        rewrite rec_of_list_mapv, mapv_mapv. apply R_res_equiv. apply record_cong.
        + rewrite keys_sorted_mapv. apply rec_of_list_sorted_gen.
        + apply mapv_kR. apply (rec_of_list_Forall (fun x => res_equiv_wf (eval en (norm x)) (eval en x))).
          rewrite forallb_forall in Hok. rewrite Forall_forall in *. intros kv Hkv. apply upgrade; [|apply IH]; auto.
      - (* call *) intros n es IH Hok. rewrite lit_ok_call in Hok. rewrite norm_call. cbn [eval]. apply res_equiv_eq. apply call_cong.
        rewrite map_map. rewrite forallb_forall in Hok. rewrite Forall_forall in IH.
        induction es as [|x es IHes]; cbn [map]; constructor.
        + apply upgrade; [|apply IH]; auto using in_eq.
        + apply IHes; intros; auto using in_cons.
      - intros k _. apply res_equiv_refl.
    Qed.
  End Env.

  Theorem eval_norm : forall en e, norm_env_wf en -> lit_ok e = true -> res_equiv (eval en (norm e)) (eval en e).
  Proof. intros en e Hen Hok. apply eval_norm_env; assumption. Qed.

  (* both sides are moreover well formed, so the relation is the equivalence veqw *)
  Theorem eval_norm_wf : forall en e, norm_env_wf en -> lit_ok e = true -> res_equiv_wf (eval en (norm e)) (eval en e).
  Proof. intros en e Hen Hok. apply upgrade; [assumption | assumption | apply eval_norm_env; assumption]. Qed.

  (* a result a policy can act on (a Boolean or an error) is literally the same *)
  Corollary eval_norm_bool : forall en e, norm_env_wf en -> lit_ok e = true -> bool_eval en (norm e) = bool_eval en e.
  Proof. intros en e Hen Hok. unfold bool_eval. apply bool_eval_cong. apply eval_norm; assumption. Qed.

  (* ---- policies ---- *)
  Definition same_res (en : env) (a b : expr) : Prop := res_equiv (eval en a) (eval en b).

  Lemma and_all_cong en : forall es es' e e', same_res en e e' -> Forall2 (same_res en) es es' ->
    same_res en (and_all e es) (and_all e' es').
  Proof.
    induction es as [|x es IH]; intros es' e e' He H; inversion H as [|? y ? es2 Hxy Hr]; subst; cbn [and_all]; [exact He|].
    unfold same_res. cbn [eval]. apply and_cong; [exact He|]. apply IH; assumption.
  Qed.

  Lemma same_res_refl_list en l : Forall2 (same_res en) l l.
  Proof. induction l as [|x l IH]; constructor; [apply res_equiv_refl | exact IH]. Qed.

  Lemma policy_nodes_norm en p : norm_env_wf en -> policy_lit_ok p = true ->
    Forall2 (same_res en) (policy_nodes (norm_policy p)) (policy_nodes p).
  Proof.
    intros Hen Hok. unfold policy_nodes, RoundTrip.norm_policy. cbn [p_principal p_action p_resource p_conds].
    apply Forall2_app; [apply same_res_refl_list|].
    unfold policy_lit_ok in Hok. induction (p_conds p) as [|[w c] cs IH]; cbn [map]; [constructor|].
    cbn [forallb snd] in Hok. apply andb_true_iff in Hok. destruct Hok as [Hc Hcs]. constructor; [|apply IH; exact Hcs].
    cbn [fst snd]. unfold same_res. destruct w; [apply eval_norm; assumption|].
    cbn [eval]. apply un_cong; try reflexivity. apply eval_norm; assumption.
  Qed.

  Theorem policy_norm_same_outcome : forall en p, norm_env_wf en -> policy_lit_ok p = true ->
    bool_eval en (policy_to_expr (norm_policy p)) = bool_eval en (policy_to_expr p).
  Proof.
    intros en p Hen Hok. unfold bool_eval. apply bool_eval_cong. unfold policy_to_expr.
    destruct (policy_nodes_norm en p Hen Hok) as [|a b l l' Hab Hl]; [apply res_equiv_refl|].
    apply and_all_cong; assumption.
  Qed.

  (* the policy is satisfied by the same requests *)
  Corollary policy_norm_same_sat : forall en p, norm_env_wf en -> policy_lit_ok p = true ->
    sat en (norm_policy p) = sat en p.
  Proof. intros en p Hen Hok. unfold sat. rewrite policy_norm_same_outcome; auto. Qed.
End NormMeaning.

(* ------------------------------------------------------------------------------------------ *)
(* The hypotheses are needed (computed on the model)                                            *)
(* ------------------------------------------------------------------------------------------ *)

Definition nm_id_order (l : list value) : list nat := seq 0 (List.length l).
Definition nm_no_ip : bool -> Z -> Z -> str := fun _ _ _ => [].
Definition nm_env : env :=
  {| e_store := []; e_principal := VEntity [85] [97]; e_action := VEntity [65] [98]; e_resource := VEntity [82] [99]; e_context := VRecord [] |}.

(* a literal set with a duplicate member (not wf_value): the constructor expression removes the duplicate *)
Example nm_ex_dup_set :
  let e := EEq (ELit (VSet [VLong 1; VLong 1])) (ELit (VSet [VLong 1; VLong 2])) in
  eval nm_env e = Ok (VBool true) /\ eval nm_env (norm nm_id_order nm_no_ip e) = Ok (VBool false).
Proof. vm_compute. split; reflexivity. Qed.

(* a literal record whose keys are not sorted (not wf_value): the constructor expression sorts them *)
Example nm_ex_unsorted_record :
  let e := EEq (ELit (VRecord [([98], VLong 1); ([97], VLong 2)])) (ELit (VRecord [([97], VLong 2); ([98], VLong 1)])) in
  eval nm_env e = Ok (VBool false) /\ eval nm_env (norm nm_id_order nm_no_ip e) = Ok (VBool true).
Proof. vm_compute. split; reflexivity. Qed.

(* F27: a datetime literal in the lowest day of int64 prints to a text the parser rejects *)
Example nm_ex_datetime_bottom :
  let e := ELit (VDatetime min64) in
  eval nm_env e = Ok (VDatetime min64) /\ eval nm_env (norm nm_id_order nm_no_ip e) = Err EExt.
Proof. vm_compute. split; reflexivity. Qed.

(* a decimal literal outside int64 *)
Example nm_ex_decimal_range :
  let e := ELit (VDecimal two63) in
  eval nm_env e = Ok (VDecimal two63) /\ eval nm_env (norm nm_id_order nm_no_ip e) = Err EExt.
Proof. vm_compute. split; reflexivity. Qed.

(* a member order that is not a permutation of the positions loses members *)
Example nm_ex_order_not_perm :
  let e := EContains (ELit (VSet [VLong 1; VLong 2])) (ELit (VLong 2)) in
  eval nm_env e = Ok (VBool true) /\ eval nm_env (norm (fun l => map (fun _ => 0%nat) l) nm_no_ip e) = Ok (VBool false).
Proof. vm_compute. split; reflexivity. Qed.

(* with a permuting order the value differs as a list and is equal as a set: the statement is up to veq *)
Example nm_ex_order_rev :
  eval nm_env (norm (fun l => rev (seq 0 (List.length l))) nm_no_ip (ELit (VSet [VLong 1; VLong 2]))) = Ok (VSet [VLong 2; VLong 1]).
Proof. vm_compute. reflexivity. Qed.

Print Assumptions eval_norm.
Print Assumptions eval_norm_wf.
Print Assumptions eval_norm_bool.
Print Assumptions policy_norm_same_outcome.
Print Assumptions policy_norm_same_sat.
