(* Lemmas for Proofs/TypeSoundProofs.v (strict-mode soundness of the expression type checker, C15).
   Part 1: association lists; well-formed types (WT: record keys pairwise distinct); strict least upper bounds are upper bounds (lub_sub).
   Part 2: capability keys are injective for attribute names shorter than 10^39 bytes (cap_key_inj).
   Part 3: the schema-level descendant search finds every type-level path (is_descendant_ty_complete, reusing the DFS proof of
           SchemaResolveProofs); run-time ancestors have ancestor types (reach_types); `in` on typed operands (do_in_total, do_in_false);
           completeness of the action-graph searches (is_action_ty_desc_complete, areach_complete); store ancestors of a declared action
           (reach_action); `l in w` for operands given by uids (do_in_uids_single / do_in_uids_set);
           the hypotheses agraph_wf / actions_conform / store_types_known (in_hyps).
   Part 4: schema_wf / tenv_wf; attribute lookup (get_attr_typed), `has` (has_attr_typed), tags (get_tag_typed, has_tags_false).
   Part 5: extension calls (call_ext_sound). *)
From Coq Require Import ZArith List Bool String Lia Relations Arith.
Import ListNotations.
From Cedar Require Import Base.Int64 Lang.Value Impl.Like Lang.Expr Impl.Text Impl.InSearch Impl.Eval Impl.TypeCheck Lang.TypeSound
  Impl.Decimal Impl.Duration Impl.Datetime Impl.IPAddr Generated.Tables Generated.Kernels
  Proofs.ValueProofs Proofs.InSearchProofs.
From Cedar Require Impl.SchemaResolve Proofs.SchemaResolveProofs Proofs.DecimalProofs Proofs.ParserRoundTrip.
Local Open Scope Z_scope.

(* ------------------------------------------------------------------ *)
(* Part 1a: association lists                                           *)
(* ------------------------------------------------------------------ *)
Lemma alookup_In {A} k (l : list (str * A)) v : alookup k l = Some v -> In (k, v) l.
Proof.
  induction l as [|[k' v'] l IH]; cbn [alookup]; [discriminate|].
  destruct (str_eqb k' k) eqn:E.
  - intros H. inversion H; subst. apply str_eqb_eq in E. subst. left; reflexivity.
  - intros H. right. apply IH, H.
Qed.

Lemma alookup_keys {A} k (l : list (str * A)) : alookup k l <> None <-> In k (map fst l).
Proof.
  induction l as [|[k' v'] l IH]; cbn [alookup map fst].
  - split; [congruence | intros []].
  - destruct (str_eqb k' k) eqn:E.
    + apply str_eqb_eq in E. subst. split; [intros _; left; reflexivity | discriminate].
    + apply str_eqb_neq in E. rewrite IH. split; [intros H; right; exact H | intros [H|H]; [congruence | exact H]].
Qed.

Lemma alookup_none_keys {A} k (l : list (str * A)) : alookup k l = None <-> ~ In k (map fst l).
Proof. rewrite <- alookup_keys. destruct (alookup k l); split; try congruence. intros H. exfalso. apply H. discriminate. Qed.

Lemma alookup_app {A} k (l1 l2 : list (str * A)) :
  alookup k (l1 ++ l2) = match alookup k l1 with Some v => Some v | None => alookup k l2 end.
Proof.
  induction l1 as [|[k' v'] l1 IH]; cbn [app alookup]; [reflexivity|]. destruct (str_eqb k' k); auto.
Qed.

Lemma rec_get_In {A} k (l : list (str * A)) v : rec_get k l = Some v -> In (k, v) l.
Proof.
  induction l as [|[k' v'] l IH]; cbn [rec_get]; [discriminate|].
  destruct (str_eqb k k') eqn:E.
  - intros H. inversion H; subst. apply str_eqb_eq in E. subst. left; reflexivity.
  - intros H. right. apply IH, H.
Qed.

Lemma rec_get_keys {A} k (l : list (str * A)) : rec_get k l <> None <-> In k (map fst l).
Proof.
  induction l as [|[k' v'] l IH]; cbn [rec_get map fst].
  - split; [congruence | intros []].
  - destruct (str_eqb k k') eqn:E.
    + apply str_eqb_eq in E. subst. split; [intros _; left; reflexivity | discriminate].
    + apply str_eqb_neq in E. rewrite IH. split; [intros H; right; exact H | intros [H|H]; [congruence | exact H]].
Qed.

Lemma smem_In x l : smem x l = true <-> In x l.
Proof.
  unfold smem. rewrite existsb_exists. split.
  - intros (y & Hy & E). apply str_eqb_eq in E. subst. exact Hy.
  - intros H. exists x. split; [exact H | apply str_eqb_refl].
Qed.

Lemma str_eqb_sym a b : str_eqb a b = str_eqb b a.
Proof.
  destruct (str_eqb a b) eqn:E.
  - apply str_eqb_eq in E. subst. symmetry. apply str_eqb_refl.
  - destruct (str_eqb b a) eqn:E2; [|reflexivity]. apply str_eqb_eq in E2. subst. rewrite str_eqb_refl in E. discriminate.
Qed.

Lemma existsb_false_all {A} (f : A -> bool) l : existsb f l = false -> forall x, In x l -> f x = false.
Proof.
  induction l as [|a l IH]; intros H x Hx; [destruct Hx|]. cbn [existsb] in H. apply orb_false_iff in H.
  destruct H as [H1 H2]. destruct Hx as [<-|Hx]; [exact H1 | apply IH; assumption].
Qed.

(* ------------------------------------------------------------------ *)
(* Part 1b: well-formed types                                           *)
(* ------------------------------------------------------------------ *)
Section TyAll.
  Variable PE : list str -> Prop.     (* on the name list of every entity type *)
  Variable PK : list str -> Prop.     (* on the key list of every record type *)
  Fixpoint ty_all (t : cty) : Prop :=
    match t with
    | CSet e => ty_all e
    | CRec l => PK (map fst l) /\
                (fix go (l : list (str * (cty * bool))) : Prop :=
                   match l with [] => True | (_, (x, _)) :: r => ty_all x /\ go r end) l
    | CEnt l => PE l
    | _ => True
    end.

  Lemma ty_all_rec l : ty_all (CRec l) <-> PK (map fst l) /\ Forall (fun kv => ty_all (fst (snd kv))) l.
  Proof.
    cbn [ty_all]. apply and_iff_compat_l.
    induction l as [|[k [x q]] l IH].
    - split; intros _; [constructor | exact I].
    - split.
      + intros [H1 H2]. constructor; [exact H1 | apply IH, H2].
      + intros H. inversion H; subst. split; [assumption | apply IH; assumption].
  Qed.

  Lemma ty_all_lookup l k t q : ty_all (CRec l) -> alookup k l = Some (t, q) -> ty_all t.
  Proof.
    intros H E. apply ty_all_rec in H. destruct H as [_ H]. apply alookup_In in E.
    rewrite Forall_forall in H. apply (H _ E).
  Qed.
End TyAll.

(* record keys pairwise distinct, at every depth: what the symmetric half of lub-subsumption needs *)
Definition WT : cty -> Prop := ty_all (fun _ => True) (fun ks => NoDup ks).

Lemma WT_rec l : WT (CRec l) <-> NoDup (map fst l) /\ Forall (fun kv => WT (fst (snd kv))) l.
Proof. apply ty_all_rec. Qed.

(* ------------------------------------------------------------------ *)
(* Part 1c: union of entity lubs                                        *)
(* ------------------------------------------------------------------ *)
Lemma sinsert_In x y l : In x (sinsert y l) <-> x = y \/ In x l.
Proof.
  induction l as [|z l IH]; cbn [sinsert].
  - cbn. intuition.
  - destruct (str_eqb y z) eqn:E.
    + apply str_eqb_eq in E. subst. cbn. intuition.
    + destruct (str_ltb y z).
      * cbn. intuition.
      * cbn [In]. rewrite IH. intuition.
Qed.

Lemma union_lub_In x a b : In x (union_lub a b) <-> In x a \/ In x b.
Proof.
  unfold union_lub. revert a. induction b as [|y b IH]; intros a; cbn [fold_left].
  - cbn. intuition.
  - rewrite IH, sinsert_In. cbn [In]. intuition.
Qed.

(* ------------------------------------------------------------------ *)
(* Part 1d: strict least upper bounds are upper bounds                  *)
(* ------------------------------------------------------------------ *)
Definition attrs := list (str * (cty * bool)).

Definition lub_go (f : nat) (rb : attrs) : attrs -> option attrs :=
  fix go (l : attrs) : option attrs :=
    match l with
    | [] => Some []
    | (k, (ta, qa)) :: r =>
        match alookup k rb with
        | Some (tb, qb) =>
            match lub true f ta tb with
            | Some t => option_map (cons (k, (t, qa && qb))) (go r)
            | None => None
            end
        | None => option_map (cons (k, (ta, false))) (go r)
        end
    end.

Definition same_keys_b (ra rb : attrs) : bool :=
  Nat.eqb (List.length ra) (List.length rb) &&
  forallb (fun kv : str * (cty * bool) => match alookup (fst kv) rb with Some _ => true | None => false end) ra.

Lemma lub_S_rec f ra rb :
  lub true (S f) (CRec ra) (CRec rb) =
  if negb (same_keys_b ra rb) then None else
  match lub_go f rb ra with
  | None => None
  | Some common =>
      Some (CRec (common ++ map (fun kv : str * (cty * bool) => (fst kv, (fst (snd kv), false)))
                                (filter (fun kv : str * (cty * bool) => match alookup (fst kv) ra with Some _ => false | None => true end) rb)))
  end.
Proof. reflexivity. Qed.

Lemma same_keys_spec ra rb : same_keys_b ra rb = true -> NoDup (map fst ra) ->
  (forall k, In k (map fst ra) <-> In k (map fst rb)).
Proof.
  unfold same_keys_b. intros H Hnd. apply andb_true_iff in H. destruct H as [Hlen Hall].
  apply Nat.eqb_eq in Hlen. rewrite forallb_forall in Hall.
  assert (I1 : incl (map fst ra) (map fst rb)).
  { intros k Hk. apply in_map_iff in Hk. destruct Hk as (kv & <- & Hkv). specialize (Hall kv Hkv). cbv beta in Hall.
    apply alookup_keys. destruct (alookup (fst kv) rb); [discriminate | discriminate]. }
  assert (I2 : incl (map fst rb) (map fst ra)).
  { apply NoDup_length_incl; [exact Hnd | rewrite !map_length; lia | exact I1]. }
  intros k. split; [apply I1 | apply I2].
Qed.

Definition sub (a c : cty) : Prop := forall v, vtyped v a -> vtyped v c.

Lemma lub_go_spec f rb
  (IH : forall a b c, lub true f a b = Some c -> WT a -> WT b -> WT c /\ sub a c /\ sub b c) :
  forall ra common, lub_go f rb ra = Some common ->
    Forall (fun kv => WT (fst (snd kv))) ra -> Forall (fun kv => WT (fst (snd kv))) rb ->
    (forall k, In k (map fst ra) -> alookup k rb <> None) ->
    map fst common = map fst ra /\ Forall (fun kv => WT (fst (snd kv))) common /\
    (forall k, match alookup k ra with
               | Some (ta, qa) => exists tb qb t, alookup k rb = Some (tb, qb) /\ alookup k common = Some (t, qa && qb) /\ sub ta t /\ sub tb t
               | None => alookup k common = None
               end).
Proof.
  induction ra as [|[k0 [ta0 qa0]] r IHr]; intros common Hgo Hwa Hwb Hin.
  - cbn in Hgo. inversion Hgo; subst. split; [reflexivity|]. split; [constructor|]. intros k. reflexivity.
  - cbn [lub_go] in Hgo. fold (lub_go f rb) in Hgo.
    destruct (alookup k0 rb) as [[tb0 qb0]|] eqn:Eb; [|exfalso; apply (Hin k0); [left; reflexivity | exact Eb]].
    destruct (lub true f ta0 tb0) as [t0|] eqn:El; [|discriminate].
    destruct (lub_go f rb r) as [common'|] eqn:Eg; [|discriminate].
    cbn [option_map] in Hgo. inversion Hgo; subst common. clear Hgo.
    inversion Hwa as [|x y Hw0 Hwr]; subst. cbn [fst snd] in Hw0.
    assert (Hwtb : WT tb0).
    { apply alookup_In in Eb. rewrite Forall_forall in Hwb. apply (Hwb _ Eb). }
    destruct (IH _ _ _ El Hw0 Hwtb) as (Hwt0 & Hsa & Hsb).
    destruct (IHr common' eq_refl Hwr Hwb) as (Hk & Hwc & Hspec).
    { intros k Hk. apply Hin. right. exact Hk. }
    split; [cbn [map fst]; f_equal; exact Hk|]. split; [constructor; [exact Hwt0 | exact Hwc]|].
    intros k. cbn [alookup]. destruct (str_eqb k0 k) eqn:E.
    + apply str_eqb_eq in E. subst k. exists tb0, qb0, t0. repeat split; auto.
    + apply Hspec.
Qed.

Lemma alookup_map_false k (l : attrs) t q :
  alookup k (map (fun kv : str * (cty * bool) => (fst kv, (fst (snd kv), false))) l) = Some (t, q) -> q = false.
Proof.
  induction l as [|[k' [t' q']] l IH]; cbn [map alookup fst snd]; [discriminate|].
  destruct (str_eqb k' k); [intros H; inversion H; reflexivity | exact IH].
Qed.

Lemma vtyped_rec_inv kvs attrs_ : vtyped (VRecord kvs) (CRec attrs_) ->
  Forall (fun kv : str * value => exists t q, alookup (fst kv) attrs_ = Some (t, q) /\ vtyped (snd kv) t) kvs /\
  (forall k t, alookup k attrs_ = Some (t, true) -> exists v, rec_get k kvs = Some v).
Proof. intros H. inversion H; subst. split; assumption. Qed.

Lemma vtyped_set_inv l e : vtyped (VSet l) (CSet e) -> Forall (fun v => vtyped v e) l.
Proof. intros H. inversion H; subst. assumption. Qed.

Lemma vtyped_never v : ~ vtyped v CNever.
Proof. intros H. inversion H. Qed.

Lemma vtyped_ent_inv v l : vtyped v (CEnt l) -> exists t i, v = VEntity t i /\ In t l.
Proof. intros H. inversion H; subst. eauto. Qed.
Lemma vtyped_rec_inv' v l : vtyped v (CRec l) -> exists kvs, v = VRecord kvs.
Proof. intros H. inversion H; subst. eauto. Qed.
Lemma vtyped_set_inv' v e : vtyped v (CSet e) -> exists l, v = VSet l /\ Forall (fun x => vtyped x e) l.
Proof. intros H. inversion H; subst. eauto. Qed.
Lemma vtyped_long_inv v : vtyped v CLong -> exists z, v = VLong z.
Proof. intros H. inversion H; subst. eauto. Qed.
Lemma vtyped_string_inv v : vtyped v CString -> exists s, v = VString s.
Proof. intros H. inversion H; subst. eauto. Qed.
Lemma vtyped_bool_inv v t : is_bool_ty t = true -> vtyped v t -> exists b, v = VBool b.
Proof. intros Ht H. destruct t; try discriminate; inversion H; subst; eauto. Qed.
Lemma vtyped_true_inv v : vtyped v CTrue -> v = VBool true.
Proof. intros H. inversion H; subst. reflexivity. Qed.
Lemma vtyped_false_inv v : vtyped v CFalse -> v = VBool false.
Proof. intros H. inversion H; subst. reflexivity. Qed.

Theorem lub_sub : forall f a b c, lub true f a b = Some c -> WT a -> WT b -> WT c /\ sub a c /\ sub b c.
Proof.
  induction f as [|f IH]; intros a b c H Ha Hb; [discriminate|].
  assert (Hnever : forall x, sub CNever x) by (intros x v Hv; exfalso; exact (vtyped_never _ Hv)).
  assert (Hrefl : forall x, sub x x) by (intros x v Hv; exact Hv).
  destruct b as [| | | | | |eb|rb|lb|nb].
  - (* b = CNever *) cbn in H. inversion H; subst. auto.
  - destruct a; cbn in H; inversion H; subst; repeat split; auto; intros v Hv; inversion Hv; subst; constructor.
  - destruct a; cbn in H; inversion H; subst; repeat split; auto; intros v Hv; inversion Hv; subst; constructor.
  - destruct a; cbn in H; inversion H; subst; repeat split; auto; intros v Hv; inversion Hv; subst; constructor.
  - destruct a; cbn in H; inversion H; subst; repeat split; auto.
  - destruct a; cbn in H; inversion H; subst; repeat split; auto.
  - (* CSet *)
    destruct a as [| | | | | |ea|ra|la|na]; cbn [lub] in H; try discriminate.
    + inversion H; subst. auto.
    + destruct (lub true f ea eb) as [e|] eqn:E; [|discriminate]. cbn in H. inversion H; subst.
      destruct (IH _ _ _ E Ha Hb) as (Hw & S1 & S2). split; [exact Hw|].
      split; intros v Hv; inversion Hv; subst; constructor; eapply Forall_impl; try eassumption; cbv beta; auto.
  - (* CRec *)
    destruct a as [| | | | | |ea|ra|la|na]; try (cbn [lub] in H; discriminate).
    + cbn [lub] in H. inversion H; subst. auto.
    + rewrite lub_S_rec in H. destruct (same_keys_b ra rb) eqn:Esk; [|discriminate]. cbn [negb] in H.
      destruct (lub_go f rb ra) as [common|] eqn:Eg; [|discriminate].
      apply WT_rec in Ha. destruct Ha as [Hnda Hwa]. apply WT_rec in Hb. destruct Hb as [Hndb Hwb].
      pose proof (same_keys_spec _ _ Esk Hnda) as Hkeys.
      assert (Hex : filter (fun kv : str * (cty * bool) => match alookup (fst kv) ra with Some _ => false | None => true end) rb = []).
      { assert (G : forall l, incl l rb -> filter (fun kv : str * (cty * bool) => match alookup (fst kv) ra with Some _ => false | None => true end) l = []).
        { induction l as [|kv l IHl]; intros Hi; [reflexivity|]. cbn [filter].
          assert (Hk : In (fst kv) (map fst ra)).
          { apply Hkeys. apply in_map. apply Hi. left; reflexivity. }
          apply alookup_keys in Hk. destruct (alookup (fst kv) ra); [|congruence].
          apply IHl. intros x Hx. apply Hi. right; exact Hx. }
        apply G, incl_refl. }
      rewrite Hex in H. cbn [map] in H. rewrite app_nil_r in H. inversion H; subst c. clear H Hex.
      destruct (lub_go_spec f rb IH ra common Eg Hwa Hwb) as (Hk & Hwc & Hspec).
      { intros k Hk. apply alookup_keys. apply Hkeys. exact Hk. }
      split; [apply WT_rec; split; [rewrite Hk; exact Hnda | exact Hwc]|].
      split; intros v Hv; inversion Hv as [| | | | | |  |kvs at_ HF HR| | | |]; subst; constructor.
      * rewrite Forall_forall in HF |- *. intros kv Hkv. destruct (HF kv Hkv) as (t & q & El & Ht).
        specialize (Hspec (fst kv)). rewrite El in Hspec. destruct Hspec as (tb & qb & t' & _ & Ec & S1 & _).
        exists t', (q && qb)%bool. split; [exact Ec | apply S1, Ht].
      * intros k t Ek. specialize (Hspec k). destruct (alookup k ra) as [[ta qa]|] eqn:Ea.
        -- destruct Hspec as (tb & qb & t' & _ & Ec & _). rewrite Ec in Ek. inversion Ek; subst.
           apply andb_true_iff in H1. destruct H1 as [-> _]. apply (HR _ _ Ea).
        -- congruence.
      * rewrite Forall_forall in HF |- *. intros kv Hkv. destruct (HF kv Hkv) as (t & q & El & Ht).
        assert (Hka : alookup (fst kv) ra <> None).
        { apply alookup_keys, Hkeys, alookup_keys. congruence. }
        specialize (Hspec (fst kv)). destruct (alookup (fst kv) ra) as [[ta qa]|]; [|congruence].
        destruct Hspec as (tb & qb & t' & Eb & Ec & _ & S2). rewrite El in Eb. inversion Eb; subst.
        exists t', (qa && qb)%bool. split; [exact Ec | apply S2, Ht].
      * intros k t Ek. specialize (Hspec k). destruct (alookup k ra) as [[ta qa]|] eqn:Ea.
        -- destruct Hspec as (tb & qb & t' & Eb & Ec & _). rewrite Ec in Ek. inversion Ek; subst.
           apply andb_true_iff in H1. destruct H1 as [_ ->]. apply (HR _ _ Eb).
        -- congruence.
  - (* CEnt *)
    destruct a as [| | | | | |ea|ra|la|na]; cbn [lub] in H; try discriminate; inversion H; subst; auto.
    split; [exact I|]. split; intros v Hv; inversion Hv; subst; constructor; apply union_lub_In; auto.
  - (* CExt *)
    destruct a as [| | | | | |ea|ra|la|na]; cbn [lub] in H; try discriminate; try (inversion H; subst; auto; fail).
    destruct (str_eqb na nb) eqn:E; [|discriminate]. apply str_eqb_eq in E. subst. inversion H; subst. auto.
Qed.

Corollary lub'_sub a b c : lub' true a b = Some c -> WT a -> WT b -> WT c /\ sub a c /\ sub b c.
Proof. unfold lub'. apply lub_sub. Qed.

(* which arguments give a singleton-boolean or empty lub *)
Lemma lub_true_never f a b c : lub true f a b = Some c -> (c = CTrue \/ c = CNever) -> (b = CTrue \/ b = CNever).
Proof.
  destruct f as [|f]; [discriminate|]. intros H Hc.
  destruct b as [| | | | | |eb|rb|lb|nb]; auto.
  - destruct a as [| | | | | |ea|ra|la|na]; cbn in H; inversion H; subst; destruct Hc; discriminate.
  - destruct a as [| | | | | |ea|ra|la|na]; cbn in H; inversion H; subst; destruct Hc; discriminate.
  - destruct a as [| | | | | |ea|ra|la|na]; cbn in H; inversion H; subst; destruct Hc; discriminate.
  - destruct a as [| | | | | |ea|ra|la|na]; cbn in H; inversion H; subst; destruct Hc; discriminate.
  - destruct a as [| | | | | |ea|ra|la|na]; cbn [lub] in H; try discriminate; [inversion H; subst; destruct Hc; discriminate|].
    destruct (lub true f ea eb); cbn in H; inversion H; subst; destruct Hc; discriminate.
  - destruct a as [| | | | | |ea|ra|la|na]; try (cbn [lub] in H; discriminate); [cbn [lub] in H; inversion H; subst; destruct Hc; discriminate|].
    rewrite lub_S_rec in H. destruct (negb (same_keys_b ra rb)); [discriminate|].
    destruct (lub_go f rb ra); inversion H; subst; destruct Hc; discriminate.
  - destruct a as [| | | | | |ea|ra|la|na]; cbn [lub] in H; try discriminate; inversion H; subst; destruct Hc; discriminate.
  - destruct a as [| | | | | |ea|ra|la|na]; cbn [lub] in H; try discriminate; try (inversion H; subst; destruct Hc; discriminate).
    destruct (str_eqb na nb); inversion H; subst; destruct Hc; discriminate.
Qed.

(* ------------------------------------------------------------------ *)
(* Part 2: capability keys are injective (for attribute names shorter   *)
(* than 10^39 bytes on one side: Text.print_nat prints at most 40 digits) *)
(* ------------------------------------------------------------------ *)
Lemma digits_of_full : forall f z acc, (1 <= f)%nat -> 10 ^ (Z.of_nat f - 1) <= z ->
  List.length (digits_of f z acc) = (f + List.length acc)%nat.
Proof.
  induction f as [|f IH]; intros z acc Hf Hz; [lia|].
  cbn [digits_of]. destruct f as [|f'].
  - destruct (z <? 10); cbn [digits_of List.length]; lia.
  - assert (Hp : 10 ^ (Z.of_nat (S (S f')) - 1) = 10 * 10 ^ (Z.of_nat (S f') - 1)).
    { replace (Z.of_nat (S (S f')) - 1) with (Z.succ (Z.of_nat (S f') - 1)) by lia. rewrite Z.pow_succ_r by lia. reflexivity. }
    rewrite Hp in Hz.
    assert (Hpos : 1 <= 10 ^ (Z.of_nat (S f') - 1)) by (apply Z.lt_pred_le; apply Z.pow_pos_nonneg; lia).
    destruct (Z.ltb_spec z 10) as [Hlt|Hge]; [lia|].
    rewrite IH; [cbn [List.length]; lia | lia |].
    apply Z.div_le_lower_bound; lia.
Qed.

Definition short_key (k : str) : bool := Z.of_nat (List.length k) <? 10 ^ 39.

Lemma print_nat_inj_short n1 n2 : 0 <= n1 < 10 ^ 39 -> 0 <= n2 -> print_nat n1 = print_nat n2 -> n1 = n2.
Proof.
  intros H1 H2 E.
  assert (L1 : (List.length (print_nat n1) <= 39)%nat) by (apply DecimalProofs.print_nat_length; [exact H1 | lia]).
  destruct (Z.lt_ge_cases n2 (10 ^ 40)) as [Hlt|Hge].
  - assert (P1 : parse_digits (print_nat n1) = Some n1) by (apply DecimalProofs.parse_print_nat; lia).
    assert (P2 : parse_digits (print_nat n2) = Some n2) by (apply DecimalProofs.parse_print_nat; lia).
    rewrite E in P1. congruence.
  - exfalso. assert (L2 : List.length (print_nat n2) = 40%nat).
    { unfold print_nat. rewrite digits_of_full; [reflexivity | lia |]. change (Z.of_nat 40 - 1) with 39.
      assert (10 ^ 39 <= 10 ^ 40) by (apply Z.pow_le_mono_r; lia). lia. }
    rewrite E in L1. lia.
Qed.

Definition seg (k : str) : str := [46] ++ s_of "#" ++ print_nat (Z.of_nat (List.length k)) ++ [58] ++ k.

Lemma split_digits : forall d d' X X', Forall (fun c => is_digit c = true) d -> Forall (fun c => is_digit c = true) d' ->
  d ++ 58 :: X = d' ++ 58 :: X' -> d = d' /\ X = X'.
Proof.
  induction d as [|c d IH]; intros d' X X' Hd Hd' E.
  - destruct d' as [|c' d']; cbn in E.
    + inversion E. auto.
    + inversion E; subst. inversion Hd'; subst. discriminate.
  - destruct d' as [|c' d']; cbn in E.
    + inversion E; subst. inversion Hd; subst. discriminate.
    + inversion E; subst. inversion Hd; inversion Hd'; subst.
      destruct (IH d' X X') as [-> ->]; auto.
Qed.

Lemma app_inj_length {A} (a a' b b' : list A) : List.length a = List.length a' -> a ++ b = a' ++ b' -> a = a' /\ b = b'.
Proof.
  revert a'. induction a as [|x a IH]; intros [|x' a'] L E; cbn in *; try discriminate; auto.
  inversion E; subst. destruct (IH a') as [-> ->]; auto.
Qed.

Lemma seg_inj k k' R R' : short_key k = true -> seg k ++ R = seg k' ++ R' -> k = k' /\ R = R'.
Proof.
  unfold seg, short_key. intros Hs E. apply Z.ltb_lt in Hs.
  change (s_of "#") with [35] in E. cbn [app] in E. inversion E as [E1]. clear E.
  rewrite <- !app_assoc in E1. cbn [app] in E1.
  apply split_digits in E1; try apply ParserRoundTrip.print_nat_all_digits.
  destruct E1 as [Ed Ek].
  apply print_nat_inj_short in Ed; [|lia|lia].
  apply Nat2Z.inj in Ed. apply app_inj_length in Ek; auto.
Qed.

Lemma seg_cons k : exists r, seg k = 46 :: r.
Proof. unfold seg. cbn [app]. eexists; reflexivity. Qed.

Fixpoint epath (e : expr) : option (var * list str) :=
  match e with
  | EVar x => Some (x, [])
  | EAccess a k => match epath a with Some (x, ks) => Some (x, ks ++ [k]) | None => None end
  | _ => None
  end.

Lemma cap_key_path e key : cap_key e = Some key ->
  exists x ks, epath e = Some (x, ks) /\ key = var_name x ++ List.concat (map seg ks).
Proof.
  revert key. induction e; intros key H; cbn [cap_key] in H; try discriminate.
  - inversion H; subst. exists x, []. cbn. rewrite app_nil_r. auto.
  - destruct (cap_key e) as [p|] eqn:E; [|discriminate]. inversion H; subst.
    destruct (IHe p eq_refl) as (x & ks & Ep & ->). exists x, (ks ++ [k]). cbn [epath]. rewrite Ep. split; [reflexivity|].
    rewrite map_app, concat_app. cbn [map List.concat]. rewrite app_nil_r. unfold seg. rewrite <- !app_assoc. reflexivity.
Qed.

Lemma epath_inj : forall e e' pp, epath e = Some pp -> epath e' = Some pp -> e = e'.
Proof.
  induction e; intros e' pp H H'; cbn [epath] in H; try discriminate.
  - inversion H; subst. destruct e'; cbn [epath] in H'; try discriminate.
    + inversion H'; reflexivity.
    + destruct (epath e') as [[y ks]|]; [|discriminate]. inversion H'. destruct ks; discriminate.
  - destruct (epath e) as [[x ks]|] eqn:E; [|discriminate]. inversion H; subst.
    destruct e'; cbn [epath] in H'; try discriminate.
    + inversion H'. destruct ks; discriminate.
    + destruct (epath e') as [[y ks']|] eqn:E'; [|discriminate]. inversion H'; subst.
      apply app_inj_tail in H2. destruct H2 as [-> ->]. f_equal. eapply IHe; eauto.
Qed.

Fixpoint short_path (e : expr) : bool :=
  match e with
  | EAccess a k => short_key k && short_path a
  | _ => true
  end.

Lemma epath_short e x ks : epath e = Some (x, ks) -> short_path e = true -> forallb short_key ks = true.
Proof.
  revert x ks. induction e; intros x0 ks H Hs; cbn [epath] in H; try discriminate.
  - inversion H; reflexivity.
  - destruct (epath e) as [[y ks']|] eqn:E; [|discriminate]. inversion H; subst.
    cbn [short_path] in Hs. apply andb_true_iff in Hs. destruct Hs as [Hk Hs].
    rewrite forallb_app. rewrite (IHe _ _ eq_refl Hs). cbn. rewrite Hk. reflexivity.
Qed.

Lemma segs_inj : forall ks ks', forallb short_key ks = true -> List.concat (map seg ks) = List.concat (map seg ks') -> ks = ks'.
Proof.
  induction ks as [|k ks IH]; intros [|k' ks'] Hs E; cbn [map List.concat] in E.
  - reflexivity.
  - destruct (seg_cons k') as [r Hr]. rewrite Hr in E. discriminate.
  - destruct (seg_cons k) as [r Hr]. rewrite Hr in E. discriminate.
  - cbn [forallb] in Hs. apply andb_true_iff in Hs. destruct Hs as [Hk Hs].
    apply seg_inj in E; [|exact Hk]. destruct E as [-> E]. f_equal. apply IH; assumption.
Qed.

Lemma segs_head ks : List.concat (map seg ks) = [] \/ exists r, List.concat (map seg ks) = 46 :: r.
Proof.
  destruct ks as [|k ks]; [left; reflexivity|]. right. cbn [map List.concat]. destruct (seg_cons k) as [r ->]. eexists; reflexivity.
Qed.

Lemma var_name_inj x y S1 S2 : (S1 = [] \/ exists r, S1 = 46 :: r) -> (S2 = [] \/ exists r, S2 = 46 :: r) ->
  var_name x ++ S1 = var_name y ++ S2 -> x = y /\ S1 = S2.
Proof.
  intros H1 H2 E.
  destruct x, y; cbn in E; try discriminate;
    try (repeat (match type of E with _ :: _ = _ :: _ => inversion E as [E']; clear E; rename E' into E end); auto; fail);
    exfalso;
    repeat (match type of E with (_ :: _) = (_ :: _) => inversion E as [E']; clear E; rename E' into E end);
    destruct H1 as [->|[r1 ->]]; destruct H2 as [->|[r2 ->]]; discriminate.
Qed.

(* one side short is enough: the other side is ANY expression with the same key *)
Theorem cap_key_inj a b key : short_path a = true -> cap_key a = Some key -> cap_key b = Some key -> b = a.
Proof.
  intros Hs Ha Hb.
  destruct (cap_key_path _ _ Ha) as (x & ks & Pa & Ka). destruct (cap_key_path _ _ Hb) as (y & ks' & Pb & Kb).
  rewrite Ka in Kb. apply var_name_inj in Kb; try apply segs_head. destruct Kb as [-> Kb].
  apply segs_inj in Kb; [|eapply epath_short; eauto]. subst ks'.
  eapply epath_inj; eauto.
Qed.

(* ------------------------------------------------------------------ *)
(* Part 3: the schema-level descendant search finds every type-level    *)
(* path; run-time ancestors have ancestor types                         *)
(* ------------------------------------------------------------------ *)
Module SR := Cedar.Impl.SchemaResolve.
Module SRP := Cedar.Proofs.SchemaResolveProofs.

Section DescC.
  Variable sch : tschema.
  Definition tparents (c : str) : list str := match entity_of sch c with Some e => te_parents e | None => [] end.
  Definition tedge (a p : str) : Prop := In p (tparents a).
  Definition declared : list str := map fst (ts_entities sch).

  Lemma tparents_declared c p : In p (tparents c) -> In c declared.
  Proof.
    unfold tparents, entity_of, declared. destruct (alookup c (ts_entities sch)) eqn:E; [|intros []].
    intros _. apply alookup_keys. congruence.
  Qed.

  Definition dgo (f : nat) (anc : str) : list str -> list str -> bool * list str :=
    fix go (ps : list str) (vis : list str) : bool * list str :=
      match ps with
      | [] => (false, vis)
      | p :: r => if str_eqb p anc then (true, vis)
                  else let '(b, v) := desc sch f p anc vis in if b then (true, v) else go r v
      end.

  Lemma desc_S f child anc vis :
    desc sch (S f) child anc vis = if smem child vis then (false, vis) else dgo f anc (tparents child) (child :: vis).
  Proof. reflexivity. Qed.

  Lemma desc_link : forall fuel child anc vis r,
    SR.is_descendant fuel tparents child anc vis = Some r -> desc sch fuel child anc vis = r.
  Proof.
    induction fuel as [|f IH]; intros child anc vis r H; [discriminate|].
    rewrite SRP.is_desc_S in H. rewrite desc_S. change (SR.mem child vis) with (smem child vis) in H.
    destruct (smem child vis); [inversion H; reflexivity|].
    generalize dependent (child :: vis). generalize (tparents child).
    induction l as [|p ps IHps]; intros v H; cbn [SRP.desc_go dgo] in *.
    - inversion H; reflexivity.
    - destruct (str_eqb p anc); [inversion H; reflexivity|].
      destruct (SR.is_descendant f tparents p anc v) as [[b1 v1]|] eqn:E; [|discriminate].
      rewrite (IH _ _ _ _ E). destruct b1; [inversion H; reflexivity|]. apply IHps, H.
  Qed.

  Lemma desc_term' anc : forall fuel child vis, (SRP.unvisited declared vis + 1 <= fuel)%nat ->
    exists b v', SR.is_descendant fuel tparents child anc vis = Some (b, v') /\ incl vis v'.
  Proof.
    induction fuel as [|f IH]; intros child vis Hf; [lia|].
    rewrite SRP.is_desc_S. destruct (SR.mem child vis) eqn:Em.
    - exists false, vis. split; [reflexivity | apply incl_refl].
    - assert (G : forall ps v, (SRP.unvisited declared v + 1 <= f)%nat ->
                  exists b v', SRP.desc_go (fun p v => SR.is_descendant f tparents p anc v) anc ps v = Some (b, v') /\ incl v v').
      { induction ps as [|p r IHr]; intros v Hv.
        - cbn [SRP.desc_go]. exists false, v. split; [reflexivity | apply incl_refl].
        - cbn [SRP.desc_go]. destruct (str_eqb p anc).
          + exists true, v. split; [reflexivity | apply incl_refl].
          + destruct (IH p v Hv) as (b1 & v1 & E1 & M1).
            rewrite E1. destruct b1.
            * exists true, v1. split; [reflexivity | exact M1].
            * destruct (IHr v1) as (b2 & v2 & E2 & M2).
              -- pose proof (SRP.unvisited_mono declared _ _ M1). lia.
              -- exists b2, v2. split; [exact E2 | eapply incl_tran; eauto]. }
      destruct (tparents child) as [|p0 ps0] eqn:Ep.
      + cbn [SRP.desc_go]. exists false, (child :: vis). split; [reflexivity | intros x Hx; right; exact Hx].
      + assert (Hc : In child declared) by (apply (tparents_declared child p0); rewrite Ep; left; reflexivity).
        assert (Hlt : (SRP.unvisited declared (child :: vis) < SRP.unvisited declared vis)%nat).
        { apply (SRP.filter_length_strict _ _ _ child); auto.
          - intros x _ Hx. destruct (SR.mem x vis) eqn:E; [|reflexivity].
            apply SRP.mem_In in E. assert (E' : SR.mem x (child :: vis) = true) by (apply SRP.mem_In; right; exact E).
            rewrite E' in Hx. discriminate.
          - rewrite Em. reflexivity.
          - assert (E' : SR.mem child (child :: vis) = true) by (apply SRP.mem_In; left; reflexivity). rewrite E'. reflexivity. }
        destruct (G (p0 :: ps0) (child :: vis) ltac:(lia)) as (b & v' & E & M).
        exists b, v'. split; [exact E|]. intros x Hx. apply M. right; exact Hx.
  Qed.

  (* completeness of is_descendant_ty: a type-level path is always found *)
  Theorem is_descendant_ty_complete child anc : clos_trans _ tedge child anc -> is_descendant_ty sch child anc = true.
  Proof.
    intros Hp. unfold is_descendant_ty.
    destruct (desc_term' anc (S (List.length (ts_entities sch))) child []) as (b & v' & E & _).
    { pose proof (SRP.filter_length_le (fun x => negb (SR.mem x [])) declared) as Hl. unfold SRP.unvisited.
      unfold declared in *. rewrite map_length in Hl. lia. }
    rewrite (desc_link _ _ _ _ _ E). cbn [fst].
    apply (SRP.is_descendant_correct_gen tparents anc _ _ _ _ E). exact Hp.
  Qed.

  (* ---------- the action graph ---------- *)
  Definition ap_go (u : uid) : list (uid * list uid) -> option (list uid) :=
    fix go (l : list (uid * list uid)) : option (list uid) :=
      match l with [] => None | (a, ps) :: r => if uid_eqb a u then Some ps else go r end.
  Lemma aparents_eq u : aparents sch u = ap_go u (ts_agraph sch).
  Proof. reflexivity. Qed.

  Lemma aparents_In u ps : aparents sch u = Some ps -> In (u, ps) (ts_agraph sch).
  Proof.
    rewrite aparents_eq. induction (ts_agraph sch) as [|[a qs] r IH]; cbn [ap_go]; [discriminate|].
    destruct (uid_eqb a u) eqn:E.
    - apply uid_eqb_eq in E. subst a. intros H. inversion H; subst. left; reflexivity.
    - intros H. right. apply IH, H.
  Qed.

  (* direct membership edge of the schema's action graph, and its transitive closure *)
  Definition aedge (u p : uid) : Prop := exists ps, aparents sch u = Some ps /\ In p ps.
  Definition aclosure : uid -> uid -> Prop := clos_trans uid aedge.

  Definition akeys : list uid := map fst (ts_agraph sch).

  Lemma aedge_key u p : aedge u p -> In u akeys.
  Proof. intros (ps & H & _). apply aparents_In in H. unfold akeys. apply in_map_iff. exists (u, ps). auto. Qed.

  Lemma aclosure_first u p : aclosure u p -> exists z, aedge u z.
  Proof. intros H. induction H as [x y H|x y z _ IH1 _ _]; [eauto | exact IH1]. Qed.

  Lemma aclosure_last u p : aclosure u p -> exists w, aedge w p.
  Proof. intros H. induction H as [x y H|x y z _ _ _ IH2]; [eauto | exact IH2]. Qed.

  Lemma umem_In u l : umem u l = true <-> In u l.
  Proof.
    unfold umem. rewrite existsb_exists. split.
    - intros (y & Hy & E). apply uid_eqb_eq in E. subst. exact Hy.
    - intros H. exists u. split; [exact H | apply uid_eqb_refl].
  Qed.

  Definition awgo (f : nat) (anc : str) : list uid -> list uid -> bool * list uid :=
    fix go (ps : list uid) (vis : list uid) : bool * list uid :=
      match ps with
      | [] => (false, vis)
      | p :: r => if str_eqb (fst p) anc then (true, vis)
                  else let '(b, v) := awalk sch f p anc vis in if b then (true, v) else go r v
      end.
  Lemma awalk_S f u anc vis :
    awalk sch (S f) u anc vis =
    if umem u vis then (false, vis) else
    match aparents sch u with None => (false, u :: vis) | Some ps => awgo f anc ps (u :: vis) end.
  Proof. reflexivity. Qed.

  Definition aunv (vis : list uid) : nat := List.length (filter (fun k => negb (umem k vis)) akeys).

  Lemma aunv_mono v v' : incl v v' -> (aunv v' <= aunv v)%nat.
  Proof.
    intros H. apply SRP.filter_length_mono. intros x _ Hx.
    destruct (umem x v) eqn:E; [|reflexivity]. apply umem_In in E. apply H in E. apply umem_In in E. rewrite E in Hx. discriminate.
  Qed.

  Section AWalk.
    Variable anc : str.
    (* the nodes added by a search that answered false are fully explored: all their parents are visited and none has type anc *)
    Definition aexplored (V V' : list uid) : Prop :=
      incl V V' /\ forall x, In x V' -> ~ In x V -> forall p, aedge x p -> fst p <> anc /\ In p V'.

    Lemma aexplored_refl V : aexplored V V.
    Proof. split; [apply incl_refl|]. intros x H1 H2. contradiction. Qed.

    Lemma uid_dec (x y : uid) : {x = y} + {x <> y}.
    Proof. destruct (uid_eqb x y) eqn:E; [left; apply uid_eqb_eq, E | right; intros ->; rewrite uid_eqb_refl in E; discriminate]. Qed.

    Lemma aexplored_trans A B C : aexplored A B -> aexplored B C -> aexplored A C.
    Proof.
      intros [I1 E1] [I2 E2]. split; [eapply incl_tran; eauto|].
      intros x HxC HxA p Hp.
      destruct (in_dec uid_dec x B) as [HB|HB].
      - destruct (E1 x HB HxA p Hp) as [Hne Hin]. split; [exact Hne | apply I2, Hin].
      - apply (E2 x HxC HB p Hp).
    Qed.

    Lemma awalk_false : forall fuel u V V', (aunv V + 1 <= fuel)%nat -> awalk sch fuel u anc V = (false, V') ->
      aexplored V V' /\ In u V'.
    Proof.
      induction fuel as [|f IH]; intros u V V' Hf H; [lia|].
      rewrite awalk_S in H. destruct (umem u V) eqn:Em.
      - inversion H; subst. split; [apply aexplored_refl | apply umem_In, Em].
      - destruct (aparents sch u) as [ps|] eqn:Ep.
        + assert (Hkey : In u akeys) by (apply aparents_In in Ep; unfold akeys; apply in_map_iff; exists (u, ps); auto).
          assert (Hlt : (aunv (u :: V) < aunv V)%nat).
          { apply (SRP.filter_length_strict _ _ _ u); auto.
            - intros x _ Hx. destruct (umem x V) eqn:E; [|reflexivity].
              apply umem_In in E. assert (E' : umem x (u :: V) = true) by (apply umem_In; right; exact E).
              rewrite E' in Hx. discriminate.
            - rewrite Em. reflexivity.
            - assert (E' : umem u (u :: V) = true) by (apply umem_In; left; reflexivity). rewrite E'. reflexivity. }
          assert (G : forall qs v, (aunv v + 1 <= f)%nat -> awgo f anc qs v = (false, V') ->
                        aexplored v V' /\ forall p, In p qs -> fst p <> anc /\ In p V').
          { induction qs as [|q r IHr]; intros v Hv Hg; cbn [awgo] in Hg.
            - inversion Hg; subst. split; [apply aexplored_refl | intros p []].
            - destruct (str_eqb (fst q) anc) eqn:Eq; [discriminate|]. apply str_eqb_neq in Eq.
              destruct (awalk sch f q anc v) as [[|] v1] eqn:E; [discriminate|].
              destruct (IH _ _ _ Hv E) as [Ex1 Hp1].
              destruct (IHr v1) as [Ex2 Hr]; [pose proof (aunv_mono _ _ (proj1 Ex1)); lia | exact Hg |].
              split; [eapply aexplored_trans; eauto|].
              intros p [<-|Hp]; [|apply Hr, Hp]. split; [exact Eq | apply (proj1 Ex2), Hp1]. }
          destruct (G ps (u :: V) ltac:(lia) H) as [[I1 E1] Hps].
          assert (Hc : In u V') by (apply I1; left; reflexivity).
          split; [|exact Hc]. split.
          * intros x Hx. apply I1. right; exact Hx.
          * intros x HxV' HxV p (qs & Hq & Hp).
            destruct (uid_dec x u) as [->|Hne].
            -- rewrite Ep in Hq. inversion Hq; subst qs. apply Hps, Hp.
            -- apply (E1 x HxV'); [|exists qs; auto]. intros [X|X]; [congruence | contradiction].
        + inversion H; subst. split; [|left; reflexivity]. split; [intros x Hx; right; exact Hx|].
          intros x [<-|Hx] Hn p (qs & Hq & _); [congruence | contradiction].
    Qed.

    (* closed visited sets: every visited node has all its parents visited, none of type anc *)
    Definition aclosed (V : list uid) : Prop := forall x, In x V -> forall p, aedge x p -> fst p <> anc /\ In p V.

    Lemma aclosed_explored V V' : aclosed V -> aexplored V V' -> aclosed V'.
    Proof.
      intros Hc [I E] x Hx p Hp. destruct (in_dec uid_dec x V) as [HV|HV].
      - destruct (Hc x HV p Hp) as [H1 H2]. split; [exact H1 | apply I, H2].
      - apply (E x Hx HV p Hp).
    Qed.

    Lemma aclosed_no_anc V u p : aclosed V -> In u V -> aclosure u p -> fst p <> anc.
    Proof.
      intros Hc Hu Hp.
      assert (G : forall x y, clos_trans uid aedge x y -> In x V -> In y V /\ fst y <> anc).
      { intros x y X. induction X as [x y X | x y z _ IH1 _ IH2]; intros Hx.
        - destruct (Hc x Hx y X) as [Hne Hy]. split; assumption.
        - apply IH2. apply (IH1 Hx). }
      apply (G _ _ Hp Hu).
    Qed.

    Definition ogo (child : str) : list (uid * list uid) -> list uid -> bool * list uid :=
      fix go (l : list (uid * list uid)) (vis : list uid) : bool * list uid :=
        match l with
        | [] => (false, vis)
        | (a, _) :: r => if str_eqb (fst a) child
                         then let '(b, v) := awalk sch (S (List.length (ts_agraph sch))) a anc vis in if b then (true, v) else go r v
                         else go r vis
        end.

    Lemma aunv_le V : (aunv V + 1 <= S (List.length (ts_agraph sch)))%nat.
    Proof.
      pose proof (SRP.filter_length_le (fun k => negb (umem k V)) akeys) as H. unfold aunv. unfold akeys in *. rewrite map_length in H. lia.
    Qed.

    Lemma ogo_false child : forall l V V', aclosed V -> ogo child l V = (false, V') ->
      aclosed V' /\ incl V V' /\ forall a ps, In (a, ps) l -> fst a = child -> In a V'.
    Proof.
      induction l as [|[a qs] r IH]; intros V V' Hc H; cbn [ogo] in H.
      - inversion H; subst. split; [exact Hc|]. split; [apply incl_refl | intros a ps []].
      - destruct (str_eqb (fst a) child) eqn:Ea.
        + destruct (awalk sch (S (List.length (ts_agraph sch))) a anc V) as [[|] v1] eqn:E; [discriminate|].
          destruct (awalk_false _ _ _ _ (aunv_le V) E) as [Ex Ha].
          destruct (IH _ _ (aclosed_explored _ _ Hc Ex) H) as (Hc' & I' & Hall).
          split; [exact Hc'|]. split; [eapply incl_tran; [exact (proj1 Ex) | exact I']|].
          intros a' ps [X|X] Hty; [inversion X; subst a'; apply I', Ha | eapply Hall; eauto].
        + destruct (IH _ _ Hc H) as (Hc' & I' & Hall). split; [exact Hc'|]. split; [exact I'|].
          intros a' ps [X|X] Hty; [|eapply Hall; eauto]. inversion X; subst a'. subst child. rewrite str_eqb_refl in Ea. discriminate.
    Qed.
  End AWalk.

  Definition argo (f : nat) (target : uid) : list uid -> list uid -> bool * list uid :=
    fix go (ps : list uid) (vis : list uid) : bool * list uid :=
      match ps with
      | [] => (false, vis)
      | p :: r => if uid_eqb p target then (true, vis)
                  else let '(b, v) := areach sch f p target vis in if b then (true, v) else go r v
      end.
  Lemma areach_S f u target vis :
    areach sch (S f) u target vis =
    if umem u vis then (false, vis) else
    match aparents sch u with None => (false, u :: vis) | Some ps => argo f target ps (u :: vis) end.
  Proof. reflexivity. Qed.

  Section AReach.
    Variable target : uid.
    (* the same for the search for one target action (areach) *)
    Definition rexplored (V V' : list uid) : Prop :=
      incl V V' /\ forall x, In x V' -> ~ In x V -> forall p, aedge x p -> p <> target /\ In p V'.

    Lemma rexplored_refl V : rexplored V V.
    Proof. split; [apply incl_refl|]. intros x H1 H2. contradiction. Qed.

    Lemma rexplored_trans A B C : rexplored A B -> rexplored B C -> rexplored A C.
    Proof.
      intros [I1 E1] [I2 E2]. split; [eapply incl_tran; eauto|].
      intros x HxC HxA p Hp.
      destruct (in_dec uid_dec x B) as [HB|HB].
      - destruct (E1 x HB HxA p Hp) as [Hne Hin]. split; [exact Hne | apply I2, Hin].
      - apply (E2 x HxC HB p Hp).
    Qed.

    Lemma areach_false : forall fuel u V V', (aunv V + 1 <= fuel)%nat -> areach sch fuel u target V = (false, V') ->
      rexplored V V' /\ In u V'.
    Proof.
      induction fuel as [|f IH]; intros u V V' Hf H; [lia|].
      rewrite areach_S in H. destruct (umem u V) eqn:Em.
      - inversion H; subst. split; [apply rexplored_refl | apply umem_In, Em].
      - destruct (aparents sch u) as [ps|] eqn:Ep.
        + assert (Hkey : In u akeys) by (apply aparents_In in Ep; unfold akeys; apply in_map_iff; exists (u, ps); auto).
          assert (Hlt : (aunv (u :: V) < aunv V)%nat).
          { apply (SRP.filter_length_strict _ _ _ u); auto.
            - intros x _ Hx. destruct (umem x V) eqn:E; [|reflexivity].
              apply umem_In in E. assert (E' : umem x (u :: V) = true) by (apply umem_In; right; exact E).
              rewrite E' in Hx. discriminate.
            - rewrite Em. reflexivity.
            - assert (E' : umem u (u :: V) = true) by (apply umem_In; left; reflexivity). rewrite E'. reflexivity. }
          assert (G : forall qs v, (aunv v + 1 <= f)%nat -> argo f target qs v = (false, V') ->
                        rexplored v V' /\ forall p, In p qs -> p <> target /\ In p V').
          { induction qs as [|q r IHr]; intros v Hv Hg; cbn [argo] in Hg.
            - inversion Hg; subst. split; [apply rexplored_refl | intros p []].
            - destruct (uid_eqb q target) eqn:Eq0; [discriminate|]. assert (Eq : q <> target) by (intros ->; rewrite uid_eqb_refl in Eq0; discriminate).
              destruct (areach sch f q target v) as [[|] v1] eqn:E; [discriminate|].
              destruct (IH _ _ _ Hv E) as [Ex1 Hp1].
              destruct (IHr v1) as [Ex2 Hr]; [pose proof (aunv_mono _ _ (proj1 Ex1)); lia | exact Hg |].
              split; [eapply rexplored_trans; eauto|].
              intros p [<-|Hp]; [|apply Hr, Hp]. split; [exact Eq | apply (proj1 Ex2), Hp1]. }
          destruct (G ps (u :: V) ltac:(lia) H) as [[I1 E1] Hps].
          assert (Hc : In u V') by (apply I1; left; reflexivity).
          split; [|exact Hc]. split.
          * intros x Hx. apply I1. right; exact Hx.
          * intros x HxV' HxV p (qs & Hq & Hp).
            destruct (uid_dec x u) as [->|Hne].
            -- rewrite Ep in Hq. inversion Hq; subst qs. apply Hps, Hp.
            -- apply (E1 x HxV'); [|exists qs; auto]. intros [X|X]; [congruence | contradiction].
        + inversion H; subst. split; [|left; reflexivity]. split; [intros x Hx; right; exact Hx|].
          intros x [<-|Hx] Hn p (qs & Hq & _); [congruence | contradiction].
    Qed.

    
    Definition rclosed (V : list uid) : Prop := forall x, In x V -> forall p, aedge x p -> p <> target /\ In p V.

    Lemma rclosed_explored V V' : rclosed V -> rexplored V V' -> rclosed V'.
    Proof.
      intros Hc [I E] x Hx p Hp. destruct (in_dec uid_dec x V) as [HV|HV].
      - destruct (Hc x HV p Hp) as [H1 H2]. split; [exact H1 | apply I, H2].
      - apply (E x Hx HV p Hp).
    Qed.

    Lemma rclosed_no_target V u p : rclosed V -> In u V -> aclosure u p -> p <> target.
    Proof.
      intros Hc Hu Hp.
      assert (G : forall x y, clos_trans uid aedge x y -> In x V -> In y V /\ y <> target).
      { intros x y X. induction X as [x y X | x y z _ IH1 _ IH2]; intros Hx.
        - destruct (Hc x Hx y X) as [Hne Hy]. split; assumption.
        - apply IH2. apply (IH1 Hx). }
      apply (G _ _ Hp Hu).
    Qed.
  End AReach.

  (* completeness of isActionDescendant: a path in the action graph to the target is always found *)
  Theorem areach_complete u p : aclosure u p -> fst (areach sch (S (List.length (ts_agraph sch))) u p []) = true.
  Proof.
    intros Hp. destruct (areach sch (S (List.length (ts_agraph sch))) u p []) as [[|] V'] eqn:E; [reflexivity|]. exfalso.
    destruct (areach_false p _ _ _ _ (aunv_le []) E) as [Ex Hu].
    assert (Hc : rclosed p V') by (apply (rclosed_explored p [] V'); [intros x [] | exact Ex]).
    apply (rclosed_no_target p V' u p Hc Hu Hp). reflexivity.
  Qed.

  Lemma is_action_ty_desc_eq child anc :
    is_action_ty_desc sch child anc = is_action_type child && is_action_type anc && fst (ogo anc child (ts_agraph sch) []).
  Proof. reflexivity. Qed.

  (* completeness of isActionTypeDescendant: a path in the action graph is always found *)
  Theorem is_action_ty_desc_complete u p : aclosure u p -> is_action_type (fst u) = true -> is_action_type (fst p) = true ->
    is_action_ty_desc sch (fst u) (fst p) = true.
  Proof.
    intros Hp Hu Hpt. rewrite is_action_ty_desc_eq, Hu, Hpt. cbn [andb].
    destruct (ogo (fst p) (fst u) (ts_agraph sch) []) as [[|] V'] eqn:E; [reflexivity|]. exfalso.
    destruct (ogo_false (fst p) (fst u) _ _ _ (fun x (Hx : In x []) => match Hx with end) E) as (Hc & _ & Hall).
    destruct (aclosure_first _ _ Hp) as (z & ps & Hz & _). apply aparents_In in Hz.
    apply (aclosed_no_anc (fst p) V' u p Hc (Hall _ _ Hz eq_refl) Hp). reflexivity.
  Qed.

  (* ---------- hypotheses about actions ---------- *)
  (* Well-formedness of the schema's action graph and of the action entity types:
     (a) every declared action has an action entity type (resolveActions builds the uid with qualifyActionType), and every listed
         parent is itself a declared action (validateActionMembership: "undefined parent action");
     (b) an action entity type is neither a declared nor an enumerated entity type (Cedar reserves the type name Action; Go's
         Validator.Entity tests isActionEntity FIRST, so for such a name entity_ok and the Go code would disagree anyway);
     (c) no declared entity type lists an action entity type among its parent types (memberOfTypes are entity types; with (b) this is
         "every parent type is declared or enumerated");
     (d) ts_actions and the keys of ts_agraph are the same set (both list the resolved schema's Actions map). *)
  Definition agraph_wf : Prop :=
    (forall u, In u (ts_actions sch) <-> In u akeys) /\
    (forall a ps, In (a, ps) (ts_agraph sch) -> is_action_type (fst a) = true /\ forall p, In p ps -> In p akeys) /\
    (forall n, is_action_type n = true -> entity_of sch n = None /\ smem n (ts_enums sch) = false) /\
    (forall n te p, entity_of sch n = Some te -> In p (te_parents te) -> is_action_type p = false).

  (* What validateActionEntity (x/exp/schema/validate/entity.go) establishes for an action entity of the store: the action is declared,
     and its parents are exactly the transitive closure of its declared groups - here only "are in the closure" is needed. *)
  Definition actions_conform (st : store) : Prop :=
    forall u e, lookup st u = Some e -> is_action_type (fst u) = true -> entity_of sch (fst u) = None -> smem (fst u) (ts_enums sch) = false ->
      exists ps, aparents sch u = Some ps /\ forall p, In p (e_parents e) -> aclosure u p.

  (* Validator.Entity rejects an entity whose type is neither an action type, nor declared, nor enumerated ("entity type not found in
     schema"); entity_ok does not say it *)
  Definition store_types_known (st : store) : Prop :=
    forall u e, lookup st u = Some e ->
      entity_of sch (fst u) <> None \/ smem (fst u) (ts_enums sch) = true \/ is_action_type (fst u) = true.

  (* everything the `in` case needs beyond env_ok *)
  Definition in_hyps (st : store) : Prop := agraph_wf /\ actions_conform st /\ store_types_known st.

  Lemma akey_action u : agraph_wf -> In u akeys -> is_action_type (fst u) = true.
  Proof.
    intros (_ & Ha & _) Hk. unfold akeys in Hk. apply in_map_iff in Hk. destruct Hk as ([a ps] & <- & Hin). apply (Ha _ _ Hin).
  Qed.

  Lemma aedge_target_action u p : agraph_wf -> aedge u p -> is_action_type (fst p) = true.
  Proof.
    intros Hw (ps & Hps & Hp). apply akey_action; [exact Hw|]. destruct Hw as (_ & Ha & _). apply aparents_In in Hps. apply (Ha _ _ Hps), Hp.
  Qed.

  Lemma tedge_last x y : clos_trans _ tedge x y -> exists w, tedge w y.
  Proof. intros H. induction H as [x y H|x y z _ _ _ IH2]; [eauto | exact IH2]. Qed.

  (* every store ancestor of an entity: same entity, or a type-level path, or a path in the action graph *)
  Lemma reach_types st a b : store_ok sch st -> in_hyps st -> reach_st st a b ->
    a = b \/ clos_trans _ tedge (fst a) (fst b) \/ aclosure a b.
  Proof.
    intros Hst (Hw & Hac & Hk) Hr. induction Hr as [|y z Hr IH He]; [left; reflexivity|].
    destruct He as (ps & Hps & Hz). unfold parents_of in Hps.
    destruct (lookup st y) as [e|] eqn:El; [|discriminate]. cbn in Hps. inversion Hps; subst ps.
    pose proof (Hst _ _ El) as Hok. unfold entity_ok in Hok. right.
    destruct (alookup (fst y) (ts_entities sch)) as [te|] eqn:Et.
    - destruct Hok as (_ & _ & Hpar). specialize (Hpar _ Hz).
      assert (Hedge : tedge (fst y) (fst z)).
      { unfold tedge, tparents, entity_of. rewrite Et. exact Hpar. }
      destruct IH as [->|[IH|IH]].
      + left. apply t_step; exact Hedge.
      + left. eapply t_trans; [exact IH | apply t_step; exact Hedge].
      + exfalso. destruct (aclosure_last _ _ IH) as (w & Hwy). pose proof (aedge_target_action _ _ Hw Hwy) as Hy.
        destruct Hw as (_ & _ & Hb & _). destruct (Hb _ Hy) as [Hn _]. unfold entity_of in Hn. congruence.
    - destruct Hok as (_ & _ & Henum). destruct (smem (fst y) (ts_enums sch)) eqn:Es.
      + rewrite (Henum eq_refl) in Hz. destruct Hz.
      + assert (Hy : is_action_type (fst y) = true).
        { destruct (Hk _ _ El) as [H|[H|H]]; [unfold entity_of in H; congruence | congruence | exact H]. }
        destruct (Hac _ _ El Hy Et Es) as (qs & _ & Hcl). specialize (Hcl _ Hz).
        destruct IH as [->|[IH|IH]].
        * right. exact Hcl.
        * exfalso. destruct (tedge_last _ _ IH) as (w & Hwy). unfold tedge, tparents in Hwy.
          destruct (entity_of sch w) as [tw|] eqn:Ew; [|destruct Hwy].
          destruct Hw as (_ & _ & _ & Hc). rewrite (Hc _ _ _ Ew Hwy) in Hy. discriminate.
        * right. eapply t_trans; eauto.
  Qed.

  Lemma any_descendant_complete ll r lt rt : In lt ll -> In rt r ->
    (lt = rt \/ clos_trans _ tedge lt rt \/ is_action_ty_desc sch lt rt = true) ->
    any_descendant sch ll r = true.
  Proof.
    intros Hl Hr H. unfold any_descendant. apply existsb_exists. exists lt. split; [exact Hl|].
    apply existsb_exists. exists rt. split; [exact Hr|].
    destruct H as [->|[H|H]].
    - rewrite str_eqb_refl. reflexivity.
    - rewrite (is_descendant_ty_complete _ _ H). apply orb_true_iff. left. apply orb_true_r.
    - rewrite H. apply orb_true_r.
  Qed.

  Lemma reach_any_descendant st a b ll r : store_ok sch st -> in_hyps st -> reach_st st a b -> In (fst a) ll -> In (fst b) r ->
    any_descendant sch ll r = true.
  Proof.
    intros Hst Hh Hr Hl Hrr. apply (any_descendant_complete ll r (fst a) (fst b) Hl Hrr).
    destruct (reach_types st a b Hst Hh Hr) as [->|[H|H]]; [left; reflexivity | right; left; exact H|].
    right. right. destruct Hh as (Hw & _). apply is_action_ty_desc_complete; [exact H | |].
    - destruct (aclosure_first _ _ H) as (z & Hz). apply akey_action; [exact Hw | eapply aedge_key; eauto].
    - destruct (aclosure_last _ _ H) as (w & Hwb). eapply aedge_target_action; eauto.
  Qed.
  Lemma tedge_first x y : clos_trans _ tedge x y -> exists w, tedge x w.
  Proof. intros H. induction H as [x y H|x y z _ IH1 _ _]; [eauto | exact IH1]. Qed.

  (* the store ancestors of a DECLARED ACTION are its strict ancestors in the action graph, which are declared actions *)
  Lemma reach_action st l x : store_ok sch st -> in_hyps st -> In l (ts_actions sch) -> reach_st st l x ->
    l = x \/ (aclosure l x /\ In x (ts_actions sch)).
  Proof.
    intros Hst Hh Hl Hr. destruct (reach_types st l x Hst Hh Hr) as [->|[H|H]]; [left; reflexivity | exfalso | right].
    - destruct Hh as (Hw & _). destruct (tedge_first _ _ H) as (w & Hw1). unfold tedge, tparents in Hw1.
      destruct (entity_of sch (fst l)) as [te|] eqn:Ee; [|destruct Hw1].
      pose proof (akey_action l Hw) as Ha. destruct Hw as (Hd & _ & Hb & _). specialize (Ha (proj1 (Hd l) Hl)).
      destruct (Hb _ Ha) as [Hn _]. congruence.
    - split; [exact H|]. destruct Hh as ((Hd & Ha & _) & _). destruct (aclosure_last _ _ H) as (w & ps & Hps & Hx).
      apply aparents_In in Hps. apply Hd. apply (Ha _ _ Hps), Hx.
  Qed.
End DescC.

(* do_in on typed operands *)
Lemma all_entities_typed l r : Forall (fun v => vtyped v (CEnt r)) l ->
  exists us, all_entities l = Some us /\ Forall (fun u => In (fst u) r) us.
Proof.
  induction l as [|v l IH]; intros H.
  - exists []. split; [reflexivity | constructor].
  - inversion H as [|x y Hv Hl]; subst. destruct (IH Hl) as (us & E & F).
    inversion Hv; subst. cbn [all_entities]. rewrite E. exists ((t, i) :: us). split; [reflexivity|].
    constructor; [assumption | exact F].
Qed.

Lemma all_entities_any l : Forall (fun v => exists t i, v = VEntity t i) l -> exists us, all_entities l = Some us.
Proof.
  induction l as [|v l IH]; intros H; [exists []; reflexivity|].
  inversion H as [|x y (t & i & ->) Hl]; subst. destruct (IH Hl) as (us & E). cbn [all_entities]. rewrite E. eexists; reflexivity.
Qed.

Definition ent_of (u : uid) : value := VEntity (fst u) (snd u).

Lemma all_entities_map l : Forall (fun v => exists u, v = ent_of u) l -> exists us, all_entities l = Some us /\ l = map ent_of us.
Proof.
  induction l as [|v l IH]; intros H; [exists []; auto|].
  inversion H as [|x y (u & ->) Hl]; subst. destruct (IH Hl) as (us & E & ->). cbn [all_entities ent_of]. rewrite E.
  exists ((fst u, snd u) :: us). split; [reflexivity|]. reflexivity.
Qed.

Lemma ent_of_inj u v : ent_of u = ent_of v -> u = v.
Proof. destruct u, v. unfold ent_of. cbn. intros H. inversion H. reflexivity. Qed.

Lemma veq_ent_of u v : veq (ent_of u) v = true -> v = ent_of u.
Proof.
  destruct u as [t i]. unfold ent_of. cbn [fst snd]. destruct v; cbn [veq]; try discriminate.
  intros H. apply andb_true_iff in H. destruct H as [H1 H2]. apply str_eqb_eq in H1. apply str_eqb_eq in H2. subst. reflexivity.
Qed.

(* the set built from a list of entity values has the same members *)
Lemma dedup_ents rs : exists us, all_entities (dedup (map ent_of rs) []) = Some us /\ forall u, In u us <-> In u rs.
Proof.
  assert (HF : Forall (fun v => exists u, v = ent_of u) (dedup (map ent_of rs) [])).
  { rewrite Forall_forall. intros v Hv. destruct (dedup_incl _ _ _ Hv) as [Hin|[]]. apply in_map_iff in Hin. destruct Hin as (u & <- & _). eauto. }
  destruct (all_entities_map _ HF) as (us & E & Hm). exists us. split; [exact E|]. intros u. split.
  - intros Hu. assert (Hin : In (ent_of u) (dedup (map ent_of rs) [])) by (rewrite Hm; apply in_map, Hu).
    destruct (dedup_incl _ _ _ Hin) as [H|[]]. apply in_map_iff in H. destruct H as (u' & E' & Hu'). apply ent_of_inj in E'. subst. exact Hu'.
  - intros Hu. assert (Hv : vmem (ent_of u) (map ent_of rs) = true).
    { apply vmem_true_iff. exists (ent_of u). split; [apply in_map, Hu | apply veq_refl]. }
    rewrite <- mk_set_vmem in Hv. apply vmem_true_iff in Hv. destruct Hv as (y & Hy & Ey). apply veq_ent_of in Ey. subst y.
    rewrite Hm in Hy. apply in_map_iff in Hy. destruct Hy as (u' & E' & Hu'). apply ent_of_inj in E'. subst. exact Hu'.
Qed.

(* `l in w` for an entity or a set of entities given by their uids *)
Lemma do_in_uids_single st l u : exists r, do_in st l (ent_of u) = Ok (VBool r) /\ (r = true <-> reach_st st l u).
Proof.
  destruct u as [t i]. unfold ent_of. cbn [fst snd do_in]. destruct (eval_in_one_correct st l (t, i)) as (r & E & Hiff). rewrite E. exists r. auto.
Qed.

Lemma do_in_uids_set st l rs : exists r, do_in st l (mk_set (map ent_of rs)) = Ok (VBool r) /\ (r = true <-> exists x, In x rs /\ reach_st st l x).
Proof.
  unfold mk_set. cbn [do_in]. destruct (dedup_ents rs) as (us & E & Hm). rewrite E.
  destruct (eval_in_set_correct st l us) as (r & E2 & Hiff). rewrite E2. exists r. split; [reflexivity|].
  rewrite Hiff. split; intros (x & Hx & Hr); exists x; (split; [apply Hm, Hx | exact Hr]).
Qed.

(* rhs of `in`: typed entity or set of entities *)
Lemma do_in_total st u w rt : is_ent_or_set_of_ent rt = true -> vtyped w rt -> exists b, do_in st u w = Ok (VBool b).
Proof.
  intros Hrt Hw. destruct rt as [| | | | | |e| |l|]; try discriminate.
  - destruct e as [| | | | | | | |l|]; try discriminate.
    + inversion Hw; subst. destruct l as [|x l]; [|inversion H1 as [|? ? Hx]; subst; exfalso; exact (vtyped_never _ Hx)].
      cbn [do_in all_entities]. destruct (eval_in_set_correct st u []) as (r & E & _). rewrite E. exists r. reflexivity.
    + inversion Hw; subst. destruct (all_entities_typed _ _ H1) as (us & E & _). cbn [do_in]. rewrite E.
      destruct (eval_in_set_correct st u us) as (r & E2 & _). rewrite E2. exists r. reflexivity.
  - inversion Hw; subst. cbn [do_in]. destruct (eval_in_one_correct st u (t, i)) as (r & E & _). rewrite E. exists r. reflexivity.
Qed.

(* typed CFalse: no type-level relation between the operand types *)
Lemma do_in_false sch st t i w ll rt r :
  store_ok sch st -> in_hyps sch st -> In t ll ->
  (rt = CEnt r \/ rt = CSet (CEnt r)) -> vtyped w rt -> any_descendant sch ll r = false ->
  do_in st (t, i) w = Ok (VBool false).
Proof.
  intros Hst Hup Ht Hrt Hw Hany.
  destruct Hrt as [-> | ->].
  - destruct (vtyped_ent_inv _ _ Hw) as (t0 & i0 & -> & H1). cbn [do_in].
    destruct (eval_in_one_correct st (t, i) (t0, i0)) as (b & E & Hiff). rewrite E.
    destruct b; [|reflexivity]. exfalso.
    assert (Hr : reach_st st (t, i) (t0, i0)) by (apply Hiff; reflexivity).
    rewrite (reach_any_descendant sch st _ _ ll r Hst Hup Hr Ht H1) in Hany. discriminate.
  - destruct (vtyped_set_inv' _ _ Hw) as (l & -> & H1). destruct (all_entities_typed _ _ H1) as (us & E & F). cbn [do_in]. rewrite E.
    destruct (eval_in_set_correct st (t, i) us) as (b & E2 & Hiff). rewrite E2.
    destruct b; [|reflexivity]. exfalso.
    destruct (proj1 Hiff eq_refl) as (u' & Hu' & Hr). rewrite Forall_forall in F. specialize (F _ Hu').
    rewrite (reach_any_descendant sch st _ _ ll r Hst Hup Hr Ht F) in Hany. discriminate.
Qed.

(* ------------------------------------------------------------------ *)
(* Part 4: well-formed schemas; attribute lookup, `has`, tags           *)
(* ------------------------------------------------------------------ *)
(* the attribute and tag types of every declared entity type have pairwise distinct record keys (at every depth), and the empty name
   is not a declared entity type.  Only the FIRST declaration of a name counts (alookup). *)
Definition schema_wf (sch : tschema) : Prop :=
  entity_of sch [] = None /\
  forall n te, entity_of sch n = Some te ->
    (forall k t q, alookup k (te_shape te) = Some (t, q) -> WT t) /\
    (forall tt, te_tags te = Some tt -> WT tt).

(* the context type has pairwise distinct keys (at every depth) *)
Definition tenv_wf (sch : tschema) (tv : tenv) : Prop := WT (CRec (tv_context tv)).

Lemma sub_trans a b c : sub a b -> sub b c -> sub a c.
Proof. intros H1 H2 v Hv. apply H2, H1, Hv. Qed.

Lemma get_attr_rec kvs l k at_ req : vtyped (VRecord kvs) (CRec l) -> alookup k l = Some (at_, req) ->
  match rec_get k kvs with Some x => vtyped x at_ | None => req = false end.
Proof.
  intros H E. apply vtyped_rec_inv in H. destruct H as [HF HR].
  destruct (rec_get k kvs) as [x|] eqn:Eg.
  - apply rec_get_In in Eg. rewrite Forall_forall in HF. destruct (HF _ Eg) as (t & q & El & Ht). cbn [fst snd] in *.
    rewrite E in El. inversion El; subst. exact Ht.
  - destruct req; [|reflexivity]. destruct (HR _ _ E) as (v & Hv). congruence.
Qed.

Lemma has_attr_rec_closed kvs l k : vtyped (VRecord kvs) (CRec l) -> alookup k l = None -> rec_get k kvs = None.
Proof.
  intros H E. apply vtyped_rec_inv in H. destruct H as [HF _].
  destruct (rec_get k kvs) as [x|] eqn:Eg; [|reflexivity].
  apply rec_get_In in Eg. rewrite Forall_forall in HF. destruct (HF _ Eg) as (t & q & El & _). cbn [fst] in El. congruence.
Qed.

Section Attr.
  Variable sch : tschema.
  Hypothesis Hwf : schema_wf sch.

  Definition ea_go (attr : str) : list str -> option (cty * bool) -> option (cty * bool) :=
    fix go (l : list str) (acc : option (cty * bool)) : option (cty * bool) :=
       match l with
       | [] => acc
       | et :: r =>
           match entity_of sch et with
           | None => None
           | Some e =>
               match alookup attr (te_shape e) with
               | None => None
               | Some (t, q) =>
                   match acc with
                   | None => go r (Some (t, q))
                   | Some (ta, qa) => match lub' true ta t with Some tl => go r (Some (tl, qa && q)) | None => None end
                   end
               end
           end
       end.

  Lemma lookup_entity_attr_eq l attr : lookup_entity_attr true sch l attr = ea_go attr l None.
  Proof. reflexivity. Qed.

  Lemma ea_go_spec attr : forall l acc at_ req, ea_go attr l acc = Some (at_, req) ->
    match acc with Some (ta, _) => WT ta | None => True end ->
    WT at_ /\
    match acc with Some (ta, qa) => sub ta at_ /\ (req = true -> qa = true) | None => l <> [] end /\
    forall et, In et l -> exists te t q, entity_of sch et = Some te /\ alookup attr (te_shape te) = Some (t, q) /\ sub t at_ /\ (req = true -> q = true).
  Proof.
    induction l as [|et r IH]; intros acc at_ req H Hacc.
    - cbn in H. subst acc. split; [exact Hacc|]. split; [split; [intros v Hv; exact Hv | auto] | intros et []].
    - cbn [ea_go] in H. fold (ea_go attr) in H.
      destruct (entity_of sch et) as [e|] eqn:Ee; [|discriminate].
      destruct (alookup attr (te_shape e)) as [[t q]|] eqn:Ea; [|discriminate].
      assert (Hwt : WT t) by (destruct Hwf as [_ Hw]; destruct (Hw _ _ Ee) as [Hs _]; apply (Hs _ _ _ Ea)).
      destruct acc as [[ta qa]|].
      + destruct (lub' true ta t) as [tl|] eqn:El; [|discriminate].
        destruct (lub'_sub _ _ _ El Hacc Hwt) as (Hwl & S1 & S2).
        destruct (IH _ _ _ H Hwl) as (Hwa & [S3 Hq] & Hall).
        split; [exact Hwa|]. split.
        * split; [eapply sub_trans; eauto | intros Hr; specialize (Hq Hr); apply andb_true_iff in Hq; tauto].
        * intros et' [<-|Hin]; [|apply Hall, Hin]. exists e, t, q. repeat split; auto.
          -- eapply sub_trans; eauto.
          -- intros Hr; specialize (Hq Hr); apply andb_true_iff in Hq; tauto.
      + destruct (IH _ _ _ H Hwt) as (Hwa & [S3 Hq] & Hall).
        split; [exact Hwa|]. split; [discriminate|].
        intros et' [<-|Hin]; [|apply Hall, Hin]. exists e, t, q. repeat split; auto.
  Qed.

  Lemma lookup_attr_WT t k at_ req : WT t -> lookup_attr true sch t k = Some (at_, req) -> WT at_.
  Proof.
    intros Hw H. destruct t; cbn [lookup_attr] in H; try discriminate.
    - unfold WT in *. eapply ty_all_lookup; eauto.
    - rewrite lookup_entity_attr_eq in H. apply ea_go_spec in H; [tauto | exact I].
  Qed.

  Lemma nonzero_declared t i te : entity_of sch t = Some te -> is_zero_uid (t, i) = false.
  Proof.
    intros H. unfold is_zero_uid. cbn [fst snd]. destruct t; [|reflexivity].
    destruct Hwf as [H0 _]. congruence.
  Qed.

  (* attribute access on a typed value *)
  Lemma get_attr_typed st v t k at_ req :
    store_ok sch st -> vtyped v t -> lookup_attr true sch t k = Some (at_, req) ->
    match get_attr st v k with
    | Ok x => vtyped x at_
    | Err EEntity => True
    | Err EAttr => req = false /\ has_attr st v k = Ok (VBool false)
    | Err _ => False
    end.
  Proof.
    intros Hst Hv H. destruct t as [| | | | | | |attrs0|lub0|]; cbn [lookup_attr] in H; try discriminate.
    - destruct (vtyped_rec_inv' _ _ Hv) as (kvs & ->). cbn [get_attr has_attr].
      pose proof (get_attr_rec _ _ _ _ _ Hv H) as G. destruct (rec_get k kvs); [exact G | split; [exact G | reflexivity]].
    - destruct (vtyped_ent_inv _ _ Hv) as (t0 & i & -> & H1). rewrite lookup_entity_attr_eq in H. apply ea_go_spec in H; [|exact I].
      destruct H as (_ & _ & Hall). destruct (Hall _ H1) as (te & t' & q & Ee & Ea & S1 & Hq).
      cbn [get_attr has_attr]. rewrite (nonzero_declared _ i _ Ee).
      destruct (lookup st (t0, i)) as [e|] eqn:El; [|exact I].
      pose proof (Hst _ _ El) as Hok. unfold entity_ok in Hok. cbn [fst] in Hok.
      unfold entity_of in Ee. rewrite Ee in Hok. destruct Hok as (Hattrs & _ & _).
      pose proof (get_attr_rec _ _ _ _ _ Hattrs Ea) as G.
      destruct (rec_get k (e_attrs e)); [apply S1, G|]. subst q.
      split; [|reflexivity]. destruct req; [specialize (Hq eq_refl); discriminate | reflexivity].
  Qed.

  (* `has` on a typed value *)
  Lemma has_attr_typed st v t k :
    store_ok sch st -> vtyped v t -> is_ent_or_rec t = true ->
    exists b, has_attr st v k = Ok (VBool b) /\ vtyped (VBool b) (has_result_type sch t k).
  Proof.
    intros Hst Hv Ht. destruct t as [| | | | | | |attrs0|lub0|]; try discriminate.
    - destruct (vtyped_rec_inv' _ _ Hv) as (kvs & ->). cbn [has_attr has_result_type]. unfold vbool. eexists. split; [reflexivity|].
      destruct (alookup k attrs0) as [[t [|]]|] eqn:Ea.
      + apply vtyped_rec_inv in Hv. destruct Hv as [_ HR]. destruct (HR _ _ Ea) as (x & ->). constructor.
      + constructor.
      + rewrite (has_attr_rec_closed _ _ _ Hv Ea). constructor.
    - destruct (vtyped_ent_inv _ _ Hv) as (t0 & i & -> & H1). cbn [has_attr has_result_type]. unfold vbool.
      match goal with |- context [existsb ?f lub0] => destruct (existsb f lub0) eqn:Eex end.
      + destruct (lookup st (t0, i)) as [e|]; eexists; (split; [reflexivity | constructor]).
      + exists false. split; [|constructor].
        destruct (lookup st (t0, i)) as [e|] eqn:El; [|reflexivity].
        pose proof (Hst _ _ El) as Hok. unfold entity_ok in Hok. cbn [fst] in Hok.
        pose proof (existsb_false_all _ _ Eex _ H1) as Hf. cbv beta in Hf. unfold entity_of in Hf.
        destruct (alookup t0 (ts_entities sch)) as [te|].
        * destruct Hok as (Hattrs & _ & _).
          destruct (alookup k (te_shape te)) eqn:Ea; [discriminate|].
          rewrite (has_attr_rec_closed _ _ _ Hattrs Ea). reflexivity.
        * destruct Hok as (-> & _). reflexivity.
  Qed.

  (* tags *)
  Definition tag_go : list str -> cty -> option cty :=
    fix go (l : list str) (acc : cty) : option cty :=
       match l with
       | [] => Some acc
       | et :: r =>
           match entity_of sch et with
           | Some e => match te_tags e with
                       | None => go r acc
                       | Some t => match lub' true acc t with Some x => go r x | None => None end
                       end
           | None => go r acc
           end
       end.
  Lemma entity_tag_type_eq l : entity_tag_type true sch l = tag_go l CNever.
  Proof. reflexivity. Qed.

  Lemma tag_go_spec : forall l acc t, WT acc -> tag_go l acc = Some t ->
    WT t /\ sub acc t /\
    forall et te tt, In et l -> entity_of sch et = Some te -> te_tags te = Some tt -> sub tt t.
  Proof.
    induction l as [|et r IH]; intros acc t Hacc H; cbn [tag_go] in H; fold tag_go in H.
    - inversion H; subst. split; [exact Hacc|]. split; [intros v Hv; exact Hv | intros et te tt []].
    - destruct (entity_of sch et) as [e|] eqn:Ee.
      + destruct (te_tags e) as [tt0|] eqn:Et.
        * destruct (lub' true acc tt0) as [x|] eqn:El; [|discriminate].
          assert (Hwt : WT tt0) by (destruct Hwf as [_ Hw]; destruct (Hw _ _ Ee) as [_ Hs]; apply (Hs _ Et)).
          destruct (lub'_sub _ _ _ El Hacc Hwt) as (Hwx & S1 & S2).
          destruct (IH _ _ Hwx H) as (Hwt' & S3 & Hall).
          split; [exact Hwt'|]. split; [eapply sub_trans; eauto|].
          intros et' te tt [<-|Hin] Ee' Et'; [|eapply Hall; eauto].
          rewrite Ee in Ee'. inversion Ee'; subst te. rewrite Et in Et'. inversion Et'; subst tt. eapply sub_trans; eauto.
        * destruct (IH _ _ Hacc H) as (Hwt' & S3 & Hall). split; [exact Hwt'|]. split; [exact S3|].
          intros et' te tt [<-|Hin] Ee' Et'; [|eapply Hall; eauto].
          rewrite Ee in Ee'. inversion Ee'; subst te. congruence.
      + destruct (IH _ _ Hacc H) as (Hwt' & S3 & Hall). split; [exact Hwt'|]. split; [exact S3|].
        intros et' te tt [<-|Hin] Ee' Et'; [|eapply Hall; eauto]. congruence.
  Qed.

  (* what a conforming store says about the tags of an entity *)
  Lemma store_tag st t i ent s x : store_ok sch st -> lookup st (t, i) = Some ent -> rec_get s (e_tags ent) = Some x ->
    exists te tt, entity_of sch t = Some te /\ te_tags te = Some tt /\ vtyped x tt.
  Proof.
    intros Hst El Eg. pose proof (Hst _ _ El) as Hok. unfold entity_ok in Hok. cbn [fst] in Hok. unfold entity_of.
    destruct (alookup t (ts_entities sch)) as [te|].
    - destruct Hok as (_ & Htags & _). destruct (Htags _ _ Eg) as (tt & Et & Hx). exists te, tt. auto.
    - destruct Hok as (_ & Hnil & _). rewrite Hnil in Eg. discriminate.
  Qed.

  (* getTag on a typed entity whose tag is present *)
  Lemma get_tag_typed st l t i ent s x tagt : store_ok sch st -> In t l -> entity_tag_type true sch l = Some tagt ->
    lookup st (t, i) = Some ent -> rec_get s (e_tags ent) = Some x -> vtyped x tagt /\ is_zero_uid (t, i) = false.
  Proof.
    intros Hst Hin Ht El Eg. destruct (store_tag _ _ _ _ _ _ Hst El Eg) as (te & tt & Ee & Et & Hx).
    rewrite entity_tag_type_eq in Ht. apply tag_go_spec in Ht; [|exact I]. destruct Ht as (_ & _ & Hall).
    split; [apply (Hall _ _ _ Hin Ee Et), Hx | eapply nonzero_declared; eauto].
  Qed.

  Lemma tag_type_WT l tagt : entity_tag_type true sch l = Some tagt -> WT tagt.
  Proof. rewrite entity_tag_type_eq. intros H. apply tag_go_spec in H; [tauto | exact I]. Qed.

  Lemma has_tags_false st l t i ent s : store_ok sch st -> In t l -> entity_has_tags sch l = false ->
    lookup st (t, i) = Some ent -> rec_get s (e_tags ent) = None.
  Proof.
    intros Hst Hin Hh El. destruct (rec_get s (e_tags ent)) as [v|] eqn:Eg; [|reflexivity].
    destruct (store_tag _ _ _ _ _ _ Hst El Eg) as (te & tt & Ee & Et & _).
    unfold entity_has_tags in Hh. pose proof (existsb_false_all _ _ Hh _ Hin) as Hf. cbv beta in Hf. rewrite Ee, Et in Hf. discriminate.
  Qed.
End Attr.

(* ------------------------------------------------------------------ *)
(* Part 5: extension calls                                              *)
(* ------------------------------------------------------------------ *)
Lemma vtyped_decimal_inv v : vtyped v (xt "decimal") -> exists z, v = VDecimal z.
Proof. intros H. remember (xt "decimal") as t eqn:Et. destruct H; try discriminate; try (vm_compute in Et; discriminate). eauto. Qed.
Lemma vtyped_ipaddr_inv v : vtyped v (xt "ipaddr") -> exists b a p, v = VIP b a p.
Proof. intros H. remember (xt "ipaddr") as t eqn:Et. destruct H; try discriminate; try (vm_compute in Et; discriminate). eauto. Qed.
Lemma vtyped_datetime_inv v : vtyped v (xt "datetime") -> exists z, v = VDatetime z.
Proof. intros H. remember (xt "datetime") as t eqn:Et. destruct H; try discriminate; try (vm_compute in Et; discriminate). eauto. Qed.
Lemma vtyped_duration_inv v : vtyped v (xt "duration") -> exists z, v = VDuration z.
Proof. intros H. remember (xt "duration") as t eqn:Et. destruct H; try discriminate; try (vm_compute in Et; discriminate). eauto. Qed.

Lemma arg_subtype_eq t ty : arg_subtype t ty = true -> t = ty.
Proof.
  destruct ty; cbn [arg_subtype]; try discriminate.
  - destruct t; try discriminate. reflexivity.
  - destruct t; try discriminate. intros H. apply str_eqb_eq in H. subst. reflexivity.
Qed.

Definition res_ok (r : res) (t : cty) : Prop := match r with Ok v => vtyped v t | Err k => allowed_error k = true end.

Ltac nm_case H :=
  match type of H with
  | context [nm ?name ?s] =>
      let E := fresh "E" in destruct (nm name s) eqn:E;
      [ unfold nm in E; apply str_eqb_eq in E; subst name | ]
  end.

Ltac call_red :=
  match goal with
  | |- context [call_ext ?n ?rs] =>
      let r := eval lazy -[Z.ltb Z.leb Z.gtb Z.geb checkedAddI64 checkedSubI64 goquot gorem wrap64 parse_ip parse_decimal parse_datetime parse_duration
                           ip_is_loopback ip_is_multicast ip_contains to_date to_time MillisPerDay MillisPerHour MillisPerMinute MillisPerSecond] in (call_ext n rs) in
      change (call_ext n rs) with r
  end.

Ltac inv_arg H :=
  first [ apply vtyped_string_inv in H; destruct H as (? & ->)
        | apply vtyped_decimal_inv in H; destruct H as (? & ->)
        | apply vtyped_ipaddr_inv in H; destruct H as (? & ? & ? & ->)
        | apply vtyped_datetime_inv in H; destruct H as (? & ->)
        | apply vtyped_duration_inv in H; destruct H as (? & ->) ].

Lemma call_ext_sound name ctor argtys ret rs :
  ext_sig name = Some (ctor, argtys, ret) ->
  Forall2 res_ok rs argtys ->
  (ctor = true -> exists s, rs = [Ok (VString s)] /\ ext_literal_ok name s = true) ->
  res_ok (call_ext name rs) ret.
Proof.
  intros H HF Hc. unfold ext_sig in H.
  repeat (nm_case H; cbn [orb] in H; cbv iota in H;
    [ inversion H; subst ctor argtys ret; clear H | ]); try discriminate.
  all: try (destruct (Hc eq_refl) as (s & -> & Hlit); clear HF Hc;
            lazy -[parse_ip parse_decimal parse_datetime parse_duration] in Hlit; call_red; unfold res_ok;
            match type of Hlit with match ?p with Some _ => _ | None => _ end = _ => destruct p; [| discriminate] end;
            apply (@eq_ind_r _ _ (fun t => vtyped _ t) ltac:(constructor) _ eq_refl) || constructor; fail).
  all: clear Hc.
  all: repeat match goal with HF : Forall2 _ _ (_ :: _) |- _ => inversion HF as [|? ? ? ? ?Ha ?Hr]; subst; clear HF
                            | HF : Forall2 _ _ [] |- _ => inversion HF; subst; clear HF end.
  all: repeat match goal with Ha : res_ok ?r _ |- _ => destruct r as [?v|?k]; cbn [res_ok] in Ha; [inv_arg Ha|] end.
  all: call_red; unfold res_ok; try assumption; try (constructor; fail).
  all: try (apply vt_datetime || apply vt_duration || apply vt_long; fail).
  - unfold to_date. cbv zeta. match goal with |- context [checkedSubI64 ?a ?b] => destruct (checkedSubI64 a b) as [r [|]] end; [apply vt_datetime | reflexivity].
  - match goal with |- context [checkedAddI64 ?a ?b] => destruct (checkedAddI64 a b) as [r [|]] end; [apply vt_datetime | reflexivity].
  - match goal with |- context [checkedSubI64 ?a ?b] => destruct (checkedSubI64 a b) as [r [|]] end; [apply vt_duration | reflexivity].
Qed.
