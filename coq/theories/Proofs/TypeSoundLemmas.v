(* Lemmas for Proofs/TypeSoundProofs.v (strict-mode soundness of the expression type checker, C15).
   Part 1: association lists; well-formed types (WT: record keys pairwise distinct); strict least upper bounds are upper bounds (lub_sub).
   Part 2: capability keys are injective for attribute names shorter than 10^39 bytes (cap_key_inj).
   Part 3: the schema-level descendant search finds every type-level path (is_descendant_ty_complete, reusing the DFS proof of
           SchemaResolveProofs); run-time ancestors have ancestor types (reach_types); `in` on typed operands (do_in_total, do_in_false);
           the store hypothesis actions_closed.
   Part 4: schema_wf / tenv_wf; attribute lookup (get_attr_typed), `has` (has_attr_typed), tags (get_tag_typed, has_tags_false).
   Part 5: extension calls (call_ext_sound). *)
From Coq Require Import ZArith List Bool String Lia Relations Arith.
Import ListNotations.
From Cedar Require Import Base.Int64 Lang.Value Impl.Like Lang.Expr Impl.Text Impl.InSearch Impl.Eval Impl.TypeCheck Lang.TypeSound
  Impl.Decimal Impl.Duration Impl.Datetime Impl.IPAddr Generated.Tables Generated.Kernels
  Proofs.ValueProofs Proofs.InSearchProofs.
From Cedar Require Impl.SchemaResolve Proofs.SchemaResolveProofs Proofs.DecimalProofs Proofs.ParserRoundTrip.
Local Open Scope Z_scope.

(* ------------------------------------------------------------------ *)
(* Part 1a: association lists                                           *)
(* ------------------------------------------------------------------ *)
Lemma alookup_In {A} k (l : list (str * A)) v : alookup k l = Some v -> In (k, v) l.
Proof.
  induction l as [|[k' v'] l IH]; cbn [alookup]; [discriminate|].
  destruct (str_eqb k' k) eqn:E.
  - intros H. inversion H; subst. apply str_eqb_eq in E. subst. left; reflexivity.
  - intros H. right. apply IH, H.
Qed.

Lemma alookup_keys {A} k (l : list (str * A)) : alookup k l <> None <-> In k (map fst l).
Proof.
  induction l as [|[k' v'] l IH]; cbn [alookup map fst].
  - split; [congruence | intros []].
  - destruct (str_eqb k' k) eqn:E.
    + apply str_eqb_eq in E. subst. split; [intros _; left; reflexivity | discriminate].
    + apply str_eqb_neq in E. rewrite IH. split; [intros H; right; exact H | intros [H|H]; [congruence | exact H]].
Qed.

Lemma alookup_none_keys {A} k (l : list (str * A)) : alookup k l = None <-> ~ In k (map fst l).
Proof. rewrite <- alookup_keys. destruct (alookup k l); split; try congruence. intros H. exfalso. apply H. discriminate. Qed.

Lemma alookup_app {A} k (l1 l2 : list (str * A)) :
  alookup k (l1 ++ l2) = match alookup k l1 with Some v => Some v | None => alookup k l2 end.
Proof.
  induction l1 as [|[k' v'] l1 IH]; cbn [app alookup]; [reflexivity|]. destruct (str_eqb k' k); auto.
Qed.

Lemma rec_get_In {A} k (l : list (str * A)) v : rec_get k l = Some v -> In (k, v) l.
Proof.
  induction l as [|[k' v'] l IH]; cbn [rec_get]; [discriminate|].
  destruct (str_eqb k k') eqn:E.
  - intros H. inversion H; subst. apply str_eqb_eq in E. subst. left; reflexivity.
  - intros H. right. apply IH, H.
Qed.

Lemma rec_get_keys {A} k (l : list (str * A)) : rec_get k l <> None <-> In k (map fst l).
Proof.
  induction l as [|[k' v'] l IH]; cbn [rec_get map fst].
  - split; [congruence | intros []].
  - destruct (str_eqb k k') eqn:E.
    + apply str_eqb_eq in E. subst. split; [intros _; left; reflexivity | discriminate].
    + apply str_eqb_neq in E. rewrite IH. split; [intros H; right; exact H | intros [H|H]; [congruence | exact H]].
Qed.

Lemma smem_In x l : smem x l = true <-> In x l.
Proof.
  unfold smem. rewrite existsb_exists. split.
  - intros (y & Hy & E). apply str_eqb_eq in E. subst. exact Hy.
  - intros H. exists x. split; [exact H | apply str_eqb_refl].
Qed.

Lemma str_eqb_sym a b : str_eqb a b = str_eqb b a.
Proof.
  destruct (str_eqb a b) eqn:E.
  - apply str_eqb_eq in E. subst. symmetry. apply str_eqb_refl.
  - destruct (str_eqb b a) eqn:E2; [|reflexivity]. apply str_eqb_eq in E2. subst. rewrite str_eqb_refl in E. discriminate.
Qed.

Lemma existsb_false_all {A} (f : A -> bool) l : existsb f l = false -> forall x, In x l -> f x = false.
Proof.
  induction l as [|a l IH]; intros H x Hx; [destruct Hx|]. cbn [existsb] in H. apply orb_false_iff in H.
  destruct H as [H1 H2]. destruct Hx as [<-|Hx]; [exact H1 | apply IH; assumption].
Qed.

(* ------------------------------------------------------------------ *)
(* Part 1b: well-formed types                                           *)
(* ------------------------------------------------------------------ *)
Section TyAll.
  Variable PE : list str -> Prop.     (* on the name list of every entity type *)
  Variable PK : list str -> Prop.     (* on the key list of every record type *)
  Fixpoint ty_all (t : cty) : Prop :=
    match t with
    | CSet e => ty_all e
    | CRec l => PK (map fst l) /\
                (fix go (l : list (str * (cty * bool))) : Prop :=
                   match l with [] => True | (_, (x, _)) :: r => ty_all x /\ go r end) l
    | CEnt l => PE l
    | _ => True
    end.

  Lemma ty_all_rec l : ty_all (CRec l) <-> PK (map fst l) /\ Forall (fun kv => ty_all (fst (snd kv))) l.
  Proof.
    cbn [ty_all]. apply and_iff_compat_l.
    induction l as [|[k [x q]] l IH].
    - split; intros _; [constructor | exact I].
    - split.
      + intros [H1 H2]. constructor; [exact H1 | apply IH, H2].
      + intros H. inversion H; subst. split; [assumption | apply IH; assumption].
  Qed.

  Lemma ty_all_lookup l k t q : ty_all (CRec l) -> alookup k l = Some (t, q) -> ty_all t.
  Proof.
    intros H E. apply ty_all_rec in H. destruct H as [_ H]. apply alookup_In in E.
    rewrite Forall_forall in H. apply (H _ E).
  Qed.
End TyAll.

(* record keys pairwise distinct, at every depth: what the symmetric half of lub-subsumption needs *)
Definition WT : cty -> Prop := ty_all (fun _ => True) (fun ks => NoDup ks).

Lemma WT_rec l : WT (CRec l) <-> NoDup (map fst l) /\ Forall (fun kv => WT (fst (snd kv))) l.
Proof. apply ty_all_rec. Qed.

(* ------------------------------------------------------------------ *)
(* Part 1c: union of entity lubs                                        *)
(* ------------------------------------------------------------------ *)
Lemma sinsert_In x y l : In x (sinsert y l) <-> x = y \/ In x l.
Proof.
  induction l as [|z l IH]; cbn [sinsert].
  - cbn. intuition.
  - destruct (str_eqb y z) eqn:E.
    + apply str_eqb_eq in E. subst. cbn. intuition.
    + destruct (str_ltb y z).
      * cbn. intuition.
      * cbn [In]. rewrite IH. intuition.
Qed.

Lemma union_lub_In x a b : In x (union_lub a b) <-> In x a \/ In x b.
Proof.
  unfold union_lub. revert a. induction b as [|y b IH]; intros a; cbn [fold_left].
  - cbn. intuition.
  - rewrite IH, sinsert_In. cbn [In]. intuition.
Qed.

(* ------------------------------------------------------------------ *)
(* Part 1d: strict least upper bounds are upper bounds                  *)
(* ------------------------------------------------------------------ *)
Definition attrs := list (str * (cty * bool)).

Definition lub_go (f : nat) (rb : attrs) : attrs -> option attrs :=
  fix go (l : attrs) : option attrs :=
    match l with
    | [] => Some []
    | (k, (ta, qa)) :: r =>
        match alookup k rb with
        | Some (tb, qb) =>
            match lub true f ta tb with
            | Some t => option_map (cons (k, (t, qa && qb))) (go r)
            | None => None
            end
        | None => option_map (cons (k, (ta, false))) (go r)
        end
    end.

Definition same_keys_b (ra rb : attrs) : bool :=
  Nat.eqb (List.length ra) (List.length rb) &&
  forallb (fun kv : str * (cty * bool) => match alookup (fst kv) rb with Some _ => true | None => false end) ra.

Lemma lub_S_rec f ra rb :
  lub true (S f) (CRec ra) (CRec rb) =
  if negb (same_keys_b ra rb) then None else
  match lub_go f rb ra with
  | None => None
  | Some common =>
      Some (CRec (common ++ map (fun kv : str * (cty * bool) => (fst kv, (fst (snd kv), false)))
                                (filter (fun kv : str * (cty * bool) => match alookup (fst kv) ra with Some _ => false | None => true end) rb)))
  end.
Proof. reflexivity. Qed.

Lemma same_keys_spec ra rb : same_keys_b ra rb = true -> NoDup (map fst ra) ->
  (forall k, In k (map fst ra) <-> In k (map fst rb)).
Proof.
  unfold same_keys_b. intros H Hnd. apply andb_true_iff in H. destruct H as [Hlen Hall].
  apply Nat.eqb_eq in Hlen. rewrite forallb_forall in Hall.
  assert (I1 : incl (map fst ra) (map fst rb)).
  { intros k Hk. apply in_map_iff in Hk. destruct Hk as (kv & <- & Hkv). specialize (Hall kv Hkv). cbv beta in Hall.
    apply alookup_keys. destruct (alookup (fst kv) rb); [discriminate | discriminate]. }
  assert (I2 : incl (map fst rb) (map fst ra)).
  { apply NoDup_length_incl; [exact Hnd | rewrite !map_length; lia | exact I1]. }
  intros k. split; [apply I1 | apply I2].
Qed.

Definition sub (a c : cty) : Prop := forall v, vtyped v a -> vtyped v c.

Lemma lub_go_spec f rb
  (IH : forall a b c, lub true f a b = Some c -> WT a -> WT b -> WT c /\ sub a c /\ sub b c) :
  forall ra common, lub_go f rb ra = Some common ->
    Forall (fun kv => WT (fst (snd kv))) ra -> Forall (fun kv => WT (fst (snd kv))) rb ->
    (forall k, In k (map fst ra) -> alookup k rb <> None) ->
    map fst common = map fst ra /\ Forall (fun kv => WT (fst (snd kv))) common /\
    (forall k, match alookup k ra with
               | Some (ta, qa) => exists tb qb t, alookup k rb = Some (tb, qb) /\ alookup k common = Some (t, qa && qb) /\ sub ta t /\ sub tb t
               | None => alookup k common = None
               end).
Proof.
  induction ra as [|[k0 [ta0 qa0]] r IHr]; intros common Hgo Hwa Hwb Hin.
  - cbn in Hgo. inversion Hgo; subst. split; [reflexivity|]. split; [constructor|]. intros k. reflexivity.
  - cbn [lub_go] in Hgo. fold (lub_go f rb) in Hgo.
    destruct (alookup k0 rb) as [[tb0 qb0]|] eqn:Eb; [|exfalso; apply (Hin k0); [left; reflexivity | exact Eb]].
    destruct (lub true f ta0 tb0) as [t0|] eqn:El; [|discriminate].
    destruct (lub_go f rb r) as [common'|] eqn:Eg; [|discriminate].
    cbn [option_map] in Hgo. inversion Hgo; subst common. clear Hgo.
    inversion Hwa as [|x y Hw0 Hwr]; subst. cbn [fst snd] in Hw0.
    assert (Hwtb : WT tb0).
    { apply alookup_In in Eb. rewrite Forall_forall in Hwb. apply (Hwb _ Eb). }
    destruct (IH _ _ _ El Hw0 Hwtb) as (Hwt0 & Hsa & Hsb).
    destruct (IHr common' eq_refl Hwr Hwb) as (Hk & Hwc & Hspec).
    { intros k Hk. apply Hin. right. exact Hk. }
    split; [cbn [map fst]; f_equal; exact Hk|]. split; [constructor; [exact Hwt0 | exact Hwc]|].
    intros k. cbn [alookup]. destruct (str_eqb k0 k) eqn:E.
    + apply str_eqb_eq in E. subst k. exists tb0, qb0, t0. repeat split; auto.
    + apply Hspec.
Qed.

Lemma alookup_map_false k (l : attrs) t q :
  alookup k (map (fun kv : str * (cty * bool) => (fst kv, (fst (snd kv), false))) l) = Some (t, q) -> q = false.
Proof.
  induction l as [|[k' [t' q']] l IH]; cbn [map alookup fst snd]; [discriminate|].
  destruct (str_eqb k' k); [intros H; inversion H; reflexivity | exact IH].
Qed.

Lemma vtyped_rec_inv kvs attrs_ : vtyped (VRecord kvs) (CRec attrs_) ->
  Forall (fun kv : str * value => exists t q, alookup (fst kv) attrs_ = Some (t, q) /\ vtyped (snd kv) t) kvs /\
  (forall k t, alookup k attrs_ = Some (t, true) -> exists v, rec_get k kvs = Some v).
Proof. intros H. inversion H; subst. split; assumption. Qed.

Lemma vtyped_set_inv l e : vtyped (VSet l) (CSet e) -> Forall (fun v => vtyped v e) l.
Proof. intros H. inversion H; subst. assumption. Qed.

Lemma vtyped_never v : ~ vtyped v CNever.
Proof. intros H. inversion H. Qed.

Lemma vtyped_ent_inv v l : vtyped v (CEnt l) -> exists t i, v = VEntity t i /\ In t l.
Proof. intros H. inversion H; subst. eauto. Qed.
Lemma vtyped_rec_inv' v l : vtyped v (CRec l) -> exists kvs, v = VRecord kvs.
Proof. intros H. inversion H; subst. eauto. Qed.
Lemma vtyped_set_inv' v e : vtyped v (CSet e) -> exists l, v = VSet l /\ Forall (fun x => vtyped x e) l.
Proof. intros H. inversion H; subst. eauto. Qed.
Lemma vtyped_long_inv v : vtyped v CLong -> exists z, v = VLong z.
Proof. intros H. inversion H; subst. eauto. Qed.
Lemma vtyped_string_inv v : vtyped v CString -> exists s, v = VString s.
Proof. intros H. inversion H; subst. eauto. Qed.
Lemma vtyped_bool_inv v t : is_bool_ty t = true -> vtyped v t -> exists b, v = VBool b.
Proof. intros Ht H. destruct t; try discriminate; inversion H; subst; eauto. Qed.
Lemma vtyped_true_inv v : vtyped v CTrue -> v = VBool true.
Proof. intros H. inversion H; subst. reflexivity. Qed.
Lemma vtyped_false_inv v : vtyped v CFalse -> v = VBool false.
Proof. intros H. inversion H; subst. reflexivity. Qed.

Theorem lub_sub : forall f a b c, lub true f a b = Some c -> WT a -> WT b -> WT c /\ sub a c /\ sub b c.
Proof.
  induction f as [|f IH]; intros a b c H Ha Hb; [discriminate|].
  assert (Hnever : forall x, sub CNever x) by (intros x v Hv; exfalso; exact (vtyped_never _ Hv)).
  assert (Hrefl : forall x, sub x x) by (intros x v Hv; exact Hv).
  destruct b as [| | | | | |eb|rb|lb|nb].
  - (* b = CNever *) cbn in H. inversion H; subst. auto.
  - destruct a; cbn in H; inversion H; subst; repeat split; auto; intros v Hv; inversion Hv; subst; constructor.
  - destruct a; cbn in H; inversion H; subst; repeat split; auto; intros v Hv; inversion Hv; subst; constructor.
  - destruct a; cbn in H; inversion H; subst; repeat split; auto; intros v Hv; inversion Hv; subst; constructor.
  - destruct a; cbn in H; inversion H; subst; repeat split; auto.
  - destruct a; cbn in H; inversion H; subst; repeat split; auto.
  - (* CSet *)
    destruct a as [| | | | | |ea|ra|la|na]; cbn [lub] in H; try discriminate.
    + inversion H; subst. auto.
    + destruct (lub true f ea eb) as [e|] eqn:E; [|discriminate]. cbn in H. inversion H; subst.
      destruct (IH _ _ _ E Ha Hb) as (Hw & S1 & S2). split; [exact Hw|].
      split; intros v Hv; inversion Hv; subst; constructor; eapply Forall_impl; try eassumption; cbv beta; auto.
  - (* CRec *)
    destruct a as [| | | | | |ea|ra|la|na]; try (cbn [lub] in H; discriminate).
    + cbn [lub] in H. inversion H; subst. auto.
    + rewrite lub_S_rec in H. destruct (same_keys_b ra rb) eqn:Esk; [|discriminate]. cbn [negb] in H.
      destruct (lub_go f rb ra) as [common|] eqn:Eg; [|discriminate].
      apply WT_rec in Ha. destruct Ha as [Hnda Hwa]. apply WT_rec in Hb. destruct Hb as [Hndb Hwb].
      pose proof (same_keys_spec _ _ Esk Hnda) as Hkeys.
      assert (Hex : filter (fun kv : str * (cty * bool) => match alookup (fst kv) ra with Some _ => false | None => true end) rb = []).
      { assert (G : forall l, incl l rb -> filter (fun kv : str * (cty * bool) => match alookup (fst kv) ra with Some _ => false | None => true end) l = []).
        { induction l as [|kv l IHl]; intros Hi; [reflexivity|]. cbn [filter].
          assert (Hk : In (fst kv) (map fst ra)).
          { apply Hkeys. apply in_map. apply Hi. left; reflexivity. }
          apply alookup_keys in Hk. destruct (alookup (fst kv) ra); [|congruence].
          apply IHl. intros x Hx. apply Hi. right; exact Hx. }
        apply G, incl_refl. }
      rewrite Hex in H. cbn [map] in H. rewrite app_nil_r in H. inversion H; subst c. clear H Hex.
      destruct (lub_go_spec f rb IH ra common Eg Hwa Hwb) as (Hk & Hwc & Hspec).
      { intros k Hk. apply alookup_keys. apply Hkeys. exact Hk. }
      split; [apply WT_rec; split; [rewrite Hk; exact Hnda | exact Hwc]|].
      split; intros v Hv; inversion Hv as [| | | | | |  |kvs at_ HF HR| | | |]; subst; constructor.
      * rewrite Forall_forall in HF |- *. intros kv Hkv. destruct (HF kv Hkv) as (t & q & El & Ht).
        specialize (Hspec (fst kv)). rewrite El in Hspec. destruct Hspec as (tb & qb & t' & _ & Ec & S1 & _).
        exists t', (q && qb)%bool. split; [exact Ec | apply S1, Ht].
      * intros k t Ek. specialize (Hspec k). destruct (alookup k ra) as [[ta qa]|] eqn:Ea.
        -- destruct Hspec as (tb & qb & t' & _ & Ec & _). rewrite Ec in Ek. inversion Ek; subst.
           apply andb_true_iff in H1. destruct H1 as [-> _]. apply (HR _ _ Ea).
        -- congruence.
      * rewrite Forall_forall in HF |- *. intros kv Hkv. destruct (HF kv Hkv) as (t & q & El & Ht).
        assert (Hka : alookup (fst kv) ra <> None).
        { apply alookup_keys, Hkeys, alookup_keys. congruence. }
        specialize (Hspec (fst kv)). destruct (alookup (fst kv) ra) as [[ta qa]|]; [|congruence].
        destruct Hspec as (tb & qb & t' & Eb & Ec & _ & S2). rewrite El in Eb. inversion Eb; subst.
        exists t', (qa && qb)%bool. split; [exact Ec | apply S2, Ht].
      * intros k t Ek. specialize (Hspec k). destruct (alookup k ra) as [[ta qa]|] eqn:Ea.
        -- destruct Hspec as (tb & qb & t' & Eb & Ec & _). rewrite Ec in Ek. inversion Ek; subst.
           apply andb_true_iff in H1. destruct H1 as [_ ->]. apply (HR _ _ Eb).
        -- congruence.
  - (* CEnt *)
    destruct a as [| | | | | |ea|ra|la|na]; cbn [lub] in H; try discriminate; inversion H; subst; auto.
    split; [exact I|]. split; intros v Hv; inversion Hv; subst; constructor; apply union_lub_In; auto.
  - (* CExt *)
    destruct a as [| | | | | |ea|ra|la|na]; cbn [lub] in H; try discriminate; try (inversion H; subst; auto; fail).
    destruct (str_eqb na nb) eqn:E; [|discriminate]. apply str_eqb_eq in E. subst. inversion H; subst. auto.
Qed.

Corollary lub'_sub a b c : lub' true a b = Some c -> WT a -> WT b -> WT c /\ sub a c /\ sub b c.
Proof. unfold lub'. apply lub_sub. Qed.

(* which arguments give a singleton-boolean or empty lub *)
Lemma lub_true_never f a b c : lub true f a b = Some c -> (c = CTrue \/ c = CNever) -> (b = CTrue \/ b = CNever).
Proof.
  destruct f as [|f]; [discriminate|]. intros H Hc.
  destruct b as [| | | | | |eb|rb|lb|nb]; auto.
  - destruct a as [| | | | | |ea|ra|la|na]; cbn in H; inversion H; subst; destruct Hc; discriminate.
  - destruct a as [| | | | | |ea|ra|la|na]; cbn in H; inversion H; subst; destruct Hc; discriminate.
  - destruct a as [| | | | | |ea|ra|la|na]; cbn in H; inversion H; subst; destruct Hc; discriminate.
  - destruct a as [| | | | | |ea|ra|la|na]; cbn in H; inversion H; subst; destruct Hc; discriminate.
  - destruct a as [| | | | | |ea|ra|la|na]; cbn [lub] in H; try discriminate; [inversion H; subst; destruct Hc; discriminate|].
    destruct (lub true f ea eb); cbn in H; inversion H; subst; destruct Hc; discriminate.
  - destruct a as [| | | | | |ea|ra|la|na]; try (cbn [lub] in H; discriminate); [cbn [lub] in H; inversion H; subst; destruct Hc; discriminate|].
    rewrite lub_S_rec in H. destruct (negb (same_keys_b ra rb)); [discriminate|].
    destruct (lub_go f rb ra); inversion H; subst; destruct Hc; discriminate.
  - destruct a as [| | | | | |ea|ra|la|na]; cbn [lub] in H; try discriminate; inversion H; subst; destruct Hc; discriminate.
  - destruct a as [| | | | | |ea|ra|la|na]; cbn [lub] in H; try discriminate; try (inversion H; subst; destruct Hc; discriminate).
    destruct (str_eqb na nb); inversion H; subst; destruct Hc; discriminate.
Qed.

(* ------------------------------------------------------------------ *)
(* Part 2: capability keys are injective (for attribute names shorter   *)
(* than 10^39 bytes on one side: Text.print_nat prints at most 40 digits) *)
(* ------------------------------------------------------------------ *)
Lemma digits_of_full : forall f z acc, (1 <= f)%nat -> 10 ^ (Z.of_nat f - 1) <= z ->
  List.length (digits_of f z acc) = (f + List.length acc)%nat.
Proof.
  induction f as [|f IH]; intros z acc Hf Hz; [lia|].
  cbn [digits_of]. destruct f as [|f'].
  - destruct (z <? 10); cbn [digits_of List.length]; lia.
  - assert (Hp : 10 ^ (Z.of_nat (S (S f')) - 1) = 10 * 10 ^ (Z.of_nat (S f') - 1)).
    { replace (Z.of_nat (S (S f')) - 1) with (Z.succ (Z.of_nat (S f') - 1)) by lia. rewrite Z.pow_succ_r by lia. reflexivity. }
    rewrite Hp in Hz.
    assert (Hpos : 1 <= 10 ^ (Z.of_nat (S f') - 1)) by (apply Z.lt_pred_le; apply Z.pow_pos_nonneg; lia).
    destruct (Z.ltb_spec z 10) as [Hlt|Hge]; [lia|].
    rewrite IH; [cbn [List.length]; lia | lia |].
    apply Z.div_le_lower_bound; lia.
Qed.

Definition short_key (k : str) : bool := Z.of_nat (List.length k) <? 10 ^ 39.

Lemma print_nat_inj_short n1 n2 : 0 <= n1 < 10 ^ 39 -> 0 <= n2 -> print_nat n1 = print_nat n2 -> n1 = n2.
Proof.
  intros H1 H2 E.
  assert (L1 : (List.length (print_nat n1) <= 39)%nat) by (apply DecimalProofs.print_nat_length; [exact H1 | lia]).
  destruct (Z.lt_ge_cases n2 (10 ^ 40)) as [Hlt|Hge].
  - assert (P1 : parse_digits (print_nat n1) = Some n1) by (apply DecimalProofs.parse_print_nat; lia).
    assert (P2 : parse_digits (print_nat n2) = Some n2) by (apply DecimalProofs.parse_print_nat; lia).
    rewrite E in P1. congruence.
  - exfalso. assert (L2 : List.length (print_nat n2) = 40%nat).
    { unfold print_nat. rewrite digits_of_full; [reflexivity | lia |]. change (Z.of_nat 40 - 1) with 39.
      assert (10 ^ 39 <= 10 ^ 40) by (apply Z.pow_le_mono_r; lia). lia. }
    rewrite E in L1. lia.
Qed.

Definition seg (k : str) : str := [46] ++ s_of "#" ++ print_nat (Z.of_nat (List.length k)) ++ [58] ++ k.

Lemma split_digits : forall d d' X X', Forall (fun c => is_digit c = true) d -> Forall (fun c => is_digit c = true) d' ->
  d ++ 58 :: X = d' ++ 58 :: X' -> d = d' /\ X = X'.
Proof.
  induction d as [|c d IH]; intros d' X X' Hd Hd' E.
  - destruct d' as [|c' d']; cbn in E.
    + inversion E. auto.
    + inversion E; subst. inversion Hd'; subst. discriminate.
  - destruct d' as [|c' d']; cbn in E.
    + inversion E; subst. inversion Hd; subst. discriminate.
    + inversion E; subst. inversion Hd; inversion Hd'; subst.
      destruct (IH d' X X') as [-> ->]; auto.
Qed.

Lemma app_inj_length {A} (a a' b b' : list A) : List.length a = List.length a' -> a ++ b = a' ++ b' -> a = a' /\ b = b'.
Proof.
  revert a'. induction a as [|x a IH]; intros [|x' a'] L E; cbn in *; try discriminate; auto.
  inversion E; subst. destruct (IH a') as [-> ->]; auto.
Qed.

Lemma seg_inj k k' R R' : short_key k = true -> seg k ++ R = seg k' ++ R' -> k = k' /\ R = R'.
Proof.
  unfold seg, short_key. intros Hs E. apply Z.ltb_lt in Hs.
  change (s_of "#") with [35] in E. cbn [app] in E. inversion E as [E1]. clear E.
  rewrite <- !app_assoc in E1. cbn [app] in E1.
  apply split_digits in E1; try apply ParserRoundTrip.print_nat_all_digits.
  destruct E1 as [Ed Ek].
  apply print_nat_inj_short in Ed; [|lia|lia].
  apply Nat2Z.inj in Ed. apply app_inj_length in Ek; auto.
Qed.

Lemma seg_cons k : exists r, seg k = 46 :: r.
Proof. unfold seg. cbn [app]. eexists; reflexivity. Qed.

Fixpoint epath (e : expr) : option (var * list str) :=
  match e with
  | EVar x => Some (x, [])
  | EAccess a k => match epath a with Some (x, ks) => Some (x, ks ++ [k]) | None => None end
  | _ => None
  end.

Lemma cap_key_path e key : cap_key e = Some key ->
  exists x ks, epath e = Some (x, ks) /\ key = var_name x ++ List.concat (map seg ks).
Proof.
  revert key. induction e; intros key H; cbn [cap_key] in H; try discriminate.
  - inversion H; subst. exists x, []. cbn. rewrite app_nil_r. auto.
  - destruct (cap_key e) as [p|] eqn:E; [|discriminate]. inversion H; subst.
    destruct (IHe p eq_refl) as (x & ks & Ep & ->). exists x, (ks ++ [k]). cbn [epath]. rewrite Ep. split; [reflexivity|].
    rewrite map_app, concat_app. cbn [map List.concat]. rewrite app_nil_r. unfold seg. rewrite <- !app_assoc. reflexivity.
Qed.

Lemma epath_inj : forall e e' pp, epath e = Some pp -> epath e' = Some pp -> e = e'.
Proof.
  induction e; intros e' pp H H'; cbn [epath] in H; try discriminate.
  - inversion H; subst. destruct e'; cbn [epath] in H'; try discriminate.
    + inversion H'; reflexivity.
    + destruct (epath e') as [[y ks]|]; [|discriminate]. inversion H'. destruct ks; discriminate.
  - destruct (epath e) as [[x ks]|] eqn:E; [|discriminate]. inversion H; subst.
    destruct e'; cbn [epath] in H'; try discriminate.
    + inversion H'. destruct ks; discriminate.
    + destruct (epath e') as [[y ks']|] eqn:E'; [|discriminate]. inversion H'; subst.
      apply app_inj_tail in H2. destruct H2 as [-> ->]. f_equal. eapply IHe; eauto.
Qed.

Fixpoint short_path (e : expr) : bool :=
  match e with
  | EAccess a k => short_key k && short_path a
  | _ => true
  end.

Lemma epath_short e x ks : epath e = Some (x, ks) -> short_path e = true -> forallb short_key ks = true.
Proof.
  revert x ks. induction e; intros x0 ks H Hs; cbn [epath] in H; try discriminate.
  - inversion H; reflexivity.
  - destruct (epath e) as [[y ks']|] eqn:E; [|discriminate]. inversion H; subst.
    cbn [short_path] in Hs. apply andb_true_iff in Hs. destruct Hs as [Hk Hs].
    rewrite forallb_app. rewrite (IHe _ _ eq_refl Hs). cbn. rewrite Hk. reflexivity.
Qed.

Lemma segs_inj : forall ks ks', forallb short_key ks = true -> List.concat (map seg ks) = List.concat (map seg ks') -> ks = ks'.
Proof.
  induction ks as [|k ks IH]; intros [|k' ks'] Hs E; cbn [map List.concat] in E.
  - reflexivity.
  - destruct (seg_cons k') as [r Hr]. rewrite Hr in E. discriminate.
  - destruct (seg_cons k) as [r Hr]. rewrite Hr in E. discriminate.
  - cbn [forallb] in Hs. apply andb_true_iff in Hs. destruct Hs as [Hk Hs].
    apply seg_inj in E; [|exact Hk]. destruct E as [-> E]. f_equal. apply IH; assumption.
Qed.

Lemma segs_head ks : List.concat (map seg ks) = [] \/ exists r, List.concat (map seg ks) = 46 :: r.
Proof.
  destruct ks as [|k ks]; [left; reflexivity|]. right. cbn [map List.concat]. destruct (seg_cons k) as [r ->]. eexists; reflexivity.
Qed.

Lemma var_name_inj x y S1 S2 : (S1 = [] \/ exists r, S1 = 46 :: r) -> (S2 = [] \/ exists r, S2 = 46 :: r) ->
  var_name x ++ S1 = var_name y ++ S2 -> x = y /\ S1 = S2.
Proof.
  intros H1 H2 E.
  destruct x, y; cbn in E; try discriminate;
    try (repeat (match type of E with _ :: _ = _ :: _ => inversion E as [E']; clear E; rename E' into E end); auto; fail);
    exfalso;
    repeat (match type of E with (_ :: _) = (_ :: _) => inversion E as [E']; clear E; rename E' into E end);
    destruct H1 as [->|[r1 ->]]; destruct H2 as [->|[r2 ->]]; discriminate.
Qed.

(* one side short is enough: the other side is ANY expression with the same key *)
Theorem cap_key_inj a b key : short_path a = true -> cap_key a = Some key -> cap_key b = Some key -> b = a.
Proof.
  intros Hs Ha Hb.
  destruct (cap_key_path _ _ Ha) as (x & ks & Pa & Ka). destruct (cap_key_path _ _ Hb) as (y & ks' & Pb & Kb).
  rewrite Ka in Kb. apply var_name_inj in Kb; try apply segs_head. destruct Kb as [-> Kb].
  apply segs_inj in Kb; [|eapply epath_short; eauto]. subst ks'.
  eapply epath_inj; eauto.
Qed.

(* ------------------------------------------------------------------ *)
(* Part 3: the schema-level descendant search finds every type-level    *)
(* path; run-time ancestors have ancestor types                         *)
(* ------------------------------------------------------------------ *)
Module SR := Cedar.Impl.SchemaResolve.
Module SRP := Cedar.Proofs.SchemaResolveProofs.

Section DescC.
  Variable sch : tschema.
  Definition tparents (c : str) : list str := match entity_of sch c with Some e => te_parents e | None => [] end.
  Definition tedge (a p : str) : Prop := In p (tparents a).
  Definition declared : list str := map fst (ts_entities sch).

  Lemma tparents_declared c p : In p (tparents c) -> In c declared.
  Proof.
    unfold tparents, entity_of, declared. destruct (alookup c (ts_entities sch)) eqn:E; [|intros []].
    intros _. apply alookup_keys. congruence.
  Qed.

  Definition dgo (f : nat) (anc : str) : list str -> list str -> bool * list str :=
    fix go (ps : list str) (vis : list str) : bool * list str :=
      match ps with
      | [] => (false, vis)
      | p :: r => if str_eqb p anc then (true, vis)
                  else let '(b, v) := desc sch f p anc vis in if b then (true, v) else go r v
      end.

  Lemma desc_S f child anc vis :
    desc sch (S f) child anc vis = if smem child vis then (false, vis) else dgo f anc (tparents child) (child :: vis).
  Proof. reflexivity. Qed.

  Lemma desc_link : forall fuel child anc vis r,
    SR.is_descendant fuel tparents child anc vis = Some r -> desc sch fuel child anc vis = r.
  Proof.
    induction fuel as [|f IH]; intros child anc vis r H; [discriminate|].
    rewrite SRP.is_desc_S in H. rewrite desc_S. change (SR.mem child vis) with (smem child vis) in H.
    destruct (smem child vis); [inversion H; reflexivity|].
    generalize dependent (child :: vis). generalize (tparents child).
    induction l as [|p ps IHps]; intros v H; cbn [SRP.desc_go dgo] in *.
    - inversion H; reflexivity.
    - destruct (str_eqb p anc); [inversion H; reflexivity|].
      destruct (SR.is_descendant f tparents p anc v) as [[b1 v1]|] eqn:E; [|discriminate].
      rewrite (IH _ _ _ _ E). destruct b1; [inversion H; reflexivity|]. apply IHps, H.
  Qed.

  Lemma desc_term' anc : forall fuel child vis, (SRP.unvisited declared vis + 1 <= fuel)%nat ->
    exists b v', SR.is_descendant fuel tparents child anc vis = Some (b, v') /\ incl vis v'.
  Proof.
    induction fuel as [|f IH]; intros child vis Hf; [lia|].
    rewrite SRP.is_desc_S. destruct (SR.mem child vis) eqn:Em.
    - exists false, vis. split; [reflexivity | apply incl_refl].
    - assert (G : forall ps v, (SRP.unvisited declared v + 1 <= f)%nat ->
                  exists b v', SRP.desc_go (fun p v => SR.is_descendant f tparents p anc v) anc ps v = Some (b, v') /\ incl v v').
      { induction ps as [|p r IHr]; intros v Hv.
        - cbn [SRP.desc_go]. exists false, v. split; [reflexivity | apply incl_refl].
        - cbn [SRP.desc_go]. destruct (str_eqb p anc).
          + exists true, v. split; [reflexivity | apply incl_refl].
          + destruct (IH p v Hv) as (b1 & v1 & E1 & M1).
            rewrite E1. destruct b1.
            * exists true, v1. split; [reflexivity | exact M1].
            * destruct (IHr v1) as (b2 & v2 & E2 & M2).
              -- pose proof (SRP.unvisited_mono declared _ _ M1). lia.
              -- exists b2, v2. split; [exact E2 | eapply incl_tran; eauto]. }
      destruct (tparents child) as [|p0 ps0] eqn:Ep.
      + cbn [SRP.desc_go]. exists false, (child :: vis). split; [reflexivity | intros x Hx; right; exact Hx].
      + assert (Hc : In child declared) by (apply (tparents_declared child p0); rewrite Ep; left; reflexivity).
        assert (Hlt : (SRP.unvisited declared (child :: vis) < SRP.unvisited declared vis)%nat).
        { apply (SRP.filter_length_strict _ _ _ child); auto.
          - intros x _ Hx. destruct (SR.mem x vis) eqn:E; [|reflexivity].
            apply SRP.mem_In in E. assert (E' : SR.mem x (child :: vis) = true) by (apply SRP.mem_In; right; exact E).
            rewrite E' in Hx. discriminate.
          - rewrite Em. reflexivity.
          - assert (E' : SR.mem child (child :: vis) = true) by (apply SRP.mem_In; left; reflexivity). rewrite E'. reflexivity. }
        destruct (G (p0 :: ps0) (child :: vis) ltac:(lia)) as (b & v' & E & M).
        exists b, v'. split; [exact E|]. intros x Hx. apply M. right; exact Hx.
  Qed.

  (* completeness of is_descendant_ty: a type-level path is always found *)
  Theorem is_descendant_ty_complete child anc : clos_trans _ tedge child anc -> is_descendant_ty sch child anc = true.
  Proof.
    intros Hp. unfold is_descendant_ty.
    destruct (desc_term' anc (S (List.length (ts_entities sch))) child []) as (b & v' & E & _).
    { pose proof (SRP.filter_length_le (fun x => negb (SR.mem x [])) declared) as Hl. unfold SRP.unvisited.
      unfold declared in *. rewrite map_length in Hl. lia. }
    rewrite (desc_link _ _ _ _ _ E). cbn [fst].
    apply (SRP.is_descendant_correct_gen tparents anc _ _ _ _ E). exact Hp.
  Qed.

  (* The store hypothesis `in` needs.  entity_ok constrains the parents of an entity whose type is declared (parent types are declared
     parent types) or enumerated (no parents), but not of the others.  Validator.Entity rejects entities of unknown types, so "neither
     declared nor enumerated" means: an ACTION entity.  The type checker types `a in b` as False when no type-level path leads from
     a's type to b's; for an action-typed `a` that does not syntactically denote an action (TUnk otherwise) this is only right if
     action groups have the same entity type as their members: *)
  Definition actions_closed (st : store) : Prop :=
    forall u e p, lookup st u = Some e -> entity_of sch (fst u) = None -> smem (fst u) (ts_enums sch) = false ->
      In p (e_parents e) -> fst p = fst u.

  Lemma reach_types st a b : store_ok sch st -> actions_closed st -> reach_st st a b ->
    fst a = fst b \/ clos_trans _ tedge (fst a) (fst b).
  Proof.
    intros Hst Hup Hr. induction Hr as [|y z Hr IH He]; [left; reflexivity|].
    destruct He as (ps & Hps & Hz). unfold parents_of in Hps.
    destruct (lookup st y) as [e|] eqn:El; [|discriminate]. cbn in Hps. inversion Hps; subst ps.
    pose proof (Hst _ _ El) as Hok. unfold entity_ok in Hok.
    destruct (alookup (fst y) (ts_entities sch)) as [te|] eqn:Et.
    - destruct Hok as (_ & _ & Hpar). specialize (Hpar _ Hz).
      assert (Hedge : tedge (fst y) (fst z)).
      { unfold tedge, tparents, entity_of. rewrite Et. exact Hpar. }
      right. destruct IH as [->|IH]; [apply t_step; exact Hedge | eapply t_trans; [exact IH | apply t_step; exact Hedge]].
    - destruct Hok as (_ & _ & Henum). destruct (smem (fst y) (ts_enums sch)) eqn:Es.
      + rewrite (Henum eq_refl) in Hz. destruct Hz.
      + rewrite (Hup _ _ _ El Et Es Hz). exact IH.
  Qed.

  Lemma any_descendant_complete ll r lt rt : In lt ll -> In rt r -> (lt = rt \/ clos_trans _ tedge lt rt) ->
    any_descendant sch ll r = true.
  Proof.
    intros Hl Hr H. unfold any_descendant. apply existsb_exists. exists lt. split; [exact Hl|].
    apply existsb_exists. exists rt. split; [exact Hr|]. apply orb_true_iff.
    destruct H as [->|H]; [left; apply str_eqb_refl | right; apply is_descendant_ty_complete, H].
  Qed.
End DescC.

(* do_in on typed operands *)
Lemma all_entities_typed l r : Forall (fun v => vtyped v (CEnt r)) l ->
  exists us, all_entities l = Some us /\ Forall (fun u => In (fst u) r) us.
Proof.
  induction l as [|v l IH]; intros H.
  - exists []. split; [reflexivity | constructor].
  - inversion H as [|x y Hv Hl]; subst. destruct (IH Hl) as (us & E & F).
    inversion Hv; subst. cbn [all_entities]. rewrite E. exists ((t, i) :: us). split; [reflexivity|].
    constructor; [assumption | exact F].
Qed.

Lemma all_entities_any l : Forall (fun v => exists t i, v = VEntity t i) l -> exists us, all_entities l = Some us.
Proof.
  induction l as [|v l IH]; intros H; [exists []; reflexivity|].
  inversion H as [|x y (t & i & ->) Hl]; subst. destruct (IH Hl) as (us & E). cbn [all_entities]. rewrite E. eexists; reflexivity.
Qed.

(* rhs of `in`: typed entity or set of entities *)
Lemma do_in_total st u w rt : is_ent_or_set_of_ent rt = true -> vtyped w rt -> exists b, do_in st u w = Ok (VBool b).
Proof.
  intros Hrt Hw. destruct rt as [| | | | | |e| |l|]; try discriminate.
  - destruct e as [| | | | | | | |l|]; try discriminate.
    + inversion Hw; subst. destruct l as [|x l]; [|inversion H1 as [|? ? Hx]; subst; exfalso; exact (vtyped_never _ Hx)].
      cbn [do_in all_entities]. destruct (eval_in_set_correct st u []) as (r & E & _). rewrite E. exists r. reflexivity.
    + inversion Hw; subst. destruct (all_entities_typed _ _ H1) as (us & E & _). cbn [do_in]. rewrite E.
      destruct (eval_in_set_correct st u us) as (r & E2 & _). rewrite E2. exists r. reflexivity.
  - inversion Hw; subst. cbn [do_in]. destruct (eval_in_one_correct st u (t, i)) as (r & E & _). rewrite E. exists r. reflexivity.
Qed.

(* typed CFalse: no type-level relation between the operand types *)
Lemma do_in_false sch st t i w ll rt r :
  store_ok sch st -> actions_closed sch st -> In t ll ->
  (rt = CEnt r \/ rt = CSet (CEnt r)) -> vtyped w rt -> any_descendant sch ll r = false ->
  do_in st (t, i) w = Ok (VBool false).
Proof.
  intros Hst Hup Ht Hrt Hw Hany.
  destruct Hrt as [-> | ->].
  - inversion Hw; subst. cbn [do_in]. destruct (eval_in_one_correct st (t, i) (t0, i0)) as (b & E & Hiff). rewrite E.
    destruct b; [|reflexivity]. exfalso.
    assert (Hr : reach_st st (t, i) (t0, i0)) by (apply Hiff; reflexivity).
    apply (reach_types sch) in Hr; auto. cbn [fst] in Hr.
    rewrite (any_descendant_complete sch ll r t t0 Ht H1 Hr) in Hany. discriminate.
  - inversion Hw; subst. destruct (all_entities_typed _ _ H1) as (us & E & F). cbn [do_in]. rewrite E.
    destruct (eval_in_set_correct st (t, i) us) as (b & E2 & Hiff). rewrite E2.
    destruct b; [|reflexivity]. exfalso.
    destruct (proj1 Hiff eq_refl) as (u' & Hu' & Hr). rewrite Forall_forall in F. specialize (F _ Hu').
    apply (reach_types sch) in Hr; auto. cbn [fst] in Hr.
    rewrite (any_descendant_complete sch ll r t (fst u') Ht F Hr) in Hany. discriminate.
Qed.

(* ------------------------------------------------------------------ *)
(* Part 4: well-formed schemas; attribute lookup, `has`, tags           *)
(* ------------------------------------------------------------------ *)
(* the attribute and tag types of every declared entity type have pairwise distinct record keys (at every depth), and the empty name
   is not a declared entity type.  Only the FIRST declaration of a name counts (alookup). *)
Definition schema_wf (sch : tschema) : Prop :=
  entity_of sch [] = None /\
  forall n te, entity_of sch n = Some te ->
    (forall k t q, alookup k (te_shape te) = Some (t, q) -> WT t) /\
    (forall tt, te_tags te = Some tt -> WT tt).

(* the context type has pairwise distinct keys (at every depth) *)
Definition tenv_wf (sch : tschema) (tv : tenv) : Prop := WT (CRec (tv_context tv)).

Lemma sub_trans a b c : sub a b -> sub b c -> sub a c.
Proof. intros H1 H2 v Hv. apply H2, H1, Hv. Qed.

Lemma get_attr_rec kvs l k at_ req : vtyped (VRecord kvs) (CRec l) -> alookup k l = Some (at_, req) ->
  match rec_get k kvs with Some x => vtyped x at_ | None => req = false end.
Proof.
  intros H E. apply vtyped_rec_inv in H. destruct H as [HF HR].
  destruct (rec_get k kvs) as [x|] eqn:Eg.
  - apply rec_get_In in Eg. rewrite Forall_forall in HF. destruct (HF _ Eg) as (t & q & El & Ht). cbn [fst snd] in *.
    rewrite E in El. inversion El; subst. exact Ht.
  - destruct req; [|reflexivity]. destruct (HR _ _ E) as (v & Hv). congruence.
Qed.

Lemma has_attr_rec_closed kvs l k : vtyped (VRecord kvs) (CRec l) -> alookup k l = None -> rec_get k kvs = None.
Proof.
  intros H E. apply vtyped_rec_inv in H. destruct H as [HF _].
  destruct (rec_get k kvs) as [x|] eqn:Eg; [|reflexivity].
  apply rec_get_In in Eg. rewrite Forall_forall in HF. destruct (HF _ Eg) as (t & q & El & _). cbn [fst] in El. congruence.
Qed.

Section Attr.
  Variable sch : tschema.
  Hypothesis Hwf : schema_wf sch.

  Definition ea_go (attr : str) : list str -> option (cty * bool) -> option (cty * bool) :=
    fix go (l : list str) (acc : option (cty * bool)) : option (cty * bool) :=
       match l with
       | [] => acc
       | et :: r =>
           match entity_of sch et with
           | None => None
           | Some e =>
               match alookup attr (te_shape e) with
               | None => None
               | Some (t, q) =>
                   match acc with
                   | None => go r (Some (t, q))
                   | Some (ta, qa) => match lub' true ta t with Some tl => go r (Some (tl, qa && q)) | None => None end
                   end
               end
           end
       end.

  Lemma lookup_entity_attr_eq l attr : lookup_entity_attr true sch l attr = ea_go attr l None.
  Proof. reflexivity. Qed.

  Lemma ea_go_spec attr : forall l acc at_ req, ea_go attr l acc = Some (at_, req) ->
    match acc with Some (ta, _) => WT ta | None => True end ->
    WT at_ /\
    match acc with Some (ta, qa) => sub ta at_ /\ (req = true -> qa = true) | None => l <> [] end /\
    forall et, In et l -> exists te t q, entity_of sch et = Some te /\ alookup attr (te_shape te) = Some (t, q) /\ sub t at_ /\ (req = true -> q = true).
  Proof.
    induction l as [|et r IH]; intros acc at_ req H Hacc.
    - cbn in H. subst acc. split; [exact Hacc|]. split; [split; [intros v Hv; exact Hv | auto] | intros et []].
    - cbn [ea_go] in H. fold (ea_go attr) in H.
      destruct (entity_of sch et) as [e|] eqn:Ee; [|discriminate].
      destruct (alookup attr (te_shape e)) as [[t q]|] eqn:Ea; [|discriminate].
      assert (Hwt : WT t) by (destruct Hwf as [_ Hw]; destruct (Hw _ _ Ee) as [Hs _]; apply (Hs _ _ _ Ea)).
      destruct acc as [[ta qa]|].
      + destruct (lub' true ta t) as [tl|] eqn:El; [|discriminate].
        destruct (lub'_sub _ _ _ El Hacc Hwt) as (Hwl & S1 & S2).
        destruct (IH _ _ _ H Hwl) as (Hwa & [S3 Hq] & Hall).
        split; [exact Hwa|]. split.
        * split; [eapply sub_trans; eauto | intros Hr; specialize (Hq Hr); apply andb_true_iff in Hq; tauto].
        * intros et' [<-|Hin]; [|apply Hall, Hin]. exists e, t, q. repeat split; auto.
          -- eapply sub_trans; eauto.
          -- intros Hr; specialize (Hq Hr); apply andb_true_iff in Hq; tauto.
      + destruct (IH _ _ _ H Hwt) as (Hwa & [S3 Hq] & Hall).
        split; [exact Hwa|]. split; [discriminate|].
        intros et' [<-|Hin]; [|apply Hall, Hin]. exists e, t, q. repeat split; auto.
  Qed.

  Lemma lookup_attr_WT t k at_ req : WT t -> lookup_attr true sch t k = Some (at_, req) -> WT at_.
  Proof.
    intros Hw H. destruct t; cbn [lookup_attr] in H; try discriminate.
    - unfold WT in *. eapply ty_all_lookup; eauto.
    - rewrite lookup_entity_attr_eq in H. apply ea_go_spec in H; [tauto | exact I].
  Qed.

  Lemma nonzero_declared t i te : entity_of sch t = Some te -> is_zero_uid (t, i) = false.
  Proof.
    intros H. unfold is_zero_uid. cbn [fst snd]. destruct t; [|reflexivity].
    destruct Hwf as [H0 _]. congruence.
  Qed.

  (* attribute access on a typed value *)
  Lemma get_attr_typed st v t k at_ req :
    store_ok sch st -> vtyped v t -> lookup_attr true sch t k = Some (at_, req) ->
    match get_attr st v k with
    | Ok x => vtyped x at_
    | Err EEntity => True
    | Err EAttr => req = false /\ has_attr st v k = Ok (VBool false)
    | Err _ => False
    end.
  Proof.
    intros Hst Hv H. destruct t as [| | | | | | |attrs0|lub0|]; cbn [lookup_attr] in H; try discriminate.
    - destruct (vtyped_rec_inv' _ _ Hv) as (kvs & ->). cbn [get_attr has_attr].
      pose proof (get_attr_rec _ _ _ _ _ Hv H) as G. destruct (rec_get k kvs); [exact G | split; [exact G | reflexivity]].
    - destruct (vtyped_ent_inv _ _ Hv) as (t0 & i & -> & H1). rewrite lookup_entity_attr_eq in H. apply ea_go_spec in H; [|exact I].
      destruct H as (_ & _ & Hall). destruct (Hall _ H1) as (te & t' & q & Ee & Ea & S1 & Hq).
      cbn [get_attr has_attr]. rewrite (nonzero_declared _ i _ Ee).
      destruct (lookup st (t0, i)) as [e|] eqn:El; [|exact I].
      pose proof (Hst _ _ El) as Hok. unfold entity_ok in Hok. cbn [fst] in Hok.
      unfold entity_of in Ee. rewrite Ee in Hok. destruct Hok as (Hattrs & _ & _).
      pose proof (get_attr_rec _ _ _ _ _ Hattrs Ea) as G.
      destruct (rec_get k (e_attrs e)); [apply S1, G|]. subst q.
      split; [|reflexivity]. destruct req; [specialize (Hq eq_refl); discriminate | reflexivity].
  Qed.

  (* `has` on a typed value *)
  Lemma has_attr_typed st v t k :
    store_ok sch st -> vtyped v t -> is_ent_or_rec t = true ->
    exists b, has_attr st v k = Ok (VBool b) /\ vtyped (VBool b) (has_result_type sch t k).
  Proof.
    intros Hst Hv Ht. destruct t as [| | | | | | |attrs0|lub0|]; try discriminate.
    - destruct (vtyped_rec_inv' _ _ Hv) as (kvs & ->). cbn [has_attr has_result_type]. unfold vbool. eexists. split; [reflexivity|].
      destruct (alookup k attrs0) as [[t [|]]|] eqn:Ea.
      + apply vtyped_rec_inv in Hv. destruct Hv as [_ HR]. destruct (HR _ _ Ea) as (x & ->). constructor.
      + constructor.
      + rewrite (has_attr_rec_closed _ _ _ Hv Ea). constructor.
    - destruct (vtyped_ent_inv _ _ Hv) as (t0 & i & -> & H1). cbn [has_attr has_result_type]. unfold vbool.
      match goal with |- context [existsb ?f lub0] => destruct (existsb f lub0) eqn:Eex end.
      + destruct (lookup st (t0, i)) as [e|]; eexists; (split; [reflexivity | constructor]).
      + exists false. split; [|constructor].
        destruct (lookup st (t0, i)) as [e|] eqn:El; [|reflexivity].
        pose proof (Hst _ _ El) as Hok. unfold entity_ok in Hok. cbn [fst] in Hok.
        pose proof (existsb_false_all _ _ Eex _ H1) as Hf. cbv beta in Hf. unfold entity_of in Hf.
        destruct (alookup t0 (ts_entities sch)) as [te|].
        * destruct Hok as (Hattrs & _ & _).
          destruct (alookup k (te_shape te)) eqn:Ea; [discriminate|].
          rewrite (has_attr_rec_closed _ _ _ Hattrs Ea). reflexivity.
        * destruct Hok as (-> & _). reflexivity.
  Qed.

  (* tags *)
  Definition tag_go : list str -> cty -> option cty :=
    fix go (l : list str) (acc : cty) : option cty :=
       match l with
       | [] => Some acc
       | et :: r =>
           match entity_of sch et with
           | Some e => match te_tags e with
                       | None => go r acc
                       | Some t => match lub' true acc t with Some x => go r x | None => None end
                       end
           | None => go r acc
           end
       end.
  Lemma entity_tag_type_eq l : entity_tag_type true sch l = tag_go l CNever.
  Proof. reflexivity. Qed.

  Lemma tag_go_spec : forall l acc t, WT acc -> tag_go l acc = Some t ->
    WT t /\ sub acc t /\
    forall et te tt, In et l -> entity_of sch et = Some te -> te_tags te = Some tt -> sub tt t.
  Proof.
    induction l as [|et r IH]; intros acc t Hacc H; cbn [tag_go] in H; fold tag_go in H.
    - inversion H; subst. split; [exact Hacc|]. split; [intros v Hv; exact Hv | intros et te tt []].
    - destruct (entity_of sch et) as [e|] eqn:Ee.
      + destruct (te_tags e) as [tt0|] eqn:Et.
        * destruct (lub' true acc tt0) as [x|] eqn:El; [|discriminate].
          assert (Hwt : WT tt0) by (destruct Hwf as [_ Hw]; destruct (Hw _ _ Ee) as [_ Hs]; apply (Hs _ Et)).
          destruct (lub'_sub _ _ _ El Hacc Hwt) as (Hwx & S1 & S2).
          destruct (IH _ _ Hwx H) as (Hwt' & S3 & Hall).
          split; [exact Hwt'|]. split; [eapply sub_trans; eauto|].
          intros et' te tt [<-|Hin] Ee' Et'; [|eapply Hall; eauto].
          rewrite Ee in Ee'. inversion Ee'; subst te. rewrite Et in Et'. inversion Et'; subst tt. eapply sub_trans; eauto.
        * destruct (IH _ _ Hacc H) as (Hwt' & S3 & Hall). split; [exact Hwt'|]. split; [exact S3|].
          intros et' te tt [<-|Hin] Ee' Et'; [|eapply Hall; eauto].
          rewrite Ee in Ee'. inversion Ee'; subst te. congruence.
      + destruct (IH _ _ Hacc H) as (Hwt' & S3 & Hall). split; [exact Hwt'|]. split; [exact S3|].
        intros et' te tt [<-|Hin] Ee' Et'; [|eapply Hall; eauto]. congruence.
  Qed.

  (* what a conforming store says about the tags of an entity *)
  Lemma store_tag st t i ent s x : store_ok sch st -> lookup st (t, i) = Some ent -> rec_get s (e_tags ent) = Some x ->
    exists te tt, entity_of sch t = Some te /\ te_tags te = Some tt /\ vtyped x tt.
  Proof.
    intros Hst El Eg. pose proof (Hst _ _ El) as Hok. unfold entity_ok in Hok. cbn [fst] in Hok. unfold entity_of.
    destruct (alookup t (ts_entities sch)) as [te|].
    - destruct Hok as (_ & Htags & _). destruct (Htags _ _ Eg) as (tt & Et & Hx). exists te, tt. auto.
    - destruct Hok as (_ & Hnil & _). rewrite Hnil in Eg. discriminate.
  Qed.

  (* getTag on a typed entity whose tag is present *)
  Lemma get_tag_typed st l t i ent s x tagt : store_ok sch st -> In t l -> entity_tag_type true sch l = Some tagt ->
    lookup st (t, i) = Some ent -> rec_get s (e_tags ent) = Some x -> vtyped x tagt /\ is_zero_uid (t, i) = false.
  Proof.
    intros Hst Hin Ht El Eg. destruct (store_tag _ _ _ _ _ _ Hst El Eg) as (te & tt & Ee & Et & Hx).
    rewrite entity_tag_type_eq in Ht. apply tag_go_spec in Ht; [|exact I]. destruct Ht as (_ & _ & Hall).
    split; [apply (Hall _ _ _ Hin Ee Et), Hx | eapply nonzero_declared; eauto].
  Qed.

  Lemma tag_type_WT l tagt : entity_tag_type true sch l = Some tagt -> WT tagt.
  Proof. rewrite entity_tag_type_eq. intros H. apply tag_go_spec in H; [tauto | exact I]. Qed.

  Lemma has_tags_false st l t i ent s : store_ok sch st -> In t l -> entity_has_tags sch l = false ->
    lookup st (t, i) = Some ent -> rec_get s (e_tags ent) = None.
  Proof.
    intros Hst Hin Hh El. destruct (rec_get s (e_tags ent)) as [v|] eqn:Eg; [|reflexivity].
    destruct (store_tag _ _ _ _ _ _ Hst El Eg) as (te & tt & Ee & Et & _).
    unfold entity_has_tags in Hh. pose proof (existsb_false_all _ _ Hh _ Hin) as Hf. cbv beta in Hf. rewrite Ee, Et in Hf. discriminate.
  Qed.
End Attr.

(* ------------------------------------------------------------------ *)
(* Part 5: extension calls                                              *)
(* ------------------------------------------------------------------ *)
Lemma vtyped_decimal_inv v : vtyped v (xt "decimal") -> exists z, v = VDecimal z.
Proof. intros H. remember (xt "decimal") as t eqn:Et. destruct H; try discriminate; try (vm_compute in Et; discriminate). eauto. Qed.
Lemma vtyped_ipaddr_inv v : vtyped v (xt "ipaddr") -> exists b a p, v = VIP b a p.
Proof. intros H. remember (xt "ipaddr") as t eqn:Et. destruct H; try discriminate; try (vm_compute in Et; discriminate). eauto. Qed.
Lemma vtyped_datetime_inv v : vtyped v (xt "datetime") -> exists z, v = VDatetime z.
Proof. intros H. remember (xt "datetime") as t eqn:Et. destruct H; try discriminate; try (vm_compute in Et; discriminate). eauto. Qed.
Lemma vtyped_duration_inv v : vtyped v (xt "duration") -> exists z, v = VDuration z.
Proof. intros H. remember (xt "duration") as t eqn:Et. destruct H; try discriminate; try (vm_compute in Et; discriminate). eauto. Qed.

Lemma arg_subtype_eq t ty : arg_subtype t ty = true -> t = ty.
Proof.
  destruct ty; cbn [arg_subtype]; try discriminate.
  - destruct t; try discriminate. reflexivity.
  - destruct t; try discriminate. intros H. apply str_eqb_eq in H. subst. reflexivity.
Qed.

Definition res_ok (r : res) (t : cty) : Prop := match r with Ok v => vtyped v t | Err k => allowed_error k = true end.

Ltac nm_case H :=
  match type of H with
  | context [nm ?name ?s] =>
      let E := fresh "E" in destruct (nm name s) eqn:E;
      [ unfold nm in E; apply str_eqb_eq in E; subst name | ]
  end.

Ltac call_red :=
  match goal with
  | |- context [call_ext ?n ?rs] =>
      let r := eval lazy -[Z.ltb Z.leb Z.gtb Z.geb checkedAddI64 checkedSubI64 goquot gorem wrap64 parse_ip parse_decimal parse_datetime parse_duration
                           ip_is_loopback ip_is_multicast ip_contains to_date to_time MillisPerDay MillisPerHour MillisPerMinute MillisPerSecond] in (call_ext n rs) in
      change (call_ext n rs) with r
  end.

Ltac inv_arg H :=
  first [ apply vtyped_string_inv in H; destruct H as (? & ->)
        | apply vtyped_decimal_inv in H; destruct H as (? & ->)
        | apply vtyped_ipaddr_inv in H; destruct H as (? & ? & ? & ->)
        | apply vtyped_datetime_inv in H; destruct H as (? & ->)
        | apply vtyped_duration_inv in H; destruct H as (? & ->) ].

Lemma call_ext_sound name ctor argtys ret rs :
  ext_sig name = Some (ctor, argtys, ret) ->
  Forall2 res_ok rs argtys ->
  (ctor = true -> exists s, rs = [Ok (VString s)] /\ ext_literal_ok name s = true) ->
  res_ok (call_ext name rs) ret.
Proof.
  intros H HF Hc. unfold ext_sig in H.
  repeat (nm_case H; cbn [orb] in H; cbv iota in H;
    [ inversion H; subst ctor argtys ret; clear H | ]); try discriminate.
  all: try (destruct (Hc eq_refl) as (s & -> & Hlit); clear HF Hc;
            lazy -[parse_ip parse_decimal parse_datetime parse_duration] in Hlit; call_red; unfold res_ok;
            match type of Hlit with match ?p with Some _ => _ | None => _ end = _ => destruct p; [| discriminate] end;
            apply (@eq_ind_r _ _ (fun t => vtyped _ t) ltac:(constructor) _ eq_refl) || constructor; fail).
  all: clear Hc.
  all: repeat match goal with HF : Forall2 _ _ (_ :: _) |- _ => inversion HF as [|? ? ? ? ?Ha ?Hr]; subst; clear HF
                            | HF : Forall2 _ _ [] |- _ => inversion HF; subst; clear HF end.
  all: repeat match goal with Ha : res_ok ?r _ |- _ => destruct r as [?v|?k]; cbn [res_ok] in Ha; [inv_arg Ha|] end.
  all: call_red; unfold res_ok; try assumption; try (constructor; fail).
  all: try (apply vt_datetime || apply vt_duration || apply vt_long; fail).
  - unfold to_date. cbv zeta. match goal with |- context [checkedSubI64 ?a ?b] => destruct (checkedSubI64 a b) as [r [|]] end; [apply vt_datetime | reflexivity].
  - match goal with |- context [checkedAddI64 ?a ?b] => destruct (checkedAddI64 a b) as [r [|]] end; [apply vt_datetime | reflexivity].
  - match goal with |- context [checkedSubI64 ?a ?b] => destruct (checkedSubI64 a b) as [r [|]] end; [apply vt_duration | reflexivity].
Qed.
