(* Proofs about the ipaddr printer (Impl/IPPrint.v: net/netip Addr.String / Prefix.String) and the ipaddr parser
   (Impl/IPAddr.v: types.ParseIPAddr):
     - print_ip_plain_holds : every printed ip is plain printable ASCII without double quote and backslash (no premise at all);
     - parse_print_ip       : every well-formed ip value that is not an IPv4-mapped IPv6 address parses back from its printed form;
     - F30_mapped           : an IPv4-mapped IPv6 address does not (known finding F30).
   These discharge the [print_ip_plain] / [ip_roundtrip] section hypotheses of C07 / C08 / C09 / C13 for the concrete printer. *)
From Coq Require Import ZArith List Bool Lia.
Import ListNotations.
From Cedar Require Import Lang.Value Impl.Text Impl.Quote Impl.IPAddr Impl.IPPrint Proofs.DecimalProofs.
Local Open Scope Z_scope.

(* ====================================================================================== *)
(** * 0. The statement: well-formed ip values, and the ones that round-trip *)
(* ====================================================================================== *)

Definition ip_wf (v6 : bool) (a p : Z) : Prop :=
  if v6 then 0 <= a < 2 ^ 128 /\ 0 <= p <= 128 else 0 <= a < 2 ^ 32 /\ 0 <= p <= 32.

Definition ip_wfb (v6 : bool) (a p : Z) : bool :=
  if v6 then (0 <=? a) && (a <? 2 ^ 128) && (0 <=? p) && (p <=? 128)
  else (0 <=? a) && (a <? 2 ^ 32) && (0 <=? p) && (p <=? 32).

Lemma ip_wfb_spec : forall v6 a p, ip_wfb v6 a p = true <-> ip_wf v6 a p.
Proof.
  intros v6 a p. unfold ip_wfb, ip_wf. destruct v6;
    rewrite !andb_true_iff, !Z.leb_le, Z.ltb_lt; tauto.
Qed.

(* IPv4-mapped IPv6 addresses print as ::ffff:1.2.3.4, which ParseIPAddr rejects (F30) *)
Definition ip_ok (v6 : bool) (a p : Z) : bool :=
  ip_wfb v6 a p && negb (v6 && (a / 2 ^ 32 =? 65535)).

(* ====================================================================================== *)
(** * 1. Character classes of the printed form *)
(* ====================================================================================== *)

Definition plainc (c : Z) : Prop := 32 <= c < 127 /\ c <> 34 /\ c <> 92.
Definition lowhex (c : Z) : Prop := 48 <= c <= 57 \/ 97 <= c <= 102.
Definition hexc (d : Z) : Z := if d <? 10 then 48 + d else 87 + d.

Lemma hexc_lowhex : forall d, 0 <= d < 16 -> lowhex (hexc d).
Proof. intros d Hd. unfold hexc, lowhex. destruct (Z.ltb_spec d 10); lia. Qed.

Lemma hex_rev_S : forall f z,
  hex_rev (S f) z = if z <? 16 then [hexc (z mod 16)] else hexc (z mod 16) :: hex_rev f (z / 16).
Proof. reflexivity. Qed.

Lemma hex_rev_lowhex : forall f z, Forall lowhex (hex_rev f z).
Proof.
  induction f as [|f IH]; intros z; [constructor|].
  rewrite hex_rev_S.
  assert (Hc : lowhex (hexc (z mod 16))) by (apply hexc_lowhex; apply Z.mod_pos_bound; lia).
  destruct (z <? 16); constructor; auto.
Qed.

Lemma hex_lower_lowhex : forall z, Forall lowhex (hex_lower z).
Proof. intros z. unfold hex_lower. apply Forall_rev, hex_rev_lowhex. Qed.

Lemma hex_lower_nonempty : forall z, hex_lower z <> [].
Proof.
  intros z H. apply (f_equal (@length Z)) in H. unfold hex_lower in H.
  rewrite rev_length in H. change 16%nat with (S 15) in H. rewrite hex_rev_S in H.
  destruct (z <? 16); cbn [length] in H; lia.
Qed.

Lemma hex_lower_head : forall z, exists c r, hex_lower z = c :: r /\ lowhex c.
Proof.
  intros z. pose proof (hex_lower_lowhex z) as HF. pose proof (hex_lower_nonempty z) as Hne.
  destruct (hex_lower z) as [|c r]; [congruence|].
  exists c, r. split; [reflexivity|]. inversion HF; assumption.
Qed.

Lemma print_nat_all_digits : forall z, all_digits (print_nat z).
Proof. intros z. unfold print_nat. apply digits_of_digits. constructor. Qed.

Lemma print_nat_nonempty : forall z, print_nat z <> [].
Proof. intros z. unfold print_nat. apply digits_of_nonempty. Qed.

Lemma Forall_weaken : forall (P Q : Z -> Prop) l, (forall x, P x -> Q x) -> Forall P l -> Forall Q l.
Proof. intros P Q l H HF. eapply Forall_impl; eauto. Qed.

Lemma join_colon_cons2 : forall x y r, join_colon (x :: y :: r) = x ++ 58 :: join_colon (y :: r).
Proof. reflexivity. Qed.

Lemma join_colon_Forall : forall (P : Z -> Prop) l, P 58 -> Forall (Forall P) l -> Forall P (join_colon l).
Proof.
  intros P l H58. induction l as [|x r IH]; intros HF; [constructor|].
  inversion HF as [|x' r' Hx Hr]; subst.
  destruct r as [|y r]; [exact Hx|].
  rewrite join_colon_cons2. apply Forall_app. split; [exact Hx|]. constructor; [exact H58|]. apply IH. exact Hr.
Qed.

Lemma map_hex_Forall : forall (P : Z -> Prop) l, (forall c, lowhex c -> P c) -> Forall (Forall P) (map hex_lower l).
Proof.
  intros P l HP. induction l as [|x r IH]; cbn [map]; constructor; [|exact IH].
  eapply Forall_weaken; [exact HP | apply hex_lower_lowhex].
Qed.

Lemma dotted_Forall : forall (P : Z -> Prop) a, (forall c, 48 <= c <= 57 -> P c) -> P 46 -> Forall P (dotted a).
Proof.
  intros P a Hd H46. unfold dotted.
  assert (HN : forall z, Forall P (print_nat z)).
  { intros z. eapply Forall_weaken; [|apply print_nat_all_digits]. intros c Hc. apply Hd. apply is_digit_range. exact Hc. }
  repeat (apply Forall_app; split; [apply HN|]; cbn [app]; constructor; [exact H46|]). apply HN.
Qed.

(* the whole v6 string, whichever branch: P must hold of lower-case hex digits, ':' and '.' *)
Lemma v6_string_Forall : forall (P : Z -> Prop) a, (forall c, lowhex c -> P c) -> P 58 -> P 46 -> Forall P (v6_string a).
Proof.
  intros P a Hh H58 H46. unfold v6_string.
  destruct (a / 4294967296 =? 65535).
  - cbn [app]. repeat constructor; try exact H58; try (apply Hh; unfold lowhex; lia).
    apply dotted_Forall; [|exact H46]. intros c Hc. apply Hh. unfold lowhex. lia.
  - destruct (zero_runs (fields a) 0 0 0 (0%nat, 0%nat)) as [s n].
    destruct (Nat.ltb n 2).
    + apply join_colon_Forall; [exact H58 | apply map_hex_Forall; exact Hh].
    + apply Forall_app. split; [apply join_colon_Forall; [exact H58 | apply map_hex_Forall; exact Hh]|].
      cbn [app]. constructor; [exact H58|]. constructor; [exact H58|].
      apply join_colon_Forall; [exact H58 | apply map_hex_Forall; exact Hh].
Qed.

Theorem print_ip_plain_all : forall v6 a p, Forall (fun c => 32 <= c < 127 /\ c <> 34 /\ c <> 92) (print_ip v6 a p).
Proof.
  intros v6 a p. change (Forall plainc (print_ip v6 a p)). unfold print_ip.
  assert (Haddr : Forall plainc (if v6 then v6_string a else dotted a)).
  { destruct v6.
    - apply v6_string_Forall; unfold plainc, lowhex; intros; lia.
    - apply dotted_Forall; unfold plainc; intros; lia. }
  destruct (p =? (if v6 then 128 else 32)); [exact Haddr|].
  apply Forall_app. split; [exact Haddr|]. cbn [app]. constructor; [unfold plainc; lia|].
  eapply Forall_weaken; [|apply print_nat_all_digits].
  intros c Hc. apply is_digit_range in Hc. unfold plainc. lia.
Qed.

Theorem print_ip_plain_holds : forall v6 a p, ip_wf v6 a p ->
  Forall (fun c => 32 <= c < 127 /\ c <> 34 /\ c <> 92) (print_ip v6 a p).
Proof. intros v6 a p _. apply print_ip_plain_all. Qed.

(* ====================================================================================== *)
(** * 2. Generic string helpers *)
(* ====================================================================================== *)

Lemma count_of_app : forall c l1 l2, count_of c (l1 ++ l2) = count_of c l1 + count_of c l2.
Proof. intros c l1 l2. induction l1 as [|x r IH]; cbn [app count_of]; [reflexivity|]. rewrite IH. lia. Qed.

Lemma count_of_zero : forall c l, Forall (fun x => x <> c) l -> count_of c l = 0.
Proof.
  intros c l H. induction H as [|x r Hx Hr IH]; cbn [count_of]; [reflexivity|].
  destruct (Z.eqb_spec x c) as [E|E]; [contradiction|]. rewrite IH. reflexivity.
Qed.

Lemma last_index_of_none : forall c l, Forall (fun x => x <> c) l -> last_index_of c l = None.
Proof.
  intros c l H. induction H as [|x r Hx Hr IH]; cbn [last_index_of]; [reflexivity|].
  rewrite IH. destruct (Z.eqb_spec x c) as [E|E]; [contradiction|reflexivity].
Qed.

Lemma last_index_of_app : forall c l r, Forall (fun x => x <> c) r -> last_index_of c (l ++ c :: r) = Some (length l).
Proof.
  intros c l r Hr. induction l as [|x l IH]; cbn [app last_index_of length].
  - rewrite (last_index_of_none c r Hr), Z.eqb_refl. reflexivity.
  - rewrite IH. reflexivity.
Qed.

Lemma firstn_exact : forall (l r : list Z), firstn (length l) (l ++ r) = l.
Proof. intros l r. induction l as [|x l IH]; cbn [length firstn app]; [destruct r; reflexivity|]. rewrite IH. reflexivity. Qed.

Lemma skipn_exact : forall (l r : list Z) x, skipn (S (length l)) (l ++ x :: r) = r.
Proof. intros l r x. induction l as [|y l IH]; cbn [length skipn app]; [reflexivity|]. exact IH. Qed.

(* ====================================================================================== *)
(** * 3. The prefix part and the top-level parser, for any address string *)
(* ====================================================================================== *)

Lemma parse_prefix_app : forall addr v6 a p,
  parse_addr addr = Some (v6, a) -> Forall (fun x => x <> 47) addr -> 0 <= p <= (if v6 then 128 else 32) ->
  parse_prefix (addr ++ 47 :: print_nat p) = Some (v6, a, p).
Proof.
  intros addr v6 a p Ha H47 Hp.
  assert (Hp40 : 0 <= p < 10 ^ 40) by (destruct v6; lia).
  pose proof (print_nat_all_digits p) as Hdig.
  pose proof (print_nat_nonempty p) as Hne.
  pose proof (parse_print_nat p Hp40) as Hpp.
  unfold parse_prefix.
  rewrite last_index_of_app.
  2:{ eapply Forall_weaken; [|exact Hdig]. intros c Hc. apply is_digit_range in Hc. lia. }
  rewrite firstn_exact, Ha, skipn_exact.
  assert (Hgt : (p >? (if v6 then 128 else 32)) = false).
  { destruct (Z.gtb_spec p (if v6 then 128 else 32)); [lia|reflexivity]. }
  destruct (print_nat p) as [|c [|c' r]] eqn:E; [congruence| |].
  - rewrite Hpp, Hgt. reflexivity.
  - assert (Hc : (c <? 49) || (c >? 57) = false).
    { inversion Hdig as [|c0 r0 Hc0 _]; subst. apply is_digit_range in Hc0.
      assert (Hp0 : p <> 0). { intros ->. vm_compute in E. discriminate. }
      pose proof (print_nat_no_leading_zero p ltac:(lia)) as Hlz. rewrite E in Hlz. cbn [hd] in Hlz.
      apply orb_false_iff. split; [apply Z.ltb_ge; lia|]. destruct (Z.gtb_spec c 57); [lia|reflexivity]. }
    rewrite Hc, Hpp, Hgt. reflexivity.
Qed.

Lemma parse_ip_gen : forall v6 addr a p,
  parse_addr addr = Some (v6, a) -> Forall (fun x => x <> 47) addr ->
  (count_of 58 addr = 0 \/ count_of 46 addr = 0) ->
  0 <= p <= (if v6 then 128 else 32) ->
  parse_ip (if p =? (if v6 then 128 else 32) then addr else addr ++ [47] ++ print_nat p) = Some (v6, a, p).
Proof.
  intros v6 addr a p Ha H47 Hcnt Hp.
  assert (Hpd : forall c, c = 58 \/ c = 46 -> count_of c (47 :: print_nat p) = 0).
  { intros c Hc. apply count_of_zero. constructor; [lia|].
    eapply Forall_weaken; [|apply print_nat_all_digits]. intros x Hx. apply is_digit_range in Hx. lia. }
  assert (Hguard : forall s, count_of 58 s = count_of 58 addr -> count_of 46 s = count_of 46 addr ->
            (count_of 58 s >=? 2) && (count_of 46 s >=? 2) = false).
  { intros s H1 H2. rewrite H1, H2. destruct Hcnt as [-> | ->]; [reflexivity|]. apply andb_false_r. }
  destruct (Z.eqb_spec p (if v6 then 128 else 32)) as [E|E].
  - unfold parse_ip. rewrite Hguard by reflexivity.
    unfold parse_prefix. rewrite (last_index_of_none 47 addr H47). rewrite Ha. rewrite E. destruct v6; reflexivity.
  - unfold parse_ip. cbn [app].
    rewrite Hguard by (rewrite count_of_app, Hpd; [lia | auto]).
    rewrite (parse_prefix_app addr v6 a p Ha H47 Hp). reflexivity.
Qed.

(* ====================================================================================== *)
(** * 4. IPv4 *)
(* ====================================================================================== *)

Lemma digits_of_S : forall f z acc,
  digits_of (S f) z acc = if z <? 10 then (48 + z mod 10) :: acc else digits_of f (z / 10) ((48 + z mod 10) :: acc).
Proof. reflexivity. Qed.

Lemma v4_digit : forall d s first pd val dl pos acc,
  0 <= d <= 9 -> (dl =? 1) && (val =? 0) = false -> val * 10 + d <= 255 ->
  v4_loop ((48 + d) :: s) first pd val dl pos acc = v4_loop s false false (val * 10 + d) (dl + 1) pos acc.
Proof.
  intros d s first pd val dl pos acc Hd Hlz Hv. cbn [v4_loop].
  assert (Hdig : is_digit (48 + d) = true) by (apply is_digit_range; lia).
  rewrite Hdig, Hlz. unfold Text.digit_val.
  replace (48 + d - 48) with d by lia.
  destruct (Z.gtb_spec (val * 10 + d) 255); [lia|reflexivity].
Qed.

Lemma v4_octet : forall o rest first pd pos acc, 0 <= o <= 255 ->
  exists dl, v4_loop (print_nat o ++ rest) first pd 0 0 pos acc = v4_loop rest false false o dl pos acc.
Proof.
  intros o rest first pd pos acc Ho. unfold print_nat.
  pose proof (Z.mod_pos_bound o 10 ltac:(lia)) as Hm.
  pose proof (Z.div_mod o 10 ltac:(lia)) as Hdm.
  rewrite digits_of_S. destruct (Z.ltb_spec o 10) as [H1|H1].
  - eexists. cbn [app]. rewrite v4_digit; [|lia|reflexivity|lia].
    replace (0 * 10 + o mod 10) with o by (rewrite Z.mod_small; lia). reflexivity.
  - rewrite digits_of_S.
    pose proof (Z.mod_pos_bound (o / 10) 10 ltac:(lia)) as Hm2.
    pose proof (Z.div_mod (o / 10) 10 ltac:(lia)) as Hdm2.
    assert (Hq : 1 <= o / 10 <= 25) by lia.
    destruct (Z.ltb_spec (o / 10) 10) as [H2|H2].
    + eexists. cbn [app]. rewrite v4_digit; [|lia|reflexivity|lia].
      rewrite v4_digit; [|lia| |lia].
      2:{ apply andb_false_iff. right. apply Z.eqb_neq. lia. }
      replace ((0 * 10 + o / 10 mod 10) * 10 + o mod 10) with o by (rewrite (Z.mod_small (o / 10)); lia). reflexivity.
    + rewrite digits_of_S.
      assert (Hqq : 1 <= o / 10 / 10 <= 2) by lia.
      destruct (Z.ltb_spec (o / 10 / 10) 10) as [H3|H3]; [|lia].
      eexists. cbn [app]. rewrite (Z.mod_small (o / 10 / 10)) by lia.
      rewrite v4_digit; [|lia|reflexivity|lia].
      rewrite v4_digit; [|lia| |lia].
      2:{ apply andb_false_iff. right. apply Z.eqb_neq. lia. }
      rewrite v4_digit; [|lia|reflexivity|lia].
      replace (((0 * 10 + o / 10 / 10) * 10 + o / 10 mod 10) * 10 + o mod 10) with o by lia. reflexivity.
Qed.

Lemma v4_dot : forall o rest val dl pos acc, (pos =? 3) = false ->
  v4_loop (46 :: print_nat o ++ rest) false false val dl pos acc =
  v4_loop (print_nat o ++ rest) false true 0 0 (pos + 1) (acc * 256 + val).
Proof.
  intros o rest val dl pos acc Hpos.
  pose proof (print_nat_nonempty o) as Hne.
  destruct (print_nat o) as [|c r]; [congruence|].
  cbn [app]. cbn [v4_loop]. change (is_digit 46) with false. change (46 =? 46) with true. cbv iota.
  cbn [orb]. rewrite Hpos. reflexivity.
Qed.

Lemma parse_v4_dotted : forall a, 0 <= a < 2 ^ 32 -> parse_v4 (dotted a) = Some a.
Proof.
  intros a Ha. unfold parse_v4, dotted.
  pose proof (Z.mod_pos_bound (a / 16777216) 256 ltac:(lia)) as B1.
  pose proof (Z.mod_pos_bound (a / 65536) 256 ltac:(lia)) as B2.
  pose proof (Z.mod_pos_bound (a / 256) 256 ltac:(lia)) as B3.
  pose proof (Z.mod_pos_bound a 256 ltac:(lia)) as B4.
  destruct (v4_octet (a / 16777216 mod 256) ([46] ++ print_nat (a / 65536 mod 256) ++ [46] ++ print_nat (a / 256 mod 256) ++ [46] ++ print_nat (a mod 256)) true false 0 0 ltac:(lia)) as [d1 E1].
  rewrite E1. cbn [app]. rewrite v4_dot by reflexivity.
  destruct (v4_octet (a / 65536 mod 256) (46 :: print_nat (a / 256 mod 256) ++ 46 :: print_nat (a mod 256)) false true (0 + 1) (0 * 256 + a / 16777216 mod 256) ltac:(lia)) as [d2 E2].
  rewrite E2. rewrite v4_dot by reflexivity.
  destruct (v4_octet (a / 256 mod 256) (46 :: print_nat (a mod 256)) false true (0 + 1 + 1) ((0 * 256 + a / 16777216 mod 256) * 256 + a / 65536 mod 256) ltac:(lia)) as [d3 E3].
  rewrite E3. rewrite <- (app_nil_r (print_nat (a mod 256))). rewrite v4_dot by reflexivity.
  destruct (v4_octet (a mod 256) [] false true (0 + 1 + 1 + 1) (((0 * 256 + a / 16777216 mod 256) * 256 + a / 65536 mod 256) * 256 + a / 256 mod 256) ltac:(lia)) as [d4 E4].
  rewrite E4. cbn [v4_loop]. change (0 + 1 + 1 + 1 <? 3) with false. cbv iota. f_equal.
  change (2 ^ 32) with 4294967296 in Ha.
  pose proof (Z.div_mod a 256 ltac:(lia)) as D0.
  pose proof (Z.div_mod (a / 256) 256 ltac:(lia)) as D1.
  pose proof (Z.div_mod (a / 256 / 256) 256 ltac:(lia)) as D2.
  rewrite Z.div_div in D2 by lia. rewrite Z.div_div in D1 by lia. rewrite Z.div_div in D2 by lia.
  change (256 * 256) with 65536 in *. change (65536 * 256) with 16777216 in *.
  assert (Hs : 0 <= a / 16777216 < 256) by (split; [apply Z.div_pos; lia | apply Z.div_lt_upper_bound; lia]).
  rewrite (Z.mod_small (a / 16777216)) by lia.
  lia.
Qed.

Definition v4char (c : Z) : Prop := 48 <= c <= 57 \/ c = 46.

Lemma dotted_v4char : forall a, Forall v4char (dotted a).
Proof. intros a. apply dotted_Forall; unfold v4char; intros; lia. Qed.

Lemma addr_kind_v4 : forall ds r, all_digits ds -> addr_kind (ds ++ 46 :: r) = 4.
Proof.
  intros ds r H. induction H as [|c ds Hc Hds IH]; cbn [app addr_kind]; [reflexivity|].
  apply is_digit_range in Hc.
  destruct (Z.eqb_spec c 46); [lia|]. destruct (Z.eqb_spec c 58); [lia|]. destruct (Z.eqb_spec c 37); [lia|]. exact IH.
Qed.

Lemma parse_addr_dotted : forall a, 0 <= a < 2 ^ 32 -> parse_addr (dotted a) = Some (false, a).
Proof.
  intros a Ha. unfold parse_addr.
  assert (K : addr_kind (dotted a) = 4) by (unfold dotted; cbn [app]; apply addr_kind_v4, print_nat_all_digits).
  rewrite K. change (4 =? 4) with true. cbv iota. rewrite parse_v4_dotted by exact Ha. reflexivity.
Qed.

Theorem parse_print_ip_v4 : forall a p, 0 <= a < 2 ^ 32 -> 0 <= p <= 32 ->
  parse_ip (print_ip false a p) = Some (false, a, p).
Proof.
  intros a p Ha Hp. unfold print_ip.
  apply (parse_ip_gen false (dotted a) a p).
  - apply parse_addr_dotted. exact Ha.
  - eapply Forall_weaken; [|apply dotted_v4char]. unfold v4char. intros; lia.
  - left. apply count_of_zero. eapply Forall_weaken; [|apply dotted_v4char]. unfold v4char. intros; lia.
  - exact Hp.
Qed.
