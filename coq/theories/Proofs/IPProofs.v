(* Proofs about the ipaddr printer (Impl/IPPrint.v: net/netip Addr.String / Prefix.String) and the ipaddr parser
   (Impl/IPAddr.v: types.ParseIPAddr):
     - print_ip_plain_holds : every printed ip is plain printable ASCII without double quote and backslash (no premise at all);
     - parse_print_ip       : every well-formed ip value that is not an IPv4-mapped IPv6 address parses back from its printed form;
     - F30_mapped           : an IPv4-mapped IPv6 address does not (known finding F30).
   These discharge the [print_ip_plain] / [ip_roundtrip] section hypotheses of C07 / C08 / C09 / C13 for the concrete printer. *)
From Coq Require Import ZArith List Bool Lia.
Import ListNotations.
From Cedar Require Import Lang.Value Impl.Text Impl.Quote Impl.IPAddr Impl.IPPrint Proofs.DecimalProofs.
Local Open Scope Z_scope.

(* ====================================================================================== *)
(** * 0. The statement: well-formed ip values, and the ones that round-trip *)
(* ====================================================================================== *)

Definition ip_wf (v6 : bool) (a p : Z) : Prop :=
  if v6 then 0 <= a < 2 ^ 128 /\ 0 <= p <= 128 else 0 <= a < 2 ^ 32 /\ 0 <= p <= 32.

Definition ip_wfb (v6 : bool) (a p : Z) : bool :=
  if v6 then (0 <=? a) && (a <? 2 ^ 128) && (0 <=? p) && (p <=? 128)
  else (0 <=? a) && (a <? 2 ^ 32) && (0 <=? p) && (p <=? 32).

Lemma ip_wfb_spec : forall v6 a p, ip_wfb v6 a p = true <-> ip_wf v6 a p.
Proof.
  intros v6 a p. unfold ip_wfb, ip_wf. destruct v6;
    rewrite !andb_true_iff, !Z.leb_le, Z.ltb_lt; tauto.
Qed.

(* IPv4-mapped IPv6 addresses print as ::ffff:1.2.3.4, which ParseIPAddr rejects (F30) *)
Definition ip_ok (v6 : bool) (a p : Z) : bool :=
  ip_wfb v6 a p && negb (v6 && (a / 2 ^ 32 =? 65535)).

(* ====================================================================================== *)
(** * 1. Character classes of the printed form *)
(* ====================================================================================== *)

Definition plainc (c : Z) : Prop := 32 <= c < 127 /\ c <> 34 /\ c <> 92.
Definition lowhex (c : Z) : Prop := 48 <= c <= 57 \/ 97 <= c <= 102.
Definition hexc (d : Z) : Z := if d <? 10 then 48 + d else 87 + d.

Lemma hexc_lowhex : forall d, 0 <= d < 16 -> lowhex (hexc d).
Proof. intros d Hd. unfold hexc, lowhex. destruct (Z.ltb_spec d 10); lia. Qed.

Lemma hex_rev_S : forall f z,
  hex_rev (S f) z = if z <? 16 then [hexc (z mod 16)] else hexc (z mod 16) :: hex_rev f (z / 16).
Proof. reflexivity. Qed.

Lemma hex_rev_lowhex : forall f z, Forall lowhex (hex_rev f z).
Proof.
  induction f as [|f IH]; intros z; [constructor|].
  rewrite hex_rev_S.
  assert (Hc : lowhex (hexc (z mod 16))) by (apply hexc_lowhex; apply Z.mod_pos_bound; lia).
  destruct (z <? 16); constructor; auto.
Qed.

Lemma hex_lower_lowhex : forall z, Forall lowhex (hex_lower z).
Proof. intros z. unfold hex_lower. apply Forall_rev, hex_rev_lowhex. Qed.

Lemma hex_lower_nonempty : forall z, hex_lower z <> [].
Proof.
  intros z H. apply (f_equal (@length Z)) in H. unfold hex_lower in H.
  rewrite rev_length in H. change 16%nat with (S 15) in H. rewrite hex_rev_S in H.
  destruct (z <? 16); cbn [length] in H; lia.
Qed.

Lemma hex_lower_head : forall z, exists c r, hex_lower z = c :: r /\ lowhex c.
Proof.
  intros z. pose proof (hex_lower_lowhex z) as HF. pose proof (hex_lower_nonempty z) as Hne.
  destruct (hex_lower z) as [|c r]; [congruence|].
  exists c, r. split; [reflexivity|]. inversion HF; assumption.
Qed.

Lemma print_nat_all_digits : forall z, all_digits (print_nat z).
Proof. intros z. unfold print_nat. apply digits_of_digits. constructor. Qed.

Lemma print_nat_nonempty : forall z, print_nat z <> [].
Proof. intros z. unfold print_nat. apply digits_of_nonempty. Qed.

Lemma Forall_weaken : forall (P Q : Z -> Prop) l, (forall x, P x -> Q x) -> Forall P l -> Forall Q l.
Proof. intros P Q l H HF. eapply Forall_impl; eauto. Qed.

Lemma join_colon_cons2 : forall x y r, join_colon (x :: y :: r) = x ++ 58 :: join_colon (y :: r).
Proof. reflexivity. Qed.

Lemma join_colon_Forall : forall (P : Z -> Prop) l, P 58 -> Forall (Forall P) l -> Forall P (join_colon l).
Proof.
  intros P l H58. induction l as [|x r IH]; intros HF; [constructor|].
  inversion HF as [|x' r' Hx Hr]; subst.
  destruct r as [|y r]; [exact Hx|].
  rewrite join_colon_cons2. apply Forall_app. split; [exact Hx|]. constructor; [exact H58|]. apply IH. exact Hr.
Qed.

Lemma map_hex_Forall : forall (P : Z -> Prop) l, (forall c, lowhex c -> P c) -> Forall (Forall P) (map hex_lower l).
Proof.
  intros P l HP. induction l as [|x r IH]; cbn [map]; constructor; [|exact IH].
  eapply Forall_weaken; [exact HP | apply hex_lower_lowhex].
Qed.

Lemma dotted_Forall : forall (P : Z -> Prop) a, (forall c, 48 <= c <= 57 -> P c) -> P 46 -> Forall P (dotted a).
Proof.
  intros P a Hd H46. unfold dotted.
  assert (HN : forall z, Forall P (print_nat z)).
  { intros z. eapply Forall_weaken; [|apply print_nat_all_digits]. intros c Hc. apply Hd. apply is_digit_range. exact Hc. }
  repeat (apply Forall_app; split; [apply HN|]; cbn [app]; constructor; [exact H46|]). apply HN.
Qed.

(* the whole v6 string, whichever branch: P must hold of lower-case hex digits, ':' and '.' *)
Lemma v6_string_Forall : forall (P : Z -> Prop) a, (forall c, lowhex c -> P c) -> P 58 -> P 46 -> Forall P (v6_string a).
Proof.
  intros P a Hh H58 H46. unfold v6_string.
  destruct (a / 4294967296 =? 65535).
  - cbn [app]. repeat constructor; try exact H58; try (apply Hh; unfold lowhex; lia).
    apply dotted_Forall; [|exact H46]. intros c Hc. apply Hh. unfold lowhex. lia.
  - destruct (zero_runs (fields a) 0 0 0 (0%nat, 0%nat)) as [s n].
    destruct (Nat.ltb n 2).
    + apply join_colon_Forall; [exact H58 | apply map_hex_Forall; exact Hh].
    + apply Forall_app. split; [apply join_colon_Forall; [exact H58 | apply map_hex_Forall; exact Hh]|].
      cbn [app]. constructor; [exact H58|]. constructor; [exact H58|].
      apply join_colon_Forall; [exact H58 | apply map_hex_Forall; exact Hh].
Qed.

Theorem print_ip_plain_all : forall v6 a p, Forall (fun c => 32 <= c < 127 /\ c <> 34 /\ c <> 92) (print_ip v6 a p).
Proof.
  intros v6 a p. change (Forall plainc (print_ip v6 a p)). unfold print_ip.
  assert (Haddr : Forall plainc (if v6 then v6_string a else dotted a)).
  { destruct v6.
    - apply v6_string_Forall; unfold plainc, lowhex; intros; lia.
    - apply dotted_Forall; unfold plainc; intros; lia. }
  destruct (p =? (if v6 then 128 else 32)); [exact Haddr|].
  apply Forall_app. split; [exact Haddr|]. cbn [app]. constructor; [unfold plainc; lia|].
  eapply Forall_weaken; [|apply print_nat_all_digits].
  intros c Hc. apply is_digit_range in Hc. unfold plainc. lia.
Qed.

Theorem print_ip_plain_holds : forall v6 a p, ip_wf v6 a p ->
  Forall (fun c => 32 <= c < 127 /\ c <> 34 /\ c <> 92) (print_ip v6 a p).
Proof. intros v6 a p _. apply print_ip_plain_all. Qed.

(* ====================================================================================== *)
(** * 2. Generic string helpers *)
(* ====================================================================================== *)

Lemma count_of_app : forall c l1 l2, count_of c (l1 ++ l2) = count_of c l1 + count_of c l2.
Proof. intros c l1 l2. induction l1 as [|x r IH]; cbn [app count_of]; [reflexivity|]. rewrite IH. lia. Qed.

Lemma count_of_zero : forall c l, Forall (fun x => x <> c) l -> count_of c l = 0.
Proof.
  intros c l H. induction H as [|x r Hx Hr IH]; cbn [count_of]; [reflexivity|].
  destruct (Z.eqb_spec x c) as [E|E]; [contradiction|]. rewrite IH. reflexivity.
Qed.

Lemma last_index_of_none : forall c l, Forall (fun x => x <> c) l -> last_index_of c l = None.
Proof.
  intros c l H. induction H as [|x r Hx Hr IH]; cbn [last_index_of]; [reflexivity|].
  rewrite IH. destruct (Z.eqb_spec x c) as [E|E]; [contradiction|reflexivity].
Qed.

Lemma last_index_of_app : forall c l r, Forall (fun x => x <> c) r -> last_index_of c (l ++ c :: r) = Some (length l).
Proof.
  intros c l r Hr. induction l as [|x l IH]; cbn [app last_index_of length].
  - rewrite (last_index_of_none c r Hr), Z.eqb_refl. reflexivity.
  - rewrite IH. reflexivity.
Qed.

Lemma firstn_exact : forall (l r : list Z), firstn (length l) (l ++ r) = l.
Proof. intros l r. induction l as [|x l IH]; cbn [length firstn app]; [destruct r; reflexivity|]. rewrite IH. reflexivity. Qed.

Lemma skipn_exact : forall (l r : list Z) x, skipn (S (length l)) (l ++ x :: r) = r.
Proof. intros l r x. induction l as [|y l IH]; cbn [length skipn app]; [reflexivity|]. exact IH. Qed.

(* ====================================================================================== *)
(** * 3. The prefix part and the top-level parser, for any address string *)
(* ====================================================================================== *)

Lemma parse_prefix_app : forall addr v6 a p,
  parse_addr addr = Some (v6, a) -> Forall (fun x => x <> 47) addr -> 0 <= p <= (if v6 then 128 else 32) ->
  parse_prefix (addr ++ 47 :: print_nat p) = Some (v6, a, p).
Proof.
  intros addr v6 a p Ha H47 Hp.
  assert (Hp40 : 0 <= p < 10 ^ 40) by (destruct v6; lia).
  pose proof (print_nat_all_digits p) as Hdig.
  pose proof (print_nat_nonempty p) as Hne.
  pose proof (parse_print_nat p Hp40) as Hpp.
  unfold parse_prefix.
  rewrite last_index_of_app.
  2:{ eapply Forall_weaken; [|exact Hdig]. intros c Hc. apply is_digit_range in Hc. lia. }
  rewrite firstn_exact, Ha, skipn_exact.
  assert (Hgt : (p >? (if v6 then 128 else 32)) = false).
  { destruct (Z.gtb_spec p (if v6 then 128 else 32)); [lia|reflexivity]. }
  destruct (print_nat p) as [|c [|c' r]] eqn:E; [congruence| |].
  - rewrite Hpp, Hgt. reflexivity.
  - assert (Hc : (c <? 49) || (c >? 57) = false).
    { inversion Hdig as [|c0 r0 Hc0 _]; subst. apply is_digit_range in Hc0.
      assert (Hp0 : p <> 0). { intros ->. vm_compute in E. discriminate. }
      pose proof (print_nat_no_leading_zero p ltac:(lia)) as Hlz. rewrite E in Hlz. cbn [hd] in Hlz.
      apply orb_false_iff. split; [apply Z.ltb_ge; lia|]. destruct (Z.gtb_spec c 57); [lia|reflexivity]. }
    rewrite Hc, Hpp, Hgt. reflexivity.
Qed.

Lemma parse_ip_gen : forall v6 addr a p,
  parse_addr addr = Some (v6, a) -> Forall (fun x => x <> 47) addr ->
  (count_of 58 addr = 0 \/ count_of 46 addr = 0) ->
  0 <= p <= (if v6 then 128 else 32) ->
  parse_ip (if p =? (if v6 then 128 else 32) then addr else addr ++ [47] ++ print_nat p) = Some (v6, a, p).
Proof.
  intros v6 addr a p Ha H47 Hcnt Hp.
  assert (Hpd : forall c, c = 58 \/ c = 46 -> count_of c (47 :: print_nat p) = 0).
  { intros c Hc. apply count_of_zero. constructor; [lia|].
    eapply Forall_weaken; [|apply print_nat_all_digits]. intros x Hx. apply is_digit_range in Hx. lia. }
  assert (Hguard : forall s, count_of 58 s = count_of 58 addr -> count_of 46 s = count_of 46 addr ->
            (count_of 58 s >=? 2) && (count_of 46 s >=? 2) = false).
  { intros s H1 H2. rewrite H1, H2. destruct Hcnt as [-> | ->]; [reflexivity|]. apply andb_false_r. }
  destruct (Z.eqb_spec p (if v6 then 128 else 32)) as [E|E].
  - unfold parse_ip. rewrite Hguard by reflexivity.
    unfold parse_prefix. rewrite (last_index_of_none 47 addr H47). rewrite Ha. rewrite E. destruct v6; reflexivity.
  - unfold parse_ip. cbn [app].
    rewrite Hguard by (rewrite count_of_app, Hpd; [lia | auto]).
    rewrite (parse_prefix_app addr v6 a p Ha H47 Hp). reflexivity.
Qed.

(* ====================================================================================== *)
(** * 4. IPv4 *)
(* ====================================================================================== *)

Lemma digits_of_S : forall f z acc,
  digits_of (S f) z acc = if z <? 10 then (48 + z mod 10) :: acc else digits_of f (z / 10) ((48 + z mod 10) :: acc).
Proof. reflexivity. Qed.

Lemma v4_digit : forall d s first pd val dl pos acc,
  0 <= d <= 9 -> (dl =? 1) && (val =? 0) = false -> val * 10 + d <= 255 ->
  v4_loop ((48 + d) :: s) first pd val dl pos acc = v4_loop s false false (val * 10 + d) (dl + 1) pos acc.
Proof.
  intros d s first pd val dl pos acc Hd Hlz Hv. cbn [v4_loop].
  assert (Hdig : is_digit (48 + d) = true) by (apply is_digit_range; lia).
  rewrite Hdig, Hlz. unfold Text.digit_val.
  replace (48 + d - 48) with d by lia.
  destruct (Z.gtb_spec (val * 10 + d) 255); [lia|reflexivity].
Qed.

Lemma v4_octet : forall o rest first pd pos acc, 0 <= o <= 255 ->
  exists dl, v4_loop (print_nat o ++ rest) first pd 0 0 pos acc = v4_loop rest false false o dl pos acc.
Proof.
  intros o rest first pd pos acc Ho. unfold print_nat.
  pose proof (Z.mod_pos_bound o 10 ltac:(lia)) as Hm.
  pose proof (Z.div_mod o 10 ltac:(lia)) as Hdm.
  rewrite digits_of_S. destruct (Z.ltb_spec o 10) as [H1|H1].
  - eexists. cbn [app]. rewrite v4_digit; [|lia|reflexivity|lia].
    replace (0 * 10 + o mod 10) with o by (rewrite Z.mod_small; lia). reflexivity.
  - rewrite digits_of_S.
    pose proof (Z.mod_pos_bound (o / 10) 10 ltac:(lia)) as Hm2.
    pose proof (Z.div_mod (o / 10) 10 ltac:(lia)) as Hdm2.
    assert (Hq : 1 <= o / 10 <= 25) by lia.
    destruct (Z.ltb_spec (o / 10) 10) as [H2|H2].
    + eexists. cbn [app]. rewrite v4_digit; [|lia|reflexivity|lia].
      rewrite v4_digit; [|lia| |lia].
      2:{ apply andb_false_iff. right. apply Z.eqb_neq. lia. }
      replace ((0 * 10 + o / 10 mod 10) * 10 + o mod 10) with o by (rewrite (Z.mod_small (o / 10)); lia). reflexivity.
    + rewrite digits_of_S.
      assert (Hqq : 1 <= o / 10 / 10 <= 2) by lia.
      destruct (Z.ltb_spec (o / 10 / 10) 10) as [H3|H3]; [|lia].
      eexists. cbn [app]. rewrite (Z.mod_small (o / 10 / 10)) by lia.
      rewrite v4_digit; [|lia|reflexivity|lia].
      rewrite v4_digit; [|lia| |lia].
      2:{ apply andb_false_iff. right. apply Z.eqb_neq. lia. }
      rewrite v4_digit; [|lia|reflexivity|lia].
      replace (((0 * 10 + o / 10 / 10) * 10 + o / 10 mod 10) * 10 + o mod 10) with o by lia. reflexivity.
Qed.

Lemma v4_dot : forall o rest val dl pos acc, (pos =? 3) = false ->
  v4_loop (46 :: print_nat o ++ rest) false false val dl pos acc =
  v4_loop (print_nat o ++ rest) false true 0 0 (pos + 1) (acc * 256 + val).
Proof.
  intros o rest val dl pos acc Hpos.
  pose proof (print_nat_nonempty o) as Hne.
  destruct (print_nat o) as [|c r]; [congruence|].
  cbn [app]. cbn [v4_loop]. change (is_digit 46) with false. change (46 =? 46) with true. cbv iota.
  cbn [orb]. rewrite Hpos. reflexivity.
Qed.

Lemma parse_v4_dotted : forall a, 0 <= a < 2 ^ 32 -> parse_v4 (dotted a) = Some a.
Proof.
  intros a Ha. unfold parse_v4, dotted.
  pose proof (Z.mod_pos_bound (a / 16777216) 256 ltac:(lia)) as B1.
  pose proof (Z.mod_pos_bound (a / 65536) 256 ltac:(lia)) as B2.
  pose proof (Z.mod_pos_bound (a / 256) 256 ltac:(lia)) as B3.
  pose proof (Z.mod_pos_bound a 256 ltac:(lia)) as B4.
  destruct (v4_octet (a / 16777216 mod 256) ([46] ++ print_nat (a / 65536 mod 256) ++ [46] ++ print_nat (a / 256 mod 256) ++ [46] ++ print_nat (a mod 256)) true false 0 0 ltac:(lia)) as [d1 E1].
  rewrite E1. cbn [app]. rewrite v4_dot by reflexivity.
  destruct (v4_octet (a / 65536 mod 256) (46 :: print_nat (a / 256 mod 256) ++ 46 :: print_nat (a mod 256)) false true (0 + 1) (0 * 256 + a / 16777216 mod 256) ltac:(lia)) as [d2 E2].
  rewrite E2. rewrite v4_dot by reflexivity.
  destruct (v4_octet (a / 256 mod 256) (46 :: print_nat (a mod 256)) false true (0 + 1 + 1) ((0 * 256 + a / 16777216 mod 256) * 256 + a / 65536 mod 256) ltac:(lia)) as [d3 E3].
  rewrite E3. rewrite <- (app_nil_r (print_nat (a mod 256))). rewrite v4_dot by reflexivity.
  destruct (v4_octet (a mod 256) [] false true (0 + 1 + 1 + 1) (((0 * 256 + a / 16777216 mod 256) * 256 + a / 65536 mod 256) * 256 + a / 256 mod 256) ltac:(lia)) as [d4 E4].
  rewrite E4. cbn [v4_loop]. change (0 + 1 + 1 + 1 <? 3) with false. cbv iota. f_equal.
  change (2 ^ 32) with 4294967296 in Ha.
  pose proof (Z.div_mod a 256 ltac:(lia)) as D0.
  pose proof (Z.div_mod (a / 256) 256 ltac:(lia)) as D1.
  pose proof (Z.div_mod (a / 256 / 256) 256 ltac:(lia)) as D2.
  rewrite Z.div_div in D2 by lia. rewrite Z.div_div in D1 by lia. rewrite Z.div_div in D2 by lia.
  change (256 * 256) with 65536 in *. change (65536 * 256) with 16777216 in *.
  assert (Hs : 0 <= a / 16777216 < 256) by (split; [apply Z.div_pos; lia | apply Z.div_lt_upper_bound; lia]).
  rewrite (Z.mod_small (a / 16777216)) by lia.
  lia.
Qed.

Definition v4char (c : Z) : Prop := 48 <= c <= 57 \/ c = 46.

Lemma dotted_v4char : forall a, Forall v4char (dotted a).
Proof. intros a. apply dotted_Forall; unfold v4char; intros; lia. Qed.

Lemma addr_kind_v4 : forall ds r, all_digits ds -> addr_kind (ds ++ 46 :: r) = 4.
Proof.
  intros ds r H. induction H as [|c ds Hc Hds IH]; cbn [app addr_kind]; [reflexivity|].
  apply is_digit_range in Hc.
  destruct (Z.eqb_spec c 46); [lia|]. destruct (Z.eqb_spec c 58); [lia|]. destruct (Z.eqb_spec c 37); [lia|]. exact IH.
Qed.

Lemma parse_addr_dotted : forall a, 0 <= a < 2 ^ 32 -> parse_addr (dotted a) = Some (false, a).
Proof.
  intros a Ha. unfold parse_addr.
  assert (K : addr_kind (dotted a) = 4) by (unfold dotted; cbn [app]; apply addr_kind_v4, print_nat_all_digits).
  rewrite K. change (4 =? 4) with true. cbv iota. rewrite parse_v4_dotted by exact Ha. reflexivity.
Qed.

Theorem parse_print_ip_v4 : forall a p, 0 <= a < 2 ^ 32 -> 0 <= p <= 32 ->
  parse_ip (print_ip false a p) = Some (false, a, p).
Proof.
  intros a p Ha Hp. unfold print_ip.
  apply (parse_ip_gen false (dotted a) a p).
  - apply parse_addr_dotted. exact Ha.
  - eapply Forall_weaken; [|apply dotted_v4char]. unfold v4char. intros; lia.
  - left. apply count_of_zero. eapply Forall_weaken; [|apply dotted_v4char]. unfold v4char. intros; lia.
  - exact Hp.
Qed.

(* ====================================================================================== *)
(** * 5. IPv6: one field *)
(* ====================================================================================== *)

Definition fld (g : Z) : Prop := 0 <= g < 65536.

Lemma hexc_val : forall d, 0 <= d < 16 -> hex_val (hexc d) = Some d.
Proof.
  intros d Hd. unfold hexc, hex_val. destruct (Z.ltb_spec d 10) as [H|H].
  - replace ((48 <=? 48 + d) && (48 + d <=? 57)) with true
      by (symmetry; apply andb_true_iff; split; apply Z.leb_le; lia).
    f_equal. lia.
  - replace ((48 <=? 87 + d) && (87 + d <=? 57)) with false
      by (symmetry; apply andb_false_iff; right; apply Z.leb_gt; lia).
    replace ((97 <=? 87 + d) && (87 + d <=? 102)) with true
      by (symmetry; apply andb_true_iff; split; apply Z.leb_le; lia).
    f_equal. lia.
Qed.

Lemma hex_group_step : forall d s acc n, 0 <= d < 16 -> n < 4 ->
  hex_group (hexc d :: s) acc n = hex_group s (acc * 16 + d) (n + 1).
Proof.
  intros d s acc n Hd Hn. cbn [hex_group]. rewrite hexc_val by exact Hd.
  destruct (Z.geb_spec n 4); [lia|reflexivity].
Qed.

Lemma hex_group_rev : forall k fuel z rest, (k <= fuel)%nat -> (1 <= k <= 4)%nat -> 0 <= z < 16 ^ Z.of_nat k ->
  exists m, 1 <= m <= Z.of_nat k /\ hex_group (rev (hex_rev fuel z) ++ rest) 0 0 = hex_group rest z m.
Proof.
  induction k as [|k IH]; intros fuel z rest Hf Hk Hz; [lia|].
  destruct fuel as [|f]; [lia|].
  rewrite hex_rev_S.
  pose proof (Z.mod_pos_bound z 16 ltac:(lia)) as Hm.
  pose proof (Z.div_mod z 16 ltac:(lia)) as Hdm.
  destruct (Z.ltb_spec z 16) as [Hlt|Hge].
  - exists 1. split; [lia|]. cbn [rev app]. rewrite hex_group_step by lia.
    rewrite Z.mod_small by lia. reflexivity.
  - rewrite Nat2Z.inj_succ, Z.pow_succ_r in Hz by lia.
    destruct k as [|k]; [change (16 ^ Z.of_nat 0) with 1 in Hz; lia|].
    destruct (IH f (z / 16) (hexc (z mod 16) :: rest)) as [m [Hm1 Hm2]]; [lia|lia| |].
    { split; [apply Z.div_pos; lia | apply Z.div_lt_upper_bound; lia]. }
    exists (m + 1). split; [lia|].
    cbn [rev]. rewrite <- app_assoc. cbn [app]. rewrite Hm2.
    rewrite hex_group_step by lia. f_equal. lia.
Qed.

Lemma hex_group_stop : forall rest acc n, (rest = [] \/ exists r, rest = 58 :: r) -> hex_group rest acc n = Some (acc, n, rest).
Proof. intros rest acc n [-> | [r ->]]; reflexivity. Qed.

Lemma hex_field : forall g rest, fld g -> (rest = [] \/ exists r, rest = 58 :: r) ->
  exists m, 1 <= m /\ hex_group (hex_lower g ++ rest) 0 0 = Some (g, m, rest).
Proof.
  intros g rest Hg Hrest. unfold hex_lower.
  destruct (hex_group_rev 4 16 g rest) as [m [Hm1 Hm2]]; [lia|lia|exact Hg|].
  exists m. split; [lia|]. rewrite Hm2. apply hex_group_stop. exact Hrest.
Qed.

(* ====================================================================================== *)
(** * 6. IPv6: the group loop *)
(* ====================================================================================== *)

Lemma lowhex_cases : forall c, lowhex c ->
  c = 48 \/ c = 49 \/ c = 50 \/ c = 51 \/ c = 52 \/ c = 53 \/ c = 54 \/ c = 55 \/ c = 56 \/ c = 57 \/
  c = 97 \/ c = 98 \/ c = 99 \/ c = 100 \/ c = 101 \/ c = 102.
Proof. unfold lowhex. intros c H. lia. Qed.

Lemma v6_step_last : forall fu g i ell before after, fld g -> i < 8 ->
  v6_loop (S fu) (hex_lower g) i ell before after =
  Some (i + 1, ell, (if ell then before else g :: before), (if ell then g :: after else after), []).
Proof.
  intros fu g i ell before after Hg Hi.
  destruct (hex_field g [] Hg (or_introl eq_refl)) as [m [Hm1 Hm2]]. rewrite app_nil_r in Hm2.
  cbn [v6_loop]. destruct (Z.geb_spec i 8); [lia|]. rewrite Hm2.
  destruct (Z.eqb_spec m 0); [lia|]. reflexivity.
Qed.

Lemma v6_step_mid : forall fu g s' i ell before after, fld g -> i < 8 ->
  (exists c r, s' = c :: r /\ lowhex c) ->
  v6_loop (S fu) (hex_lower g ++ 58 :: s') i ell before after =
  v6_loop fu s' (i + 1) ell (if ell then before else g :: before) (if ell then g :: after else after).
Proof.
  intros fu g s' i ell before after Hg Hi [c [r [-> Hc]]].
  destruct (hex_field g (58 :: c :: r) Hg (or_intror (ex_intro _ _ eq_refl))) as [m [Hm1 Hm2]].
  cbn [v6_loop]. destruct (Z.geb_spec i 8); [lia|]. rewrite Hm2.
  destruct (Z.eqb_spec m 0); [lia|].
  cbv iota. change (negb (58 =? 58)) with false. cbv iota.
  assert (E : (c =? 58) = false) by (apply Z.eqb_neq; unfold lowhex in Hc; lia).
  rewrite E. reflexivity.
Qed.

Lemma v6_step_ell : forall fu g r2 i before after, fld g -> i < 8 ->
  v6_loop (S fu) (hex_lower g ++ 58 :: 58 :: r2) i false before after =
  match r2 with
  | [] => Some (i + 1, true, g :: before, after, [])
  | _ => v6_loop fu r2 (i + 1) true (g :: before) after
  end.
Proof.
  intros fu g r2 i before after Hg Hi.
  destruct (hex_field g (58 :: 58 :: r2) Hg (or_intror (ex_intro _ _ eq_refl))) as [m [Hm1 Hm2]].
  cbn [v6_loop]. destruct (Z.geb_spec i 8); [lia|]. rewrite Hm2.
  destruct (Z.eqb_spec m 0); [lia|]. reflexivity.
Qed.

Lemma join_head : forall gs, gs <> [] -> exists c r, join_colon (map hex_lower gs) = c :: r /\ lowhex c.
Proof.
  intros gs Hne. destruct gs as [|g gs]; [congruence|].
  destruct (hex_lower_head g) as [c [r [E Hc]]].
  destruct gs as [|g' gs].
  - cbn [map join_colon]. eauto.
  - cbn [map]. rewrite join_colon_cons2, E. cbn [app]. eauto.
Qed.

(* a non-empty run of fields up to the end of the string *)
Lemma v6_loop_tail : forall gs fu i ell before after, gs <> [] -> Forall fld gs ->
  (length gs <= fu)%nat -> 0 <= i -> i + Z.of_nat (length gs) <= 8 ->
  v6_loop fu (join_colon (map hex_lower gs)) i ell before after =
  Some (i + Z.of_nat (length gs), ell, (if ell then before else rev gs ++ before),
        (if ell then rev gs ++ after else after), []).
Proof.
  induction gs as [|g gs IH]; intros fu i ell before after Hne HF Hfu Hi Hlen; [congruence|].
  inversion HF as [|g0 gs0 Hg HF']; subst.
  destruct fu as [|fu]; [cbn [length] in Hfu; lia|].
  destruct gs as [|g' gs].
  - cbn [map join_colon]. rewrite v6_step_last; [|exact Hg|cbn [length] in Hlen; lia].
    cbn [length rev app]. destruct ell; reflexivity.
  - cbn [map]. rewrite join_colon_cons2.
    change (hex_lower g' :: map hex_lower gs) with (map hex_lower (g' :: gs)).
    rewrite v6_step_mid; [|exact Hg|cbn [length] in Hlen; lia|apply join_head; discriminate].
    rewrite IH; [|discriminate|exact HF'|cbn [length] in *; lia|lia|cbn [length] in *; lia].
    replace (i + 1 + Z.of_nat (length (g' :: gs))) with (i + Z.of_nat (length (g :: g' :: gs))) by (cbn [length]; lia).
    destruct ell; cbn [rev]; rewrite <- ?app_assoc; reflexivity.
Qed.

(* a non-empty run of fields followed by the ellipsis *)
Lemma v6_loop_pre : forall pre fu i before after rest2, pre <> [] -> Forall fld pre ->
  0 <= i -> i + Z.of_nat (length pre) <= 8 ->
  v6_loop (length pre + fu) (join_colon (map hex_lower pre) ++ 58 :: 58 :: rest2) i false before after =
  match rest2 with
  | [] => Some (i + Z.of_nat (length pre), true, rev pre ++ before, after, [])
  | _ => v6_loop fu rest2 (i + Z.of_nat (length pre)) true (rev pre ++ before) after
  end.
Proof.
  induction pre as [|g gs IH]; intros fu i before after rest2 Hne HF Hi Hlen; [congruence|].
  inversion HF as [|g0 gs0 Hg HF']; subst.
  destruct gs as [|g' gs].
  - cbn [map join_colon length Nat.add]. rewrite v6_step_ell; [|exact Hg|cbn [length] in Hlen; lia].
    cbn [rev app]. change (Z.of_nat 1) with 1. reflexivity.
  - cbn [map]. rewrite join_colon_cons2.
    change (hex_lower g' :: map hex_lower gs) with (map hex_lower (g' :: gs)).
    rewrite <- app_assoc. cbn [app].
    change (length (g :: g' :: gs) + fu)%nat with (S (length (g' :: gs) + fu)).
    rewrite v6_step_mid; [|exact Hg|cbn [length] in Hlen; lia|].
    2:{ destruct (join_head (g' :: gs) ltac:(discriminate)) as [c [r [E Hc]]]. rewrite E. cbn [app]. eauto. }
    rewrite IH; [|discriminate|exact HF'|lia|cbn [length] in *; lia].
    replace (i + 1 + Z.of_nat (length (g' :: gs))) with (i + Z.of_nat (length (g :: g' :: gs))) by (cbn [length]; lia).
    cbn [rev]. rewrite <- !app_assoc. reflexivity.
Qed.

(* ====================================================================================== *)
(** * 7. IPv6: parse_v6 on the two shapes of the printed address *)
(* ====================================================================================== *)

(* what parse_v6 does with the result of the group loop *)
Definition v6_finish (o : option (Z * bool * list Z * list Z * str)) : option Z :=
  match o with
  | None => None
  | Some (i, ell, before, after, rest) =>
    match rest with
    | _ :: _ => None
    | [] =>
      if i <? 8 then
        if negb ell then None
        else Some (groups_to_Z (rev before ++ repeat 0 (Z.to_nat (8 - i)) ++ rev after))
      else if ell then None
      else Some (groups_to_Z (rev before))
    end
  end.

Lemma parse_v6_nostrip : forall c r, lowhex c -> count_of 37 (c :: r) = 0 ->
  parse_v6 (c :: r) = v6_finish (v6_loop 9 (c :: r) 0 false [] []).
Proof.
  intros c r Hc H37. unfold parse_v6. rewrite H37. change (0 <? 0) with false. cbv iota.
  apply lowhex_cases in Hc.
  unfold v6_finish.
  repeat (destruct Hc as [Hc|Hc]; [subst c; cbv beta iota zeta; reflexivity|]). subst c; cbv beta iota zeta; reflexivity.
Qed.

Lemma parse_v6_strip : forall c r, count_of 37 (c :: r) = 0 ->
  parse_v6 (58 :: 58 :: c :: r) = v6_finish (v6_loop 9 (c :: r) 0 true [] []).
Proof.
  intros c r H37. unfold parse_v6.
  replace (count_of 37 (58 :: 58 :: c :: r)) with 0 by (symmetry; exact H37).
  change (0 <? 0) with false. unfold v6_finish. cbv beta iota zeta. reflexivity.
Qed.

Definition v6char (c : Z) : Prop := lowhex c \/ c = 58.

Lemma join_v6char : forall gs, Forall v6char (join_colon (map hex_lower gs)).
Proof.
  intros gs. apply join_colon_Forall; [right; reflexivity|]. apply map_hex_Forall. intros c Hc. left. exact Hc.
Qed.

Lemma v6char_count : forall c s, c <> 58 -> ~ lowhex c -> Forall v6char s -> count_of c s = 0.
Proof.
  intros c s H1 H2 HF. apply count_of_zero. eapply Forall_weaken; [|exact HF].
  intros x [Hx| ->] E; subst; auto.
Qed.

(* all eight fields written out *)
Lemma parse_v6_full : forall fs, Forall fld fs -> length fs = 8%nat ->
  parse_v6 (join_colon (map hex_lower fs)) = Some (groups_to_Z fs).
Proof.
  intros fs HF Hlen.
  assert (Hne : fs <> []) by (intros ->; discriminate).
  destruct (join_head fs Hne) as [c [r [E Hc]]].
  assert (H37 : count_of 37 (join_colon (map hex_lower fs)) = 0).
  { apply v6char_count; [lia | unfold lowhex; lia | apply join_v6char]. }
  rewrite E in H37 |- *. rewrite parse_v6_nostrip by assumption. rewrite <- E.
  rewrite v6_loop_tail; [|exact Hne|exact HF|lia|lia|lia].
  rewrite Hlen. cbn [v6_finish]. change (0 + Z.of_nat 8 <? 8) with false. cbv iota.
  rewrite app_nil_r, rev_involutive. reflexivity.
Qed.

(* a run of n >= 2 zero fields replaced by the ellipsis *)
Lemma parse_v6_compressed : forall pre n post, Forall fld pre -> Forall fld post -> (2 <= n)%nat ->
  (length pre + n + length post = 8)%nat ->
  parse_v6 (join_colon (map hex_lower pre) ++ [58; 58] ++ join_colon (map hex_lower post)) =
  Some (groups_to_Z (pre ++ repeat 0 n ++ post)).
Proof.
  intros pre n post Hpre Hpost Hn Hlen.
  assert (Hfin : forall i, i = Z.of_nat (length pre) + Z.of_nat (length post) ->
            v6_finish (Some (i, true, rev pre, rev post, [])) = Some (groups_to_Z (pre ++ repeat 0 n ++ post))).
  { intros i Hi. cbn [v6_finish]. destruct (Z.ltb_spec i 8); [|lia]. cbn [negb].
    rewrite !rev_involutive. replace (Z.to_nat (8 - i)) with n by lia. reflexivity. }
  destruct pre as [|g pre].
  - cbn [map join_colon app].
    destruct post as [|h post].
    + cbn [map join_colon]. assert (n = 8%nat) by (cbn [length] in Hlen; lia). subst n. reflexivity.
    + destruct (join_head (h :: post) ltac:(discriminate)) as [c [r [E Hc]]].
      assert (H37 : count_of 37 (join_colon (map hex_lower (h :: post))) = 0).
      { apply v6char_count; [lia | unfold lowhex; lia | apply join_v6char]. }
      rewrite E in H37 |- *. rewrite parse_v6_strip by assumption. rewrite <- E.
      rewrite v6_loop_tail; [|discriminate|exact Hpost|lia|lia|lia].
      rewrite app_nil_r. apply (Hfin (0 + Z.of_nat (length (h :: post)))). cbn [length]. lia.
  - set (P := g :: pre) in *.
    assert (HPne : P <> []) by (subst P; discriminate).
    destruct (join_head P HPne) as [c [r [E Hc]]].
    assert (H37 : count_of 37 (join_colon (map hex_lower P) ++ [58; 58] ++ join_colon (map hex_lower post)) = 0).
    { apply v6char_count; [lia | unfold lowhex; lia |].
      apply Forall_app. split; [apply join_v6char|]. cbn [app].
      constructor; [right; reflexivity|]. constructor; [right; reflexivity|]. apply join_v6char. }
    assert (Es : join_colon (map hex_lower P) ++ [58; 58] ++ join_colon (map hex_lower post) =
                 c :: (r ++ [58; 58] ++ join_colon (map hex_lower post))) by (rewrite E; reflexivity).
    rewrite Es in H37 |- *. rewrite parse_v6_nostrip by assumption. rewrite <- Es. cbn [app].
    replace 9%nat with (length P + (9 - length P))%nat by lia.
    rewrite v6_loop_pre; [|exact HPne|exact Hpre|lia|lia].
    rewrite app_nil_r.
    destruct post as [|h post].
    + cbn [map join_colon]. apply (Hfin (0 + Z.of_nat (length P))). cbn [length]. lia.
    + destruct (join_head (h :: post) ltac:(discriminate)) as [c' [r' [E' Hc']]].
      rewrite E'. rewrite <- E'.
      rewrite v6_loop_tail; [|discriminate|exact Hpost|cbn [length] in *; lia|lia|cbn [length] in *; lia].
      rewrite app_nil_r. apply Hfin. lia.
Qed.

(* ====================================================================================== *)
(** * 8. IPv6: the fields of an address, and the zero run chosen by the printer *)
(* ====================================================================================== *)

Lemma fields_length : forall a, length (fields a) = 8%nat.
Proof. intros a. reflexivity. Qed.

Lemma fields_fld : forall a, Forall fld (fields a).
Proof.
  intros a. unfold fields. apply Forall_forall. intros x Hx. apply in_map_iff in Hx.
  destruct Hx as [i [<- _]]. unfold fld. apply Z.mod_pos_bound. lia.
Qed.

Lemma fields_explicit : forall a, fields a =
  [ (a / 65536 / 65536 / 65536 / 65536 / 65536 / 65536 / 65536) mod 65536;
    (a / 65536 / 65536 / 65536 / 65536 / 65536 / 65536) mod 65536;
    (a / 65536 / 65536 / 65536 / 65536 / 65536) mod 65536;
    (a / 65536 / 65536 / 65536 / 65536) mod 65536;
    (a / 65536 / 65536 / 65536) mod 65536;
    (a / 65536 / 65536) mod 65536;
    (a / 65536) mod 65536;
    a mod 65536 ].
Proof.
  intros a. unfold fields. cbn [map seq].
  rewrite !Z.div_div by lia.
  repeat (f_equal; [f_equal; f_equal; reflexivity|]).
  f_equal. change (2 ^ (16 * (7 - Z.of_nat 7))) with 1. rewrite Z.div_1_r. reflexivity.
Qed.

Lemma groups_fields : forall a, 0 <= a < 2 ^ 128 -> groups_to_Z (fields a) = a.
Proof.
  intros a Ha. rewrite fields_explicit.
  unfold groups_to_Z. cbn [fold_left].
  pose proof (Z.div_mod a 65536 ltac:(lia)) as D0.
  set (q1 := a / 65536) in *.
  pose proof (Z.div_mod q1 65536 ltac:(lia)) as D1. set (q2 := q1 / 65536) in *.
  pose proof (Z.div_mod q2 65536 ltac:(lia)) as D2. set (q3 := q2 / 65536) in *.
  pose proof (Z.div_mod q3 65536 ltac:(lia)) as D3. set (q4 := q3 / 65536) in *.
  pose proof (Z.div_mod q4 65536 ltac:(lia)) as D4. set (q5 := q4 / 65536) in *.
  pose proof (Z.div_mod q5 65536 ltac:(lia)) as D5. set (q6 := q5 / 65536) in *.
  pose proof (Z.div_mod q6 65536 ltac:(lia)) as D6. set (q7 := q6 / 65536) in *.
  assert (H7 : 0 <= q7 < 65536).
  { subst q7 q6 q5 q4 q3 q2 q1. rewrite !Z.div_div by lia.
    split; [apply Z.div_pos; lia | apply Z.div_lt_upper_bound; [lia|]].
    change (2 ^ 128) with 340282366920938463463374607431768211456 in Ha. lia. }
  rewrite (Z.mod_small q7) by lia. lia.
Qed.

(* a candidate run (start, length): inside the list, all zero *)
Definition zgood (full : list Z) (b : nat * nat) : Prop :=
  (fst b + snd b <= length full)%nat /\ forall j, (fst b <= j < fst b + snd b)%nat -> nth j full 1 = 0.

Lemma better_good : forall full b s n, zgood full b -> zgood full (s, n) ->
  zgood full (if Nat.ltb (snd b) n then (s, n) else b).
Proof. intros full b s n Hb Hs. destruct (Nat.ltb (snd b) n); assumption. Qed.

Lemma zero_runs_good : forall l full pre i cs cl best,
  full = pre ++ l -> length pre = i -> zgood full best -> zgood full (cs, cl) ->
  (cl = 0 \/ cs + cl = i)%nat ->
  zgood full (zero_runs l i cs cl best).
Proof.
  induction l as [|x r IH]; intros full pre i cs cl best Hfull Hpre Hbest Hcur Hinv.
  - cbn [zero_runs]. apply better_good; assumption.
  - cbn [zero_runs].
    assert (Hfull' : full = (pre ++ [x]) ++ r) by (rewrite <- app_assoc; exact Hfull).
    assert (Hpre' : length (pre ++ [x]) = S i) by (rewrite app_length; cbn [length]; lia).
    assert (Hlen : length full = (i + S (length r))%nat) by (rewrite Hfull, app_length; cbn [length]; lia).
    destruct (Z.eqb_spec x 0) as [Hx|Hx].
    + apply (IH full (pre ++ [x])); try assumption.
      * destruct Hcur as [Hc1 Hc2]. cbn [fst snd] in Hc1, Hc2.
        assert (Hi : nth i full 1 = 0) by (rewrite Hfull, <- Hpre, nth_middle; exact Hx).
        split; cbn [fst snd].
        -- destruct (Nat.eqb_spec cl 0); lia.
        -- intros j Hj. destruct (Nat.eqb_spec cl 0) as [E|E].
           ++ assert (j = i) by lia. subst j. exact Hi.
           ++ destruct (Nat.eq_dec j i) as [->|Hne]; [exact Hi|]. apply Hc2. lia.
      * right. destruct (Nat.eqb_spec cl 0); lia.
    + apply (IH full (pre ++ [x])); try assumption.
      * apply better_good; assumption.
      * split; cbn [fst snd]; [lia|]. intros j Hj. lia.
      * left. reflexivity.
Qed.

Lemma zero_runs_spec : forall fs s n, zero_runs fs 0 0 0 (0%nat, 0%nat) = (s, n) ->
  (s + n <= length fs)%nat /\ forall j, (s <= j < s + n)%nat -> nth j fs 1 = 0.
Proof.
  intros fs s n H.
  assert (G0 : zgood fs (0%nat, 0%nat)) by (split; cbn [fst snd]; [lia | intros j Hj; lia]).
  pose proof (zero_runs_good fs fs [] 0%nat 0%nat 0%nat (0%nat, 0%nat) eq_refl eq_refl G0 G0 (or_introl eq_refl)) as G.
  rewrite H in G. exact G.
Qed.

Lemma zero_segment0 : forall n l, (n <= length l)%nat -> (forall j, (j < n)%nat -> nth j l 1 = 0) ->
  l = repeat 0 n ++ skipn n l.
Proof.
  induction n as [|n IH]; intros l Hlen Hz; [reflexivity|].
  destruct l as [|x l]; [cbn [length] in Hlen; lia|].
  cbn [repeat skipn app]. f_equal.
  - exact (Hz 0%nat ltac:(lia)).
  - apply IH; [cbn [length] in Hlen; lia|]. intros j Hj. exact (Hz (S j) ltac:(lia)).
Qed.

Lemma zero_segment : forall s n l, (s + n <= length l)%nat -> (forall j, (s <= j < s + n)%nat -> nth j l 1 = 0) ->
  l = firstn s l ++ repeat 0 n ++ skipn (s + n) l.
Proof.
  induction s as [|s IH]; intros n l Hlen Hz.
  - cbn [firstn app Nat.add]. apply zero_segment0; [exact Hlen|]. intros j Hj. apply Hz. lia.
  - destruct l as [|x l]; [cbn [length] in Hlen; lia|].
    cbn [firstn Nat.add skipn app]. f_equal.
    apply IH; [cbn [length] in Hlen; lia|]. intros j Hj. exact (Hz (S j) ltac:(lia)).
Qed.

(* ====================================================================================== *)
(** * 9. IPv6: the address string *)
(* ====================================================================================== *)

Lemma Forall_firstn : forall (P : Z -> Prop) n l, Forall P l -> Forall P (firstn n l).
Proof.
  intros P n l H. apply Forall_forall. intros x Hx. rewrite Forall_forall in H. apply H.
  rewrite <- (firstn_skipn n l). apply in_or_app. left. exact Hx.
Qed.

Lemma Forall_skipn : forall (P : Z -> Prop) n l, Forall P l -> Forall P (skipn n l).
Proof.
  intros P n l H. apply Forall_forall. intros x Hx. rewrite Forall_forall in H. apply H.
  rewrite <- (firstn_skipn n l). apply in_or_app. right. exact Hx.
Qed.

Lemma parse_v6_string : forall a, 0 <= a < 2 ^ 128 -> a / 2 ^ 32 <> 65535 -> parse_v6 (v6_string a) = Some a.
Proof.
  intros a Ha Hm. unfold v6_string.
  change 4294967296 with (2 ^ 32).
  destruct (Z.eqb_spec (a / 2 ^ 32) 65535) as [E|_]; [contradiction|].
  pose proof (fields_fld a) as HF. pose proof (fields_length a) as HL.
  destruct (zero_runs (fields a) 0 0 0 (0%nat, 0%nat)) as [s n] eqn:Ez.
  destruct (zero_runs_spec _ _ _ Ez) as [Hsn Hz].
  destruct (Nat.ltb_spec n 2) as [Hn|Hn].
  - rewrite parse_v6_full by assumption. rewrite groups_fields by exact Ha. reflexivity.
  - rewrite (parse_v6_compressed (firstn s (fields a)) n (skipn (s + n) (fields a))).
    + rewrite <- zero_segment by assumption. rewrite groups_fields by exact Ha. reflexivity.
    + apply Forall_firstn. exact HF.
    + apply Forall_skipn. exact HF.
    + exact Hn.
    + rewrite firstn_length_le by lia. rewrite skipn_length. lia.
Qed.

Lemma v6_string_v6char : forall a, a / 2 ^ 32 <> 65535 -> Forall v6char (v6_string a).
Proof.
  intros a Hm. unfold v6_string. change 4294967296 with (2 ^ 32).
  destruct (Z.eqb_spec (a / 2 ^ 32) 65535) as [E|_]; [contradiction|].
  destruct (zero_runs (fields a) 0 0 0 (0%nat, 0%nat)) as [s n].
  destruct (Nat.ltb n 2); [apply join_v6char|].
  apply Forall_app. split; [apply join_v6char|]. cbn [app].
  constructor; [right; reflexivity|]. constructor; [right; reflexivity|]. apply join_v6char.
Qed.

Lemma join_has_colon : forall (l : list str), (2 <= length l)%nat -> In 58 (join_colon l).
Proof.
  intros l H. destruct l as [|x [|y r]]; cbn [length] in H; try lia.
  rewrite join_colon_cons2. apply in_or_app. right. left. reflexivity.
Qed.

Lemma v6_string_has_colon : forall a, a / 2 ^ 32 <> 65535 -> In 58 (v6_string a).
Proof.
  intros a Hm. unfold v6_string. change 4294967296 with (2 ^ 32).
  destruct (Z.eqb_spec (a / 2 ^ 32) 65535) as [E|_]; [contradiction|].
  destruct (zero_runs (fields a) 0 0 0 (0%nat, 0%nat)) as [s n].
  destruct (Nat.ltb n 2).
  - apply join_has_colon. rewrite map_length, fields_length. lia.
  - apply in_or_app. right. left. reflexivity.
Qed.

Lemma addr_kind_v6 : forall s, Forall v6char s -> In 58 s -> addr_kind s = 6.
Proof.
  intros s HF. induction HF as [|c s Hc HF IH]; intros Hin; [contradiction|].
  cbn [addr_kind]. destruct Hc as [Hc| ->]; [|reflexivity].
  unfold lowhex in Hc.
  destruct (Z.eqb_spec c 46); [lia|]. destruct (Z.eqb_spec c 58); [lia|]. destruct (Z.eqb_spec c 37); [lia|].
  apply IH. destruct Hin as [E|Hin]; [lia|exact Hin].
Qed.

Lemma parse_addr_v6_string : forall a, 0 <= a < 2 ^ 128 -> a / 2 ^ 32 <> 65535 ->
  parse_addr (v6_string a) = Some (true, a).
Proof.
  intros a Ha Hm. unfold parse_addr.
  rewrite (addr_kind_v6 _ (v6_string_v6char a Hm) (v6_string_has_colon a Hm)).
  change (6 =? 4) with false. change (6 =? 6) with true. cbv iota.
  rewrite parse_v6_string by assumption. reflexivity.
Qed.

Theorem parse_print_ip_v6 : forall a p, 0 <= a < 2 ^ 128 -> 0 <= p <= 128 -> a / 2 ^ 32 <> 65535 ->
  parse_ip (print_ip true a p) = Some (true, a, p).
Proof.
  intros a p Ha Hp Hm. unfold print_ip.
  apply (parse_ip_gen true (v6_string a) a p).
  - apply parse_addr_v6_string; assumption.
  - eapply Forall_weaken; [|apply v6_string_v6char; exact Hm]. unfold v6char, lowhex. intros; lia.
  - right. apply v6char_count; [lia | unfold lowhex; lia | apply v6_string_v6char; exact Hm].
  - exact Hp.
Qed.

(* ====================================================================================== *)
(** * 10. Headline theorems *)
(* ====================================================================================== *)

Theorem parse_print_ip : forall v6 a p, ip_ok v6 a p = true -> parse_ip (print_ip v6 a p) = Some (v6, a, p).
Proof.
  intros v6 a p H. unfold ip_ok in H. apply andb_true_iff in H. destruct H as [Hwf Hm].
  apply ip_wfb_spec in Hwf. unfold ip_wf in Hwf. destruct v6.
  - destruct Hwf as [Ha Hp]. cbn [andb] in Hm. apply negb_true_iff, Z.eqb_neq in Hm.
    apply parse_print_ip_v6; assumption.
  - destruct Hwf as [Ha Hp]. apply parse_print_ip_v4; assumption.
Qed.

(* F30: an IPv4-mapped IPv6 address prints as ::ffff:1.2.3.4, which types.ParseIPAddr rejects *)
Example F30_mapped : parse_ip (print_ip true 281470698652420 128) = None.
Proof. vm_compute. reflexivity. Qed.

Example F30_mapped_string : print_ip true 281470698652420 128 = [58; 58; 102; 102; 102; 102; 58; 49; 46; 50; 46; 51; 46; 52].
Proof. vm_compute. reflexivity. Qed.

(* the exclusion in ip_ok is exactly the failing set: every well-formed IPv4-mapped address fails to parse back *)
Theorem mapped_never_roundtrips : forall a p, a / 2 ^ 32 = 65535 -> parse_ip (print_ip true a p) = None.
Proof.
  intros a p Hm.
  assert (H : forall s, (count_of 58 (v6_string a ++ s) >=? 2) && (count_of 46 (v6_string a ++ s) >=? 2) = true).
  { intros s. unfold v6_string. change 4294967296 with (2 ^ 32). rewrite Hm. change (65535 =? 65535) with true. cbv iota.
    assert (Hnn : forall c l, 0 <= count_of c l).
    { intros c l. induction l as [|x l IH]; cbn [count_of]; [lia|]. destruct (x =? c); lia. }
    unfold dotted. cbn [app]. repeat (progress (rewrite ?count_of_app; cbn [count_of])).
    change (58 =? 58) with true. change (46 =? 46) with true. change (102 =? 58) with false.
    change (102 =? 46) with false. change (58 =? 46) with false. change (46 =? 58) with false. cbv iota.
    repeat match goal with |- context [count_of ?c ?l] => generalize (Hnn c l); generalize (count_of c l); intros end.
    apply andb_true_iff. split; apply Z.geb_le; lia. }
  unfold print_ip, parse_ip. destruct (p =? 128).
  - specialize (H []). rewrite app_nil_r in H. rewrite H. reflexivity.
  - rewrite H. reflexivity.
Qed.

(* so, on well-formed values, ip_ok is exactly the set of values that parse back from their printed form *)
Theorem ip_ok_exact : forall v6 a p, ip_wf v6 a p ->
  (parse_ip (print_ip v6 a p) = Some (v6, a, p) <-> ip_ok v6 a p = true).
Proof.
  intros v6 a p Hwf. split; [|apply parse_print_ip].
  intros H. unfold ip_ok. apply andb_true_iff. split; [apply ip_wfb_spec; exact Hwf|].
  destruct v6; [|reflexivity]. cbn [andb]. apply negb_true_iff, Z.eqb_neq. intros Hm.
  rewrite (mapped_never_roundtrips a p Hm) in H. discriminate.
Qed.

(* the shapes needed by the section hypotheses of C07 / C08 (print_ip_plain) and C09 / C13 / C08_same_meaning (ip_roundtrip) *)
Definition print_ip_plain_concrete :
  forall v6 a p, Forall (fun c => 32 <= c < 127 /\ c <> 34 /\ c <> 92) (print_ip v6 a p) := print_ip_plain_all.
Definition ip_roundtrip_concrete :
  forall v6 a p, ip_ok v6 a p = true -> parse_ip (print_ip v6 a p) = Some (v6, a, p) := parse_print_ip.

Print Assumptions print_ip_plain_all.
Print Assumptions print_ip_plain_holds.
Print Assumptions parse_print_ip_v4.
Print Assumptions parse_print_ip_v6.
Print Assumptions parse_print_ip.
Print Assumptions F30_mapped.
Print Assumptions mapped_never_roundtrips.
Print Assumptions ip_ok_exact.
