(* Round trip of the JSON codec of entities and entity maps (Impl/EntityJson.v) on JSON trees.
   Section hypotheses: ord_perm (the member order of an encoded set is some permutation), ip_roundtrip (net/netip's printer is not
   modelled), ukey_inj (EntityUID.String() is injective; only used for the order-independence of the encoder).
   - dec_enc_entity_map          : for store_wf stores, decode (encode m) = the entities of m in the encoded (= sorted by ukey) order, each
                                   with its parents sorted and its attrs / tags Cedar-equal (veq both ways) to the originals
   - dec_enc_entity_map_eq       : with the identity member order, decode (encode m) = map norm_entity (sort_entities m)
   - second_encoding_identical   : with the identity member order, encoding what was decoded gives the identical document
   - dec_enc_entity_map_canon    : the decoded store has distinct keys, duplicate-free parents and well-formed attrs / tags
   - enc_entity_map_guards       : the encoder output never hits the two document-wide DUnk guards (any_fold, any_dups)
   - dec_entity_map_total        : the decoder never answers DFuel
   - dec_uid_explicit / dec_uid_implicit / dec_entity_map_spelling : both accepted spellings of a uid decode to the same uid, and an
                                   entity map written with any mix of the two spellings decodes to the same store
   - enc_entity_map_perm         : the encoded document does not depend on the order in which the store lists its entities
   - ej_ex_*                     : computed witnesses that keys_plain is needed (limitation of the MODEL's decoder domain)
   entity_wf contains `keys_plain`: no attribute / tag key (at any nesting depth) that equals one of the struct field names only up to
   case, or contains one of the four special characters.  For such keys the MODEL's decoder answers DUnk (outside its domain); this is a
   limitation of the model, not of the Go code (decided on the Go side by the ejsondec correspondence and the direct oracle). *)
From Coq Require Import ZArith List Bool Lia Arith String Permutation.
Import ListNotations.
From Cedar Require Import Base.Int64 Base.Json Lang.Value Lang.Expr Impl.IPAddr Impl.ValueJson Impl.PolicyJson Impl.EntityJson.
From Cedar Require Import Proofs.ValueProofs Proofs.ValueJsonProofs Proofs.PolicyJsonProofs.
Local Open Scope Z_scope.

(* ------------------------------------------------------------------------------------------ *)
(* Generic helpers                                                                             *)
(* ------------------------------------------------------------------------------------------ *)

Lemma ej_existsb_perm {A} (f : A -> bool) l l' : Permutation l l' -> existsb f l = existsb f l'.
Proof.
  intros H. induction H as [|x l l' _ IH|x y l|l1 l2 l3 _ IH1 _ IH2]; cbn [existsb].
  - reflexivity.
  - rewrite IH. reflexivity.
  - destruct (f x), (f y); reflexivity.
  - rewrite IH1. exact IH2.
Qed.

Lemma ej_existsb_map_false {A B} (g : A -> B) (f : B -> bool) l :
  (forall x, In x l -> f (g x) = false) -> existsb f (map g l) = false.
Proof.
  intros H. apply existsb_false_Forall. apply Forall_forall. intros y Hy.
  apply in_map_iff in Hy. destruct Hy as (x & <- & Hx). apply H. exact Hx.
Qed.

Lemma ej_uid_eqb_eq a b : EntityJson.uid_eqb a b = true <-> a = b.
Proof. exact (Value.uid_eqb_eq a b). Qed.

(* ---- insertion sort, generically ---- *)
Section ISort.
  Variable A : Type.
  Variable lt : A -> A -> bool.
  Hypothesis lt_asym : forall a b, lt a b = true -> lt b a = false.

  Fixpoint ins (u : A) (l : list A) : list A :=
    match l with [] => [u] | x :: r => if lt x u then x :: ins u r else u :: l end.
  Definition isort (l : list A) : list A := fold_right ins [] l.

  (* locally sorted: no element is followed by a smaller one *)
  Fixpoint lsorted (l : list A) : Prop :=
    match l with
    | [] => True
    | x :: r => match r with [] => True | y :: _ => lt y x = false end /\ lsorted r
    end.

  Lemma ins_perm u l : Permutation (ins u l) (u :: l).
  Proof.
    induction l as [|x r IH]; cbn [ins]; [apply Permutation_refl|].
    destruct (lt x u); [|apply Permutation_refl].
    eapply Permutation_trans; [apply perm_skip; exact IH | apply perm_swap].
  Qed.

  Lemma isort_perm l : Permutation (isort l) l.
  Proof.
    induction l as [|x r IH]; cbn [isort fold_right]; [constructor|].
    eapply Permutation_trans; [apply ins_perm | apply perm_skip; exact IH].
  Qed.

  Lemma ins_sorted u l : lsorted l -> lsorted (ins u l).
  Proof.
    induction l as [|x r IH]; intros Hs; cbn [ins].
    - cbn [lsorted]. auto.
    - destruct (lt x u) eqn:E.
      + destruct Hs as [Hh Hr]. specialize (IH Hr). split; [|exact IH].
        destruct r as [|y r']; cbn [ins].
        * apply lt_asym. exact E.
        * destruct (lt y u); [exact Hh | apply lt_asym; exact E].
      + split; [exact E | exact Hs].
  Qed.

  Lemma isort_sorted l : lsorted (isort l).
  Proof.
    induction l as [|x r IH]; cbn [isort fold_right]; [exact I|]. apply ins_sorted. exact IH.
  Qed.

  Lemma isort_id l : lsorted l -> isort l = l.
  Proof.
    induction l as [|x r IH]; intros Hs; [reflexivity|].
    destruct Hs as [Hh Hr]. cbn [isort fold_right]. fold (isort r). rewrite (IH Hr).
    destruct r as [|y r']; [reflexivity|]. cbn [ins]. rewrite Hh. reflexivity.
  Qed.

  Lemma isort_idem l : isort (isort l) = isort l.
  Proof. apply isort_id. apply isort_sorted. Qed.

  (* mapping a function that does not change the order keeps a sorted list sorted *)
  Lemma lsorted_map (g : A -> A) l :
    (forall a b, lt (g a) (g b) = lt a b) -> lsorted l -> lsorted (map g l).
  Proof.
    intros Hg. induction l as [|x r IH]; intros Hs; [exact I|].
    destruct Hs as [Hh Hr]. cbn [map]. split; [|apply IH; exact Hr].
    destruct r as [|y r']; [exact I|]. cbn [map]. rewrite Hg. exact Hh.
  Qed.

  (* two locally sorted permutations of each other are equal when the order is transitive and total on the members *)
  Hypothesis lt_trans : forall a b c, lt a b = true -> lt b c = true -> lt a c = true.
  Definition total_on (l : list A) : Prop := forall a b, In a l -> In b l -> lt a b = false -> lt b a = false -> a = b.

  Lemma total_on_tail x r : total_on (x :: r) -> total_on r.
  Proof. intros H a b Ha Hb. apply H; right; assumption. Qed.

  Lemma lsorted_head_le x r : total_on (x :: r) -> lsorted (x :: r) -> forall y, In y r -> lt y x = false.
  Proof.
    revert x. induction r as [|z r IH]; intros x Ht Hs y Hy; [destruct Hy|].
    destruct Hs as [Hh Hr]. destruct Hy as [<-|Hy]; [exact Hh|].
    pose proof (IH z (total_on_tail _ _ Ht) Hr y Hy) as Hyz.
    destruct (lt y x) eqn:E; [|reflexivity].
    destruct (lt x z) eqn:Exz.
    - pose proof (lt_trans _ _ _ E Exz). congruence.
    - assert (x = z).
      { apply Ht; [left; reflexivity | right; left; reflexivity | exact Exz | exact Hh]. }
      subst z. congruence.
  Qed.

  Lemma lsorted_perm_eq l : forall l', total_on l -> lsorted l -> lsorted l' -> Permutation l l' -> l = l'.
  Proof.
    induction l as [|x r IH]; intros l' Ht Hs Hs' Hp.
    - apply Permutation_nil in Hp. subst l'. reflexivity.
    - destruct l' as [|x' r']; [apply Permutation_sym, Permutation_nil in Hp; discriminate|].
      assert (Ht' : total_on (x' :: r')).
      { intros a b Ha Hb. apply Ht; eapply Permutation_in; try (apply Permutation_sym; exact Hp); assumption. }
      assert (Hxx : x = x').
      { assert (Hin : In x (x' :: r')) by (eapply Permutation_in; [exact Hp | left; reflexivity]).
        assert (Hin' : In x' (x :: r)) by (eapply Permutation_in; [apply Permutation_sym; exact Hp | left; reflexivity]).
        destruct Hin as [E|Hin]; [symmetry; exact E|].
        destruct Hin' as [E|Hin']; [exact E|].
        apply Ht; [left; reflexivity | right; exact Hin' | |].
        - destruct (lt x x') eqn:E; [|reflexivity].
          pose proof (lsorted_head_le _ _ Ht' Hs' x Hin). congruence.
        - apply (lsorted_head_le _ _ Ht Hs x' Hin'). }
      subst x'. f_equal. apply IH.
      + eapply total_on_tail. exact Ht.
      + destruct Hs; assumption.
      + destruct Hs'; assumption.
      + eapply Permutation_cons_inv. exact Hp.
  Qed.
End ISort.

(* ---- the two orders of the encoder ---- *)

Lemma uid_ltb_asym a b : uid_ltb a b = true -> uid_ltb b a = false.
Proof.
  unfold uid_ltb. intros H. apply orb_true_iff in H. destruct H as [H|H].
  - rewrite (str_ltb_asym _ _ H). cbn [orb].
    destruct (str_eqb (fst b) (fst a)) eqn:E; [|reflexivity].
    apply str_eqb_eq in E. rewrite E, str_ltb_irrefl in H. discriminate.
  - apply andb_true_iff in H. destruct H as [E H]. apply str_eqb_eq in E. rewrite E.
    rewrite str_ltb_irrefl, (str_ltb_asym _ _ H), andb_false_r. reflexivity.
Qed.

Lemma sort_uids_isort l : sort_uids l = isort uid uid_ltb l.
Proof. reflexivity. Qed.

Lemma sort_uids_perm l : Permutation (sort_uids l) l.
Proof. rewrite sort_uids_isort. apply isort_perm. Qed.

Lemma sort_uids_idem l : sort_uids (sort_uids l) = sort_uids l.
Proof. rewrite !sort_uids_isort. apply isort_idem. exact uid_ltb_asym. Qed.

Lemma sort_uids_nodup l : NoDup l -> NoDup (sort_uids l).
Proof. intros H. eapply Permutation_NoDup; [apply Permutation_sym, sort_uids_perm | exact H]. Qed.

Definition ent_lt (ukey : uid -> str) (x y : uid * entity) : bool := str_ltb (ukey (fst x)) (ukey (fst y)).

Lemma ent_lt_asym ukey a b : ent_lt ukey a b = true -> ent_lt ukey b a = false.
Proof. unfold ent_lt. apply str_ltb_asym. Qed.

Lemma sort_entities_isort ukey m : sort_entities ukey m = isort _ (ent_lt ukey) m.
Proof. reflexivity. Qed.

Lemma sort_entities_perm ukey m : Permutation (sort_entities ukey m) m.
Proof. rewrite sort_entities_isort. apply isort_perm. Qed.

(* ---- fuel-free version of any_fold ---- *)

Fixpoint jfold (j : json) : bool :=
  match j with
  | JArr l => (fix go (l : list json) : bool := match l with [] => false | x :: r => jfold x || go r end) l
  | JObj l => fold_only all_fields l ||
              (fix go (l : list (str * json)) : bool := match l with [] => false | (_, x) :: r => jfold x || go r end) l
  | _ => false
  end.

Lemma jfold_arr l : jfold (JArr l) = existsb jfold l.
Proof. cbn [jfold]. induction l as [|x l IH]; [reflexivity|]. cbn [existsb]. rewrite IH. reflexivity. Qed.

Lemma jfold_obj l : jfold (JObj l) = fold_only all_fields l || existsb (fun kv => jfold (snd kv)) l.
Proof.
  cbn [jfold]. f_equal. induction l as [|[k' x] l IH]; [reflexivity|]. cbn [existsb snd]. rewrite IH. reflexivity.
Qed.

Arguments jfold : simpl never.

Lemma any_fold_jfold : forall f j, (jdepth j <= f)%nat -> any_fold f j = jfold j.
Proof.
  induction f as [|f IH]; intros j Hj.
  - pose proof (jdepth_pos j). lia.
  - destruct j as [| | | | |l|l]; try reflexivity.
    + rewrite jfold_arr. cbn [any_fold].
      assert (H : forall x, In x l -> (jdepth x <= f)%nat).
      { intros x Hx. pose proof (jdepth_arr_in x l Hx). lia. }
      clear Hj. induction l as [|x l IHl]; [reflexivity|]. cbn [existsb].
      rewrite IH by (apply H; left; reflexivity). rewrite IHl; [reflexivity|].
      intros y Hy. apply H. right. exact Hy.
    + rewrite jfold_obj. cbn [any_fold]. f_equal.
      assert (H : forall kv, In kv l -> (jdepth (snd kv) <= f)%nat).
      { intros kv Hkv. pose proof (jdepth_obj_in kv l Hkv). lia. }
      clear Hj. induction l as [|x l IHl]; [reflexivity|]. cbn [existsb].
      rewrite IH by (apply H; left; reflexivity). rewrite IHl; [reflexivity|].
      intros y Hy. apply H. right. exact Hy.
Qed.

(* ---- keys that the model's decoder can look at: exactly a field name, or not a field name even up to case ---- *)

Definition plain_key (key : str) : bool :=
  negb (negb (existsb (fun n => str_eqb (k n) key) all_fields) &&
        (existsb (fun n => fold_eq (k n) key) all_fields || has_special key)).

Fixpoint keys_plain (v : value) : bool :=
  match v with
  | VSet l => (fix all (l : list value) : bool := match l with [] => true | x :: l' => keys_plain x && all l' end) l
  | VRecord l => (fix all (l : list (str * value)) : bool :=
                    match l with [] => true | (key, x) :: l' => plain_key key && keys_plain x && all l' end) l
  | _ => true
  end.

Lemma keys_plain_set l : keys_plain (VSet l) = forallb keys_plain l.
Proof. cbn [keys_plain]. induction l as [|x l IH]; [reflexivity|]. cbn [forallb]. rewrite <- IH. reflexivity. Qed.

Lemma keys_plain_record l : keys_plain (VRecord l) = forallb (fun kv => plain_key (fst kv) && keys_plain (snd kv)) l.
Proof.
  cbn [keys_plain]. induction l as [|[key x] l IH]; [reflexivity|]. cbn [forallb fst snd]. rewrite <- IH. reflexivity.
Qed.

Lemma fold_only_plain (l : list (str * json)) :
  forallb (fun kv => plain_key (fst kv)) l = true -> fold_only all_fields l = false.
Proof.
  intros H. unfold fold_only. apply existsb_false_Forall. apply Forall_forall. intros kv Hkv.
  rewrite forallb_forall in H. specialize (H kv Hkv). unfold plain_key in H. apply negb_true_iff in H. exact H.
Qed.

(* ---- a few list facts about the decoder's helpers ---- *)

Lemma dedup_uids_nodup : forall l seen, NoDup l -> (forall x, In x l -> ~ In x seen) -> dedup_uids l seen = l.
Proof.
  induction l as [|u l IH]; intros seen Hnd Hseen; [reflexivity|].
  cbn [dedup_uids]. inversion Hnd as [|u' l' Hu Hl]; subst.
  destruct (existsb (EntityJson.uid_eqb u) seen) eqn:E.
  - apply existsb_exists in E. destruct E as (x & Hx & Hux). apply ej_uid_eqb_eq in Hux. subst x.
    exfalso. apply (Hseen u); [left; reflexivity | exact Hx].
  - f_equal. apply IH; [exact Hl|]. intros x Hx [<-|Hxs]; [exact (Hu Hx)|].
    apply (Hseen x); [right; exact Hx | exact Hxs].
Qed.

Lemma store_put_fresh u e m : ~ In u (map fst m) -> store_put u e m = m ++ [(u, e)].
Proof.
  induction m as [|[u' e'] m IH]; intros Hn; [reflexivity|].
  cbn [store_put app]. destruct (EntityJson.uid_eqb u' u) eqn:E.
  - apply ej_uid_eqb_eq in E. subst u'. exfalso. apply Hn. left. reflexivity.
  - f_equal. apply IH. intros Hin. apply Hn. right. exact Hin.
Qed.

Lemma fold_put_nodup : forall (es acc : store), NoDup (map fst (acc ++ es)) ->
  fold_left (fun m ue => store_put (fst ue) (snd ue) m) es acc = acc ++ es.
Proof.
  induction es as [|[u e] es IH]; intros acc Hnd; cbn [fold_left fst snd].
  - rewrite app_nil_r. reflexivity.
  - assert (Hnd' : NoDup (map fst ((acc ++ [(u, e)]) ++ es))).
    { rewrite <- app_assoc. exact Hnd. }
    rewrite store_put_fresh.
    + rewrite IH by exact Hnd'. rewrite <- app_assoc. reflexivity.
    + rewrite map_app in Hnd. cbn [map fst] in Hnd. apply NoDup_remove_2 in Hnd.
      intros Hin. apply Hnd. apply in_or_app. left. exact Hin.
Qed.

(* the decoder never runs out of fuel (there is none) *)
Lemma dbind_nofuel {A B} (x : dres A) (f : A -> dres B) : x <> DFuel -> (forall a, f a <> DFuel) -> dbind x f <> DFuel.
Proof. intros Hx Hf. destruct x; cbn [dbind]; auto; discriminate. Qed.

Lemma dall_nofuel {A} (l : list (dres A)) : Forall (fun x => x <> DFuel) l -> dall l <> DFuel.
Proof.
  intros HF. induction HF as [|x l Hx _ IH]; cbn [dall]; [discriminate|].
  apply dbind_nofuel; [exact Hx|]. intros a. apply dbind_nofuel; [exact IH|]. intros rs. discriminate.
Qed.

Lemma sfield_nofuel key l : sfield key l <> DFuel.
Proof. unfold sfield. destruct (jget (k key) l) as [[]|]; discriminate. Qed.

Lemma dec_uid_nofuel j : EntityJson.dec_uid j <> DFuel.
Proof.
  unfold EntityJson.dec_uid. destruct j as [| | | | | |m]; try discriminate.
  destruct (has_dups m || negb (struct_ok ["type"; "id"; "__entity"]%string m)); [discriminate|].
  apply dbind_nofuel; [destruct (jget (k "type") m) as [[]|]; discriminate|]. intros ty.
  apply dbind_nofuel; [destruct (jget (k "id") m) as [[]|]; discriminate|]. intros id.
  destruct (jget (k "__entity") m) as [[| | | | | |em]|]; try discriminate.
  - destruct ty, id; discriminate.
  - destruct (has_dups em || negb (struct_ok ["type"; "id"]%string em)); [discriminate|].
    apply dbind_nofuel; [apply sfield_nofuel|]. intros t.
    apply dbind_nofuel; [apply sfield_nofuel|]. intros i. discriminate.
  - destruct ty, id; discriminate.
Qed.

Lemma dec_record_nofuel j : dec_record j <> DFuel.
Proof.
  unfold dec_record. destruct j as [[| | | | | |m]|]; try discriminate.
  apply dbind_nofuel; [|intros kvs; discriminate].
  apply dall_nofuel. apply Forall_forall. intros x Hx. apply in_map_iff in Hx. destruct Hx as (kv & <- & _).
  destruct (decode_value (snd kv)); discriminate.
Qed.

Lemma dec_entity_nofuel j : dec_entity j <> DFuel.
Proof.
  unfold dec_entity. destruct j as [| | | | | |m]; try discriminate.
  destruct (has_dups m || negb (struct_ok ["uid"; "parents"; "attrs"; "tags"]%string m)); [discriminate|].
  apply dbind_nofuel; [destruct (jget (k "uid") m); [apply dec_uid_nofuel | discriminate]|]. intros u.
  apply dbind_nofuel.
  { destruct (jget (k "parents") m) as [[| | | | |l|]|]; try discriminate.
    apply dbind_nofuel; [|intros us; discriminate].
    apply dall_nofuel. apply Forall_forall. intros x Hx. apply in_map_iff in Hx. destruct Hx as (y & <- & _).
    apply dec_uid_nofuel. }
  intros ps. apply dbind_nofuel; [apply dec_record_nofuel|]. intros attrs.
  apply dbind_nofuel; [apply dec_record_nofuel|]. intros tags. discriminate.
Qed.

Theorem dec_entity_map_total : forall j, dec_entity_map j <> DFuel.
Proof.
  intros j. unfold dec_entity_map.
  destruct (any_fold (S (jdepth j)) j); [discriminate|].
  destruct (any_dups (S (jdepth j)) j); [discriminate|].
  destruct j as [| | | | |l|]; try discriminate.
  apply dbind_nofuel; [|intros es; discriminate].
  apply dall_nofuel. apply Forall_forall. intros x Hx. apply in_map_iff in Hx. destruct Hx as (y & <- & _).
  apply dec_entity_nofuel.
Qed.

(* ---- the shape of an encoded entity, with the four members abstract ---- *)

Definition ent_json (ju jp ja jt : json) : json := JObj [(k "uid", ju); (k "parents", jp); (k "attrs", ja); (k "tags", jt)].

Lemma dec_entity_obj ju lp ja jt :
  dec_entity (ent_json ju (JArr lp) ja jt) =
  dbind (EntityJson.dec_uid ju) (fun u =>
  dbind (dbind (dall (map EntityJson.dec_uid lp)) (fun us => DOk (dedup_uids us []))) (fun ps =>
  dbind (dec_record (Some ja)) (fun attrs =>
  dbind (dec_record (Some jt)) (fun tags =>
  DOk (u, {| e_parents := ps; e_attrs := attrs; e_tags := tags |}))))).
Proof. reflexivity. Qed.

Lemma jfold_ent_json ju jp ja jt : jfold (ent_json ju jp ja jt) = jfold ju || jfold jp || jfold ja || jfold jt.
Proof.
  unfold ent_json. rewrite jfold_obj.
  replace (fold_only all_fields _) with false by reflexivity.
  cbn [existsb snd orb]. rewrite orb_false_r, !orb_assoc. reflexivity.
Qed.

Lemma jdups_ent_json ju jp ja jt : jdups (ent_json ju jp ja jt) = jdups ju || jdups jp || jdups ja || jdups jt.
Proof.
  unfold ent_json. rewrite jdups_obj.
  replace (has_dups _) with false by reflexivity.
  cbn [existsb snd orb]. rewrite orb_false_r, !orb_assoc. reflexivity.
Qed.

(* Record.UnmarshalJSON agrees with the value decoder on objects that are not escapes *)
Lemma dec_record_fields m : forall kvs, all_some (vj_dec_fields m) = Some kvs ->
  dall (map (fun kv : str * json => match decode_value (snd kv) with Some v => DOk (fst kv, v) | None => DErr end) m) = DOk kvs.
Proof.
  induction m as [|kx m IH]; intros kvs H.
  - cbn in H. injection H as <-. reflexivity.
  - unfold vj_dec_fields in H. cbn [map all_some] in H. fold (vj_dec_fields m) in H.
    cbn [map dall]. destruct (decode_value (snd kx)) as [v|]; cbn [option_map] in H; [|discriminate].
    destruct (all_some (vj_dec_fields m)) as [kvs'|]; cbn [option_map] in H; [|discriminate].
    injection H as <-. rewrite (IH kvs' eq_refl). reflexivity.
Qed.

Lemma dec_record_decode m v' :
  extn_probe (JObj m) = None -> entity_probe m = None -> decode_value (JObj m) = Some v' ->
  exists kvs, v' = VRecord kvs /\ dec_record (Some (JObj m)) = DOk kvs.
Proof.
  intros H1 H2. rewrite vj_decode_obj, H1, H2.
  destruct (all_some (vj_dec_fields m)) as [kvs|] eqn:E; cbn [option_map]; [|discriminate].
  intros H. injection H as <-. exists (rec_of_list kvs). split; [reflexivity|].
  unfold dec_record. rewrite (dec_record_fields m kvs E). reflexivity.
Qed.

Section EntityJsonProofs.
  Variable print_ip : bool -> Z -> Z -> str.
  Variable ord : list json -> list json.
  Hypothesis ord_perm : forall l, Permutation (ord l) l.
  (* net/netip's printer is Go's standard library and is not modelled: its round trip is assumed for the ip values considered *)
  Variable ip_ok : bool -> Z -> Z -> bool.
  Hypothesis ip_roundtrip : forall v6 a p, ip_ok v6 a p = true -> parse_ip (print_ip v6 a p) = Some (v6, a, p).
  Variable ukey : uid -> str.
  Hypothesis ukey_inj : forall a b, ukey a = ukey b -> a = b.

  Notation enc := (encode_value print_ip ord).
  Notation safe := (json_safe ip_ok).
  Notation encf := (enc_field print_ip ord).

  (* ---------------------------------------------------------------------------------------- *)
  (* Well-formed entities and stores; the relation between an entity and what it decodes to     *)
  (* ---------------------------------------------------------------------------------------- *)

  (* json_safe implies wf_value (entity_wf_attrs_wf below): key-sorted records of well-formed values *)
  Definition entity_wf (e : entity) : Prop :=
    NoDup (e_parents e) /\
    safe (VRecord (e_attrs e)) = true /\ keys_plain (VRecord (e_attrs e)) = true /\
    safe (VRecord (e_tags e)) = true /\ keys_plain (VRecord (e_tags e)) = true.

  Definition store_wf (m : store) : Prop :=
    NoDup (map fst m) /\ Forall (fun ue => entity_wf (snd ue)) m.

  Lemma entity_wf_attrs_wf e : entity_wf e -> wf_value (VRecord (e_attrs e)) = true /\ wf_value (VRecord (e_tags e)) = true.
  Proof. intros (_ & Ha & _ & Ht & _). split; eapply json_safe_wf; eassumption. Qed.

  Definition entity_equiv (ue ue' : uid * entity) : Prop :=
    fst ue = fst ue' /\
    e_parents (snd ue') = sort_uids (e_parents (snd ue)) /\
    veq (VRecord (e_attrs (snd ue))) (VRecord (e_attrs (snd ue'))) = true /\
    veq (VRecord (e_attrs (snd ue'))) (VRecord (e_attrs (snd ue))) = true /\
    veq (VRecord (e_tags (snd ue))) (VRecord (e_tags (snd ue'))) = true /\
    veq (VRecord (e_tags (snd ue'))) (VRecord (e_tags (snd ue))) = true.

  (* the parents are equal as sets *)
  Lemma entity_equiv_parents ue ue' : entity_equiv ue ue' -> Permutation (e_parents (snd ue)) (e_parents (snd ue')).
  Proof. intros (_ & -> & _). apply Permutation_sym, sort_uids_perm. Qed.

  Definition norm_entity (ue : uid * entity) : uid * entity :=
    (fst ue, {| e_parents := sort_uids (e_parents (snd ue)); e_attrs := e_attrs (snd ue); e_tags := e_tags (snd ue) |}).

  (* ---------------------------------------------------------------------------------------- *)
  (* The document-wide guards on encoded values                                                 *)
  (* ---------------------------------------------------------------------------------------- *)

  Lemma jfold_extn fn arg : jfold (extn fn arg) = false.
  Proof. reflexivity. Qed.

  Lemma jdups_extn fn arg : jdups (extn fn arg) = false.
  Proof. reflexivity. Qed.

  Lemma jfold_enc : forall v, keys_plain v = true -> jfold (enc v) = false.
  Proof.
    apply (value_ind' (fun v => keys_plain v = true -> jfold (enc v) = false)); try (intros; reflexivity).
    - intros l HF Hp. rewrite keys_plain_set in Hp. cbn [encode_value]. rewrite jfold_arr.
      rewrite (ej_existsb_perm jfold _ _ (ord_perm _)). apply ej_existsb_map_false.
      rewrite Forall_forall in HF. rewrite forallb_forall in Hp. intros x Hx. apply HF; auto.
    - intros l HF Hp. rewrite keys_plain_record in Hp. rewrite encode_record, jfold_obj.
      rewrite Forall_forall in HF. rewrite forallb_forall in Hp. apply orb_false_iff. split.
      + apply fold_only_plain. apply forallb_forall. intros kx Hkx. apply in_map_iff in Hkx.
        destruct Hkx as (kv & <- & Hkv). cbn [enc_field fst]. specialize (Hp kv Hkv). apply andb_true_iff in Hp. tauto.
      + apply ej_existsb_map_false. intros kv Hkv. cbn [enc_field snd]. apply HF; [exact Hkv|].
        specialize (Hp kv Hkv). apply andb_true_iff in Hp. tauto.
  Qed.

  Lemma jdups_enc : forall v, safe v = true -> jdups (enc v) = false.
  Proof.
    apply (value_ind' (fun v => safe v = true -> jdups (enc v) = false)); try (intros; reflexivity).
    - intros l HF Hp. rewrite json_safe_set in Hp. apply andb_true_iff in Hp. destruct Hp as [_ Hp].
      cbn [encode_value]. rewrite jdups_arr.
      rewrite (ej_existsb_perm jdups _ _ (ord_perm _)). apply ej_existsb_map_false.
      rewrite Forall_forall in HF. rewrite forallb_forall in Hp. intros x Hx. apply HF; auto.
    - intros l HF Hp. rewrite json_safe_record in Hp. apply andb_true_iff in Hp. destruct Hp as [Hks Hp].
      rewrite encode_record, jdups_obj.
      rewrite Forall_forall in HF. rewrite forallb_forall in Hp. apply orb_false_iff. split.
      + apply has_dups_sorted. rewrite <- Hks. apply vj_keys_sorted_ext. rewrite map_map. reflexivity.
      + apply ej_existsb_map_false. intros kv Hkv. cbn [enc_field snd]. apply HF; [exact Hkv|].
        specialize (Hp kv Hkv). apply andb_true_iff in Hp. tauto.
  Qed.

  (* ---------------------------------------------------------------------------------------- *)
  (* Uids: both spellings decode to the same uid                                                *)
  (* ---------------------------------------------------------------------------------------- *)

  Definition enc_uid_explicit (u : uid) : json := enc (VEntity (fst u) (snd u)).

  Theorem dec_uid_implicit : forall u, EntityJson.dec_uid (enc_uid_implicit u) = DOk u.
  Proof. intros [t i]. reflexivity. Qed.

  Theorem dec_uid_explicit : forall t i, EntityJson.dec_uid (enc (VEntity t i)) = DOk (t, i).
  Proof. intros t i. reflexivity. Qed.

  (* a spelling function: for every uid one of the two accepted spellings *)
  Definition spelling (sp : uid -> json) : Prop := forall u, sp u = enc_uid_implicit u \/ sp u = enc_uid_explicit u.

  Lemma spelling_dec sp : spelling sp -> forall u, EntityJson.dec_uid (sp u) = DOk u.
  Proof. intros Hsp u. destruct (Hsp u) as [-> | ->]; [apply dec_uid_implicit | destruct u; apply dec_uid_explicit]. Qed.

  Lemma spelling_jfold sp : spelling sp -> forall u, jfold (sp u) = false.
  Proof. intros Hsp u. destruct (Hsp u) as [-> | ->]; reflexivity. Qed.

  Lemma spelling_jdups sp : spelling sp -> forall u, jdups (sp u) = false.
  Proof. intros Hsp u. destruct (Hsp u) as [-> | ->]; reflexivity. Qed.

  (* ---------------------------------------------------------------------------------------- *)
  (* Records                                                                                    *)
  (* ---------------------------------------------------------------------------------------- *)

  Lemma dec_enc_record kvs : safe (VRecord kvs) = true ->
    exists kvs', dec_record (Some (EntityJson.enc_record print_ip ord kvs)) = DOk kvs' /\
                 veq (VRecord kvs) (VRecord kvs') = true /\ veq (VRecord kvs') (VRecord kvs) = true /\
                 wf_value (VRecord kvs') = true /\ ((forall l, ord l = l) -> kvs' = kvs).
  Proof.
    intros Hs. destruct (roundtrip_main print_ip ord ord_perm ip_ok ip_roundtrip _ Hs) as (v' & Hd & R & W & E).
    pose proof Hs as Hs0. rewrite json_safe_record in Hs. apply andb_true_iff in Hs. destruct Hs as [Hks Hsl].
    assert (Hk1 : forallb (fun kv : str * value => negb (str_eqb (fst kv) k_extn)) kvs = true).
    { rewrite forallb_forall in *. intros kv Hkv. specialize (Hsl kv Hkv).
      unfold key_ok in Hsl. rewrite !andb_true_iff in Hsl. tauto. }
    assert (Hk2 : forallb (fun kv : str * value => negb (str_eqb (fst kv) k_entity)) kvs = true).
    { rewrite forallb_forall in *. intros kv Hkv. specialize (Hsl kv Hkv).
      unfold key_ok in Hsl. rewrite !andb_true_iff in Hsl. tauto. }
    unfold EntityJson.enc_record. rewrite encode_record in *.
    destruct (dec_record_decode (map encf kvs) v') as (kvs' & -> & Hr).
    - unfold extn_probe. rewrite (enc_fields_no_key _ _ _ _ Hk1). reflexivity.
    - unfold entity_probe. rewrite (enc_fields_no_key _ _ _ _ Hk2). reflexivity.
    - exact Hd.
    - exists kvs'. split; [exact Hr|]. split; [exact R|]. split; [|split; [exact W|]].
      + rewrite veq_sym; [exact R | exact W | apply json_safe_wf with (ip_ok := ip_ok); exact Hs0].
      + intros Hid. specialize (E Hid). injection E as ->. reflexivity.
  Qed.

  (* ---------------------------------------------------------------------------------------- *)
  (* One entity, under any spelling of its uid and parents                                      *)
  (* ---------------------------------------------------------------------------------------- *)

  Definition enc_entity_sp (sp : uid -> json) (ue : uid * entity) : json :=
    ent_json (sp (fst ue)) (JArr (map sp (sort_uids (e_parents (snd ue)))))
             (EntityJson.enc_record print_ip ord (e_attrs (snd ue))) (EntityJson.enc_record print_ip ord (e_tags (snd ue))).

  Lemma enc_entity_implicit ue : enc_entity print_ip ord ue = enc_entity_sp enc_uid_implicit ue.
  Proof. reflexivity. Qed.

  Lemma spelling_implicit : spelling enc_uid_implicit.
  Proof. intros u. left. reflexivity. Qed.

  Lemma spelling_explicit : spelling enc_uid_explicit.
  Proof. intros u. right. reflexivity. Qed.

  Definition id_order : Prop := forall l, ord l = l.

  (* what the decoder yields is in canonical form: duplicate-free parents, well-formed (key-sorted, canonical sets) attrs and tags *)
  Definition entity_canon (e : entity) : Prop :=
    NoDup (e_parents e) /\ wf_value (VRecord (e_attrs e)) = true /\ wf_value (VRecord (e_tags e)) = true.

  Definition ent_rt (sp : uid -> json) (ue ue' : uid * entity) : Prop :=
    dec_entity (enc_entity_sp sp ue) = DOk ue' /\ entity_equiv ue ue' /\ (id_order -> ue' = norm_entity ue) /\
    entity_canon (snd ue').

  Lemma dec_enc_entity_sp sp ue : spelling sp -> entity_wf (snd ue) -> exists ue', ent_rt sp ue ue'.
  Proof.
    intros Hsp (Hnd & Hsa & _ & Hst & _). destruct ue as [u e]. cbn [fst snd] in *.
    destruct (dec_enc_record _ Hsa) as (a' & Hda & Ra1 & Ra2 & Wa & Ea).
    destruct (dec_enc_record _ Hst) as (t' & Hdt & Rt1 & Rt2 & Wt & Et).
    exists (u, {| e_parents := sort_uids (e_parents e); e_attrs := a'; e_tags := t' |}).
    unfold ent_rt, enc_entity_sp. cbn [fst snd]. rewrite dec_entity_obj.
    rewrite (spelling_dec sp Hsp u). cbn [dbind].
    rewrite map_map, (dall_map_ok _ (fun x => x)) by (apply Forall_forall; intros x _; apply spelling_dec; exact Hsp).
    rewrite map_id. cbn [dbind].
    rewrite dedup_uids_nodup; [|apply sort_uids_nodup; exact Hnd | intros x _ []].
    rewrite Hda, Hdt. cbn [dbind]. split; [reflexivity|]. split; [|split].
    - unfold entity_equiv. cbn [fst snd e_parents e_attrs e_tags]. tauto.
    - intros Hid. unfold norm_entity. cbn [fst snd]. rewrite (Ea Hid), (Et Hid). reflexivity.
    - unfold entity_canon. cbn [fst snd e_parents e_attrs e_tags].
      split; [apply sort_uids_nodup; exact Hnd | split; assumption].
  Qed.

  Lemma jfold_enc_entity_sp sp ue : spelling sp -> entity_wf (snd ue) -> jfold (enc_entity_sp sp ue) = false.
  Proof.
    intros Hsp (_ & _ & Hpa & _ & Hpt). unfold enc_entity_sp, EntityJson.enc_record.
    rewrite jfold_ent_json, (spelling_jfold sp Hsp), (jfold_enc _ Hpa), (jfold_enc _ Hpt), jfold_arr.
    rewrite ej_existsb_map_false; [reflexivity|]. intros x _. apply spelling_jfold. exact Hsp.
  Qed.

  Lemma jdups_enc_entity_sp sp ue : spelling sp -> entity_wf (snd ue) -> jdups (enc_entity_sp sp ue) = false.
  Proof.
    intros Hsp (_ & Hsa & _ & Hst & _). unfold enc_entity_sp, EntityJson.enc_record.
    rewrite jdups_ent_json, (spelling_jdups sp Hsp), (jdups_enc _ Hsa), (jdups_enc _ Hst), jdups_arr.
    rewrite ej_existsb_map_false; [reflexivity|]. intros x _. apply spelling_jdups. exact Hsp.
  Qed.
  (* ---------------------------------------------------------------------------------------- *)
  (* Entity maps                                                                                *)
  (* ---------------------------------------------------------------------------------------- *)

  Definition enc_entity_map_sp (sp : uid -> json) (m : store) : json :=
    JArr (map (enc_entity_sp sp) (sort_entities ukey m)).

  Lemma enc_entity_map_implicit m : enc_entity_map print_ip ord ukey m = enc_entity_map_sp enc_uid_implicit m.
  Proof. reflexivity. Qed.

  Lemma store_wf_sorted m : store_wf m -> store_wf (sort_entities ukey m).
  Proof.
    intros [Hnd Hw]. pose proof (sort_entities_perm ukey m) as Hp. split.
    - eapply Permutation_NoDup; [apply Permutation_map, Permutation_sym; exact Hp | exact Hnd].
    - rewrite Forall_forall in *. intros ue Hue. apply Hw. eapply Permutation_in; [exact Hp | exact Hue].
  Qed.

  Lemma dall_entities sp l : spelling sp -> Forall (fun ue => entity_wf (snd ue)) l ->
    exists l', dall (map dec_entity (map (enc_entity_sp sp) l)) = DOk l' /\ Forall2 entity_equiv l l' /\
               (id_order -> l' = map norm_entity l) /\ Forall (fun ue' => entity_canon (snd ue')) l'.
  Proof.
    intros Hsp HF. induction HF as [|ue l Hue _ IH].
    - exists []. split; [reflexivity|]. split; [constructor | split; [reflexivity | constructor]].
    - destruct IH as (l' & Hd & Heq & Hid & Hc).
      destruct (dec_enc_entity_sp sp ue Hsp Hue) as (ue' & Hd1 & Heq1 & Hid1 & Hc1).
      exists (ue' :: l'). cbn [map dall]. rewrite Hd1, Hd. cbn [dbind]. split; [reflexivity|]. split; [|split].
      + constructor; assumption.
      + intros H. rewrite (Hid1 H), (Hid H). reflexivity.
      + constructor; assumption.
  Qed.

  Lemma equiv_keys l l' : Forall2 entity_equiv l l' -> map fst l' = map fst l.
  Proof.
    intros H. induction H as [|x x' l l' Hx _ IH]; [reflexivity|].
    cbn [map]. destruct Hx as [-> _]. rewrite IH. reflexivity.
  Qed.

  Lemma jfold_enc_entity_map_sp sp m : spelling sp -> store_wf m -> jfold (enc_entity_map_sp sp m) = false.
  Proof.
    intros Hsp Hw. apply store_wf_sorted in Hw. destruct Hw as [_ Hw]. unfold enc_entity_map_sp.
    rewrite jfold_arr. apply ej_existsb_map_false. rewrite Forall_forall in Hw. intros ue Hue.
    apply jfold_enc_entity_sp; auto.
  Qed.

  Lemma jdups_enc_entity_map_sp sp m : spelling sp -> store_wf m -> jdups (enc_entity_map_sp sp m) = false.
  Proof.
    intros Hsp Hw. apply store_wf_sorted in Hw. destruct Hw as [_ Hw]. unfold enc_entity_map_sp.
    rewrite jdups_arr. apply ej_existsb_map_false. rewrite Forall_forall in Hw. intros ue Hue.
    apply jdups_enc_entity_sp; auto.
  Qed.

  (* the encoder output never hits the two document-wide DUnk guards of the decoder *)
  Theorem enc_entity_map_guards_sp : forall sp m, spelling sp -> store_wf m ->
    any_fold (S (jdepth (enc_entity_map_sp sp m))) (enc_entity_map_sp sp m) = false /\
    any_dups (S (jdepth (enc_entity_map_sp sp m))) (enc_entity_map_sp sp m) = false.
  Proof.
    intros sp m Hsp Hw. rewrite any_fold_jfold, any_dups_jdups by lia.
    split; [apply jfold_enc_entity_map_sp | apply jdups_enc_entity_map_sp]; assumption.
  Qed.

  Theorem enc_entity_map_guards : forall m, store_wf m ->
    any_fold (S (jdepth (enc_entity_map print_ip ord ukey m))) (enc_entity_map print_ip ord ukey m) = false /\
    any_dups (S (jdepth (enc_entity_map print_ip ord ukey m))) (enc_entity_map print_ip ord ukey m) = false.
  Proof. intros m Hw. rewrite enc_entity_map_implicit. apply enc_entity_map_guards_sp; [apply spelling_implicit | exact Hw]. Qed.

  Lemma dec_entity_map_arr l :
    any_fold (S (jdepth (JArr l))) (JArr l) = false -> any_dups (S (jdepth (JArr l))) (JArr l) = false ->
    dec_entity_map (JArr l) =
    dbind (dall (map dec_entity l)) (fun es => DOk (fold_left (fun m ue => store_put (fst ue) (snd ue) m) es [])).
  Proof. intros H1 H2. unfold dec_entity_map. rewrite H1, H2. reflexivity. Qed.

  (* the round trip under any spelling; the decoded store lists the entities in the encoded (= sorted by ukey) order *)
  Theorem dec_enc_entity_map_sp : forall sp m, spelling sp -> store_wf m ->
    exists m', dec_entity_map (enc_entity_map_sp sp m) = DOk m' /\
               Forall2 entity_equiv (sort_entities ukey m) m' /\
               (id_order -> m' = map norm_entity (sort_entities ukey m)) /\
               NoDup (map fst m') /\ Forall (fun ue' => entity_canon (snd ue')) m'.
  Proof.
    intros sp m Hsp Hw. destruct (enc_entity_map_guards_sp sp m Hsp Hw) as [G1 G2].
    unfold enc_entity_map_sp in *. rewrite (dec_entity_map_arr _ G1 G2).
    apply store_wf_sorted in Hw. destruct Hw as [Hnd Hw].
    destruct (dall_entities sp _ Hsp Hw) as (l' & Hd & Heq & Hid & Hc).
    assert (Hnd' : NoDup (map fst l')) by (rewrite (equiv_keys _ _ Heq); exact Hnd).
    exists l'. rewrite Hd. cbn [dbind]. split; [|repeat split; assumption].
    rewrite fold_put_nodup; [reflexivity|]. cbn [app]. exact Hnd'.
  Qed.

  Theorem dec_enc_entity_map : forall m, store_wf m ->
    exists m', dec_entity_map (enc_entity_map print_ip ord ukey m) = DOk m' /\
               Forall2 entity_equiv (sort_entities ukey m) m'.
  Proof.
    intros m Hw. rewrite enc_entity_map_implicit.
    destruct (dec_enc_entity_map_sp _ m spelling_implicit Hw) as (m' & Hd & Heq & _). exists m'. auto.
  Qed.

  (* the decoded store is in canonical form: distinct keys, duplicate-free parents, well-formed attrs and tags *)
  Theorem dec_enc_entity_map_canon : forall m m', store_wf m ->
    dec_entity_map (enc_entity_map print_ip ord ukey m) = DOk m' ->
    NoDup (map fst m') /\ Forall (fun ue' => entity_canon (snd ue')) m'.
  Proof.
    intros m m' Hw Hd. rewrite enc_entity_map_implicit in Hd.
    destruct (dec_enc_entity_map_sp _ m spelling_implicit Hw) as (m'' & Hd' & _ & _ & H1 & H2).
    rewrite Hd' in Hd. injection Hd as <-. auto.
  Qed.

  Theorem dec_enc_entity_map_eq : forall m, store_wf m -> (forall l, ord l = l) ->
    dec_entity_map (enc_entity_map print_ip ord ukey m) = DOk (map norm_entity (sort_entities ukey m)).
  Proof.
    intros m Hw Hid. rewrite enc_entity_map_implicit.
    destruct (dec_enc_entity_map_sp _ m spelling_implicit Hw) as (m' & Hd & _ & E & _). rewrite Hd, (E Hid). reflexivity.
  Qed.

  (* every accepted spelling of the uids and parents decodes to the same store *)
  Lemma dec_entity_sp_indep sp ue : spelling sp ->
    dec_entity (enc_entity_sp sp ue) = dec_entity (enc_entity_sp enc_uid_implicit ue).
  Proof.
    intros Hsp. unfold enc_entity_sp. rewrite !dec_entity_obj.
    rewrite (spelling_dec sp Hsp), (spelling_dec _ spelling_implicit).
    rewrite !map_map.
    rewrite (dall_map_ok (fun x => EntityJson.dec_uid (sp x)) (fun x => x))
      by (apply Forall_forall; intros x _; apply spelling_dec; exact Hsp).
    rewrite (dall_map_ok (fun x => EntityJson.dec_uid (enc_uid_implicit x)) (fun x => x))
      by (apply Forall_forall; intros x _; apply dec_uid_implicit).
    reflexivity.
  Qed.

  Theorem dec_entity_map_spelling : forall sp m, spelling sp -> store_wf m ->
    dec_entity_map (enc_entity_map_sp sp m) = dec_entity_map (enc_entity_map print_ip ord ukey m).
  Proof.
    intros sp m Hsp Hw. rewrite enc_entity_map_implicit.
    destruct (enc_entity_map_guards_sp sp m Hsp Hw) as [G1 G2].
    destruct (enc_entity_map_guards_sp _ m spelling_implicit Hw) as [G3 G4].
    unfold enc_entity_map_sp in *. rewrite (dec_entity_map_arr _ G1 G2), (dec_entity_map_arr _ G3 G4).
    rewrite !map_map. f_equal. f_equal. apply map_ext. intros ue. apply dec_entity_sp_indep. exact Hsp.
  Qed.

  (* ---------------------------------------------------------------------------------------- *)
  (* The second encoding                                                                        *)
  (* ---------------------------------------------------------------------------------------- *)

  Lemma enc_entity_norm ue : enc_entity print_ip ord (norm_entity ue) = enc_entity print_ip ord ue.
  Proof.
    unfold enc_entity, norm_entity. cbn [fst snd e_parents e_attrs e_tags]. rewrite sort_uids_idem. reflexivity.
  Qed.

  Lemma sort_entities_norm m :
    sort_entities ukey (map norm_entity (sort_entities ukey m)) = map norm_entity (sort_entities ukey m).
  Proof.
    rewrite !sort_entities_isort. apply isort_id. apply lsorted_map; [intros a b; reflexivity|].
    apply isort_sorted. apply ent_lt_asym.
  Qed.

  Lemma enc_entity_map_norm m :
    enc_entity_map print_ip ord ukey (map norm_entity (sort_entities ukey m)) = enc_entity_map print_ip ord ukey m.
  Proof.
    unfold enc_entity_map. rewrite sort_entities_norm, map_map. f_equal. apply map_ext. apply enc_entity_norm.
  Qed.

  Theorem second_encoding_identical : forall m m', store_wf m -> (forall l, ord l = l) ->
    dec_entity_map (enc_entity_map print_ip ord ukey m) = DOk m' ->
    enc_entity_map print_ip ord ukey m' = enc_entity_map print_ip ord ukey m.
  Proof.
    intros m m' Hw Hid Hd. rewrite (dec_enc_entity_map_eq m Hw Hid) in Hd. injection Hd as <-. apply enc_entity_map_norm.
  Qed.

  (* the decoded store is again well-formed (identity member order), so the round trip can be iterated *)
  Lemma store_wf_norm m : store_wf m -> store_wf (map norm_entity (sort_entities ukey m)).
  Proof.
    intros Hw. apply store_wf_sorted in Hw. destruct Hw as [Hnd Hw]. split.
    - rewrite map_map. cbn [norm_entity fst]. exact Hnd.
    - apply Forall_forall. intros ue Hue. apply in_map_iff in Hue. destruct Hue as (ue0 & <- & Hin).
      rewrite Forall_forall in Hw. destruct (Hw ue0 Hin) as (H1 & H2 & H3 & H4 & H5).
      unfold entity_wf, norm_entity. cbn [fst snd e_parents e_attrs e_tags].
      split; [apply sort_uids_nodup; exact H1 | tauto].
  Qed.

  (* ---------------------------------------------------------------------------------------- *)
  (* The document does not depend on the order in which the store (a Go map) lists its entities *)
  (* ---------------------------------------------------------------------------------------- *)

  Lemma nodup_fst_inj (m : store) : NoDup (map fst m) -> forall a b, In a m -> In b m -> fst a = fst b -> a = b.
  Proof.
    induction m as [|x m IH]; intros Hnd a b Ha Hb E; [destruct Ha|].
    cbn [map] in Hnd. inversion Hnd as [|y l Hx Hm]; subst.
    destruct Ha as [<-|Ha], Hb as [<-|Hb].
    - reflexivity.
    - exfalso. apply Hx. rewrite E. apply in_map. exact Hb.
    - exfalso. apply Hx. rewrite <- E. apply in_map. exact Ha.
    - apply IH; assumption.
  Qed.

  Theorem enc_entity_map_perm : forall m1 m2, NoDup (map fst m1) -> Permutation m1 m2 ->
    enc_entity_map print_ip ord ukey m1 = enc_entity_map print_ip ord ukey m2.
  Proof.
    intros m1 m2 Hnd Hp. unfold enc_entity_map. f_equal. f_equal. rewrite !sort_entities_isort.
    assert (Hp1 : Permutation (isort _ (ent_lt ukey) m1) m1) by apply isort_perm.
    apply lsorted_perm_eq with (lt := ent_lt ukey).
    - intros a b c. unfold ent_lt. apply str_ltb_trans.
    - intros a b Ha Hb H1 H2. apply (nodup_fst_inj m1 Hnd).
      + eapply Permutation_in; [exact Hp1 | exact Ha].
      + eapply Permutation_in; [exact Hp1 | exact Hb].
      + apply ukey_inj. apply str_ltb_total; assumption.
    - apply isort_sorted. apply ent_lt_asym.
    - apply isort_sorted. apply ent_lt_asym.
    - eapply Permutation_trans; [exact Hp1|]. eapply Permutation_trans; [exact Hp|]. apply Permutation_sym, isort_perm.
  Qed.
End EntityJsonProofs.

(* ------------------------------------------------------------------------------------------ *)
(* Examples (computed)                                                                          *)
(* ------------------------------------------------------------------------------------------ *)

Definition ej_ukey (u : uid) : str := fst u ++ s_of "::""" ++ snd u ++ s_of """".

Definition ej_ex_store : store :=
  [ ((s_of "User", s_of "bob"),
     {| e_parents := [(s_of "Group", s_of "staff"); (s_of "Group", s_of "admins"); (s_of "Dept", s_of "x")];
        e_attrs := [(s_of "age", VLong 41); (s_of "type", VString (s_of "human"))];
        e_tags := [(s_of "t", VSet [VEntity (s_of "User") (s_of "alice"); VDecimal 12500])] |});
    ((s_of "User", s_of "alice"),
     {| e_parents := []; e_attrs := [(s_of "nested", VRecord [(s_of "id", VLong 1)])]; e_tags := [] |}) ].

(* identity member order: the decoded store is the sorted store with sorted parents, and re-encodes identically *)
Example ej_ex_roundtrip :
  dec_entity_map (enc_entity_map vj_no_ip (fun l => l) ej_ukey ej_ex_store)
  = DOk (map norm_entity (sort_entities ej_ukey ej_ex_store)).
Proof. vm_compute. reflexivity. Qed.

Example ej_ex_sorted_order :
  map fst (sort_entities ej_ukey ej_ex_store) = [(s_of "User", s_of "alice"); (s_of "User", s_of "bob")] /\
  map (fun ue => e_parents (snd ue)) (map norm_entity (sort_entities ej_ukey ej_ex_store))
  = [[]; [(s_of "Dept", s_of "x"); (s_of "Group", s_of "admins"); (s_of "Group", s_of "staff")]].
Proof. split; vm_compute; reflexivity. Qed.

(* the explicit spelling of every uid and parent decodes to the same store *)
Example ej_ex_explicit :
  dec_entity_map (enc_entity_map_sp vj_no_ip (fun l => l) ej_ukey (enc_uid_explicit vj_no_ip (fun l => l)) ej_ex_store)
  = dec_entity_map (enc_entity_map vj_no_ip (fun l => l) ej_ukey ej_ex_store).
Proof. vm_compute. reflexivity. Qed.

(* keys_plain is needed: an attribute key that is a field name up to case only ("Type"), or contains a special character (long s,
   C5 BF), is json_safe and wf but the MODEL's decoder answers DUnk (outside its domain) *)
Definition ej_ex_fold_store (key : str) : store :=
  [ ((s_of "User", s_of "a"), {| e_parents := []; e_attrs := [(key, VLong 1)]; e_tags := [] |}) ].

Example ej_ex_keys_plain_needed :
  json_safe (fun _ _ _ => false) (VRecord [(s_of "Type", VLong 1)]) = true /\
  keys_plain (VRecord [(s_of "Type", VLong 1)]) = false /\
  dec_entity_map (enc_entity_map vj_no_ip (fun l => l) ej_ukey (ej_ex_fold_store (s_of "Type"))) = DUnk /\
  json_safe (fun _ _ _ => false) (VRecord [([120; 197; 191], VLong 1)]) = true /\
  keys_plain (VRecord [([120; 197; 191], VLong 1)]) = false /\
  dec_entity_map (enc_entity_map vj_no_ip (fun l => l) ej_ukey (ej_ex_fold_store [120; 197; 191])) = DUnk.
Proof. repeat split; vm_compute; reflexivity. Qed.

(* exact field names are fine as attribute keys (here "type", "id", "uid") *)
Example ej_ex_exact_field_names_ok :
  keys_plain (VRecord [(s_of "id", VLong 1); (s_of "type", VLong 2); (s_of "uid", VRecord [(s_of "attrs", VLong 3)])]) = true.
Proof. vm_compute. reflexivity. Qed.

(* duplicated parents are merged by the decoder but kept by the encoder: NoDup on the parents is needed for the round trip *)
Example ej_ex_nodup_parents_needed :
  let m := [ ((s_of "U", s_of "a"), {| e_parents := [(s_of "G", s_of "g"); (s_of "G", s_of "g")]; e_attrs := []; e_tags := [] |}) ] in
  dec_entity_map (enc_entity_map vj_no_ip (fun l => l) ej_ukey m)
  = DOk [ ((s_of "U", s_of "a"), {| e_parents := [(s_of "G", s_of "g")]; e_attrs := []; e_tags := [] |}) ].
Proof. vm_compute. reflexivity. Qed.

Print Assumptions dec_enc_entity_map.
Print Assumptions dec_enc_entity_map_eq.
Print Assumptions second_encoding_identical.
Print Assumptions enc_entity_map_guards.
Print Assumptions dec_entity_map_total.
Print Assumptions dec_uid_implicit.
Print Assumptions dec_uid_explicit.
Print Assumptions dec_enc_entity_map_sp.
Print Assumptions dec_entity_map_spelling.
Print Assumptions enc_entity_map_perm.
Print Assumptions store_wf_norm.
Print Assumptions dec_enc_entity_map_canon.
