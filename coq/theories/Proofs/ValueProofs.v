(* Algebraic laws of Cedar value equality (veq) and of the canonical set / record constructors. *)
From Coq Require Import ZArith List Bool Lia Arith.
From Cedar Require Import Lang.Value.
Import ListNotations.

(* ------------------------------------------------------------------------------------------ *)
(* Well-formedness: every set duplicate-free w.r.t. veq, every record strictly sorted by key. *)
(* ------------------------------------------------------------------------------------------ *)

Fixpoint wf_value (v : value) : bool :=
  match v with
  | VSet l => nodup_veq l &&
      (fix all (l : list value) : bool :=
         match l with [] => true | x :: l' => wf_value x && all l' end) l
  | VRecord l => keys_sorted l &&
      (fix all (l : list (str * value)) : bool :=
         match l with [] => true | (_, x) :: l' => wf_value x && all l' end) l
  | _ => true
  end.

Lemma wf_value_set l : wf_value (VSet l) = nodup_veq l && forallb wf_value l.
Proof.
  cbn [wf_value]. f_equal.
Qed.

Lemma wf_value_record l :
  wf_value (VRecord l) = keys_sorted l && forallb (fun kv => wf_value (snd kv)) l.
Proof.
  cbn [wf_value]. f_equal. induction l as [|[k x] l IH]; [reflexivity|].
  cbn [forallb snd]. rewrite <- IH. reflexivity.
Qed.

Lemma wf_set_inv l : wf_value (VSet l) = true ->
  nodup_veq l = true /\ forall x, In x l -> wf_value x = true.
Proof.
  rewrite wf_value_set, andb_true_iff, forallb_forall. auto.
Qed.

Lemma wf_rec_inv l : wf_value (VRecord l) = true ->
  keys_sorted l = true /\ Forall (fun kv => wf_value (snd kv) = true) l.
Proof.
  rewrite wf_value_record, andb_true_iff, forallb_forall, Forall_forall. auto.
Qed.

(* ------------------------------------------------------------------------------------------ *)
(* Basic facts about vmem / veq on sets and records                                            *)
(* ------------------------------------------------------------------------------------------ *)

Lemma vmem_cons x y l : vmem x (y :: l) = veq x y || vmem x l.
Proof. reflexivity. Qed.

Lemma vmem_nil x : vmem x [] = false.
Proof. reflexivity. Qed.

Lemma vmem_true_iff x l : vmem x l = true <-> exists y, In y l /\ veq x y = true.
Proof. unfold vmem. apply existsb_exists. Qed.

Lemma veq_set_iff l1 l2 : veq (VSet l1) (VSet l2) = true <->
  length l1 = length l2 /\ forall x, In x l1 -> exists y, In y l2 /\ veq x y = true.
Proof.
  rewrite veq_set, andb_true_iff, Nat.eqb_eq. unfold vsubset. rewrite forallb_forall.
  split; intros [H1 H2]; split; auto; intros x Hx.
  - apply vmem_true_iff. auto.
  - apply vmem_true_iff. auto.
Qed.

Lemma veq_set_l_inv l b : veq (VSet l) b = true -> exists m, b = VSet m.
Proof. destruct b; try (cbn [veq]; discriminate); eauto. Qed.

Lemma veq_set_r_inv l b : veq b (VSet l) = true -> exists m, b = VSet m.
Proof. destruct b; try (cbn [veq]; discriminate); eauto. Qed.

Lemma veq_rec_l_inv l b : veq (VRecord l) b = true -> exists m, b = VRecord m.
Proof. destruct b; try (cbn [veq]; discriminate); eauto. Qed.

Lemma veq_rec_r_inv l b : veq b (VRecord l) = true -> exists m, b = VRecord m.
Proof. destruct b; try (cbn [veq]; discriminate); eauto. Qed.

Definition atomic (a : value) : Prop :=
  match a with VSet _ | VRecord _ => False | _ => True end.

Lemma atomic_veq_l a b : atomic a -> veq a b = true -> a = b.
Proof.
  destruct a, b; cbn; try contradiction; try discriminate; intros _;
    rewrite ?andb_true_iff, ?Z.eqb_eq, ?str_eqb_eq, ?Bool.eqb_true_iff; intuition congruence.
Qed.

Lemma atomic_veq_r a b : atomic a -> veq b a = true -> b = a.
Proof.
  destruct a, b; cbn; try contradiction; try discriminate; intros _;
    rewrite ?andb_true_iff, ?Z.eqb_eq, ?str_eqb_eq, ?Bool.eqb_true_iff; intuition congruence.
Qed.

(* ------------------------------------------------------------------------------------------ *)
(* Reflexivity, type tags                                                                      *)
(* ------------------------------------------------------------------------------------------ *)

Theorem veq_refl : forall v, veq v v = true.
Proof.
  apply value_ind'.
  - intros b. destruct b; reflexivity.
  - intros z. cbn. apply Z.eqb_refl.
  - intros s. cbn. apply str_eqb_refl.
  - intros t i. cbn. rewrite !str_eqb_refl. reflexivity.
  - intros l HF. rewrite Forall_forall in HF. apply veq_set_iff. split; auto.
    intros x Hx. exists x. auto.
  - intros l HF. rewrite veq_record.
    induction HF as [|[k x] l Hx _ IH]; cbn [rec_eqb]; auto.
    cbn [snd] in Hx. rewrite str_eqb_refl, Hx, IH. reflexivity.
  - intros z. cbn. apply Z.eqb_refl.
  - intros z. cbn. apply Z.eqb_refl.
  - intros z. cbn. apply Z.eqb_refl.
  - intros b a p. cbn. rewrite Bool.eqb_reflx, !Z.eqb_refl. reflexivity.
Qed.

Theorem veq_type_tag : forall a b, veq a b = true -> type_tag a = type_tag b.
Proof.
  intros a b. destruct a, b; try (cbn [veq]; discriminate); reflexivity.
Qed.

(* ------------------------------------------------------------------------------------------ *)
(* Transitivity holds for ALL values (no well-formedness needed)                               *)
(* ------------------------------------------------------------------------------------------ *)

Lemma rec_eqb_trans_F l :
  Forall (fun kv => forall b c, veq (snd kv) b = true -> veq b c = true -> veq (snd kv) c = true) l ->
  forall l2 l3, rec_eqb l l2 = true -> rec_eqb l2 l3 = true -> rec_eqb l l3 = true.
Proof.
  intros HF. induction HF as [|[k x] l Hx _ IH]; intros [|[k2 y] l2] [|[k3 z] l3];
    cbn [rec_eqb]; try discriminate; auto.
  cbn [snd] in Hx. rewrite !andb_true_iff, !str_eqb_eq.
  intros [[-> Rxy] R1] [[-> Ryz] R2]. repeat split; eauto.
Qed.

Theorem veq_trans_nowf : forall a b c, veq a b = true -> veq b c = true -> veq a c = true.
Proof.
  apply (value_ind' (fun a => forall b c, veq a b = true -> veq b c = true -> veq a c = true));
    try (intros; match goal with H : veq _ _ = true |- _ =>
                   apply atomic_veq_l in H; [subst; assumption | exact I] end).
  - intros l HF b c Hab Hbc.
    destruct (veq_set_l_inv _ _ Hab) as [l2 ->]. destruct (veq_set_l_inv _ _ Hbc) as [l3 ->].
    apply veq_set_iff in Hab. apply veq_set_iff in Hbc. apply veq_set_iff.
    destruct Hab as [L1 S1], Hbc as [L2 S2]. split; [congruence|].
    intros x Hx. destruct (S1 x Hx) as (y & Hy & Rxy). destruct (S2 y Hy) as (z & Hz & Ryz).
    exists z; split; auto. rewrite Forall_forall in HF. eapply HF; eauto.
  - intros l HF b c Hab Hbc.
    destruct (veq_rec_l_inv _ _ Hab) as [l2 ->]. destruct (veq_rec_l_inv _ _ Hbc) as [l3 ->].
    rewrite veq_record in *. eapply rec_eqb_trans_F; eauto.
Qed.

(* ------------------------------------------------------------------------------------------ *)
(* Pigeonhole                                                                                  *)
(* ------------------------------------------------------------------------------------------ *)

Section Pigeon.
  Context {A B : Type} (Rel : A -> B -> Prop).

  (* no two distinct positions of la are related to the same element of lb *)
  Fixpoint sep (la : list A) (lb : list B) : Prop :=
    match la with
    | [] => True
    | a :: la' => (forall a' b, In a' la' -> In b lb -> Rel a b -> Rel a' b -> False) /\ sep la' lb
    end.

  Lemma sep_mono la lb lb' : (forall b, In b lb' -> In b lb) -> sep la lb -> sep la lb'.
  Proof.
    intros Hsub. induction la as [|a la IH]; cbn [sep]; auto.
    intros [H1 H2]. split; auto. intros a' b Ha' Hb. apply H1; auto.
  Qed.

  Lemma pigeon : forall la lb,
    (forall a, In a la -> exists b, In b lb /\ Rel a b) -> sep la lb ->
    length la <= length lb /\
    (length lb <= length la -> forall b, In b lb -> exists a, In a la /\ Rel a b).
  Proof.
    induction la as [|a la IH]; intros lb Hmap Hsep.
    - split; [cbn; lia|]. intros Hlen b Hb. destruct lb as [|b' lb]; [destruct Hb | cbn in Hlen; lia].
    - destruct Hsep as [Hhd Hsep].
      destruct (Hmap a (or_introl eq_refl)) as (b0 & Hb0 & Rab0).
      destruct (in_split _ _ Hb0) as (m1 & m2 & ->).
      assert (Hsub : forall b, In b (m1 ++ m2) -> In b (m1 ++ b0 :: m2)).
      { intros b Hb. apply in_app_iff in Hb. apply in_app_iff. cbn. tauto. }
      assert (Hlen' : length (m1 ++ b0 :: m2) = S (length (m1 ++ m2))).
      { rewrite !app_length. cbn. lia. }
      destruct (IH (m1 ++ m2)) as [IH1 IH2].
      + intros a' Ha'. destruct (Hmap a' (or_intror Ha')) as (b' & Hb' & Rab').
        apply in_app_iff in Hb'. cbn in Hb'. destruct Hb' as [Hb' | [<- | Hb']].
        * exists b'; split; auto. apply in_app_iff; auto.
        * exfalso. eapply Hhd; eauto.
        * exists b'; split; auto. apply in_app_iff; auto.
      + eapply sep_mono; eauto.
      + rewrite Hlen'. cbn [length]. split; [lia|]. intros Hlen b Hb.
        apply in_app_iff in Hb. cbn in Hb. destruct Hb as [Hb | [<- | Hb]].
        * destruct (IH2 ltac:(lia) b) as (a' & Ha' & R'); [apply in_app_iff; auto|].
          exists a'; split; [right|]; auto.
        * exists a; split; [left|]; auto.
        * destruct (IH2 ltac:(lia) b) as (a' & Ha' & R'); [apply in_app_iff; auto|].
          exists a'; split; [right|]; auto.
  Qed.
End Pigeon.

Lemma sep_intro {B} (Rel : value -> B -> Prop) la lb :
  nodup_veq la = true ->
  (forall a a' b, In a la -> In a' la -> In b lb -> Rel a b -> Rel a' b -> veq a a' = true) ->
  sep Rel la lb.
Proof.
  induction la as [|a la IH]; cbn [sep nodup_veq]; auto.
  rewrite andb_true_iff, negb_true_iff. intros [Hn Hnd] HE. split.
  - intros a' b Ha' Hb R1 R2.
    assert (Haa : veq a a' = true).
    { apply (HE a a' b); auto; [left; reflexivity | right; exact Ha']. }
    assert (Hm : vmem a la = true) by (apply vmem_true_iff; eauto).
    congruence.
  - apply IH; auto. intros a1 a2 b H1 H2 Hb. apply HE; auto; right; auto.
Qed.

(* ------------------------------------------------------------------------------------------ *)
(* Symmetry and the Euclidean property, by induction on the first argument                     *)
(* ------------------------------------------------------------------------------------------ *)

Definition props (a : value) : Prop :=
  (forall b, wf_value b = true -> veq a b = true -> veq b a = true) /\
  (forall b, wf_value b = true -> veq b a = true -> veq a b = true) /\
  (forall b c, wf_value b = true -> wf_value c = true ->
               veq a b = true -> veq a c = true -> veq b c = true).

Definition good (a : value) : Prop := wf_value a = true -> props a.

Lemma good_atomic a : atomic a -> good a.
Proof.
  intros Ha _. repeat split.
  - intros b _ H. apply atomic_veq_l in H; auto. subst. apply veq_refl.
  - intros b _ H. apply atomic_veq_r in H; auto. subst. apply veq_refl.
  - intros b c _ _ H1 H2. apply atomic_veq_l in H1; auto. apply atomic_veq_l in H2; auto.
    subst. apply veq_refl.
Qed.

Lemma good_set l : Forall good l -> good (VSet l).
Proof.
  intros HF Hwf. apply wf_set_inv in Hwf. destruct Hwf as [Hnd Hwfm].
  rewrite Forall_forall in HF.
  assert (G : forall x, In x l -> props x) by (intros x Hx; apply HF; auto).
  clear HF.
  (* surjectivity of the matching when veq (VSet l) (VSet l2) holds *)
  assert (PH : forall l2, (forall y, In y l2 -> wf_value y = true) ->
                 veq (VSet l) (VSet l2) = true ->
                 forall y, In y l2 -> exists x, In x l /\ veq x y = true).
  { intros l2 Hw2 Hab. apply veq_set_iff in Hab. destruct Hab as [L Sub].
    destruct (pigeon (fun x y => veq x y = true) l l2 Sub) as [_ P2].
    - apply sep_intro; auto. intros a a' b Ha Ha' Hb R1 R2.
      destruct (G a' Ha') as (S1 & _ & _).
      eapply veq_trans_nowf; [exact R1|]. apply S1; auto.
    - apply P2. lia. }
  repeat split.
  - intros b Hwfb Hab. destruct (veq_set_l_inv _ _ Hab) as [l2 ->].
    apply wf_set_inv in Hwfb. destruct Hwfb as [_ Hw2].
    pose proof (PH l2 Hw2 Hab) as P.
    apply veq_set_iff in Hab. destruct Hab as [L _].
    apply veq_set_iff. split; [auto|]. intros y Hy.
    destruct (P y Hy) as (x & Hx & R). exists x; split; auto.
    destruct (G x Hx) as (S1 & _ & _). apply S1; auto.
  - intros b Hwfb Hba. destruct (veq_set_r_inv _ _ Hba) as [l2 ->].
    apply wf_set_inv in Hwfb. destruct Hwfb as [Hnd2 Hw2].
    apply veq_set_iff in Hba. destruct Hba as [L Sub].
    apply veq_set_iff. split; [auto|].
    destruct (pigeon (fun (y x : value) => veq x y = true) l2 l) as [_ P2].
    + intros y Hy. destruct (Sub y Hy) as (x & Hx & R). exists x; split; auto.
      destruct (G x Hx) as (_ & S2 & _). apply S2; auto.
    + apply sep_intro; auto. intros a a' b Ha Ha' Hb R1 R2.
      destruct (G b Hb) as (_ & _ & E). apply E; auto.
    + apply P2. lia.
  - intros b c Hwfb Hwfc Hab Hac.
    destruct (veq_set_l_inv _ _ Hab) as [l2 ->]. destruct (veq_set_l_inv _ _ Hac) as [l3 ->].
    apply wf_set_inv in Hwfb. destruct Hwfb as [_ Hw2].
    apply wf_set_inv in Hwfc. destruct Hwfc as [_ Hw3].
    pose proof (PH l2 Hw2 Hab) as P.
    apply veq_set_iff in Hab. destruct Hab as [L2 _].
    apply veq_set_iff in Hac. destruct Hac as [L3 Sub3].
    apply veq_set_iff. split; [congruence|]. intros y Hy.
    destruct (P y Hy) as (x & Hx & Rxy). destruct (Sub3 x Hx) as (z & Hz & Rxz).
    exists z; split; auto. destruct (G x Hx) as (_ & _ & E). apply (E y z); auto.
Qed.

Definition wfF (l : list (str * value)) : Prop := Forall (fun kv => wf_value (snd kv) = true) l.

Lemma rec_sym1 l : Forall (fun kv => props (snd kv)) l ->
  forall l2, wfF l2 -> rec_eqb l l2 = true -> rec_eqb l2 l = true.
Proof.
  intros HP. induction HP as [|[k x] l Hx _ IH]; intros [|[k2 y] l2] Hw2;
    cbn [rec_eqb]; try discriminate; auto.
  rewrite !andb_true_iff, !str_eqb_eq. intros [[-> Rxy] Hr].
  inversion Hw2 as [|? ? Hwy Hw2']; subst. cbn [snd] in *.
  destruct Hx as (S1 & _ & _). repeat split; auto.
Qed.

Lemma rec_sym2 l : Forall (fun kv => props (snd kv)) l ->
  forall l2, wfF l2 -> rec_eqb l2 l = true -> rec_eqb l l2 = true.
Proof.
  intros HP. induction HP as [|[k x] l Hx _ IH]; intros [|[k2 y] l2] Hw2;
    cbn [rec_eqb]; try discriminate; auto.
  rewrite !andb_true_iff, !str_eqb_eq. intros [[-> Rxy] Hr].
  inversion Hw2 as [|? ? Hwy Hw2']; subst. cbn [snd] in *.
  destruct Hx as (_ & S2 & _). repeat split; auto.
Qed.

Lemma rec_eucl l : Forall (fun kv => props (snd kv)) l ->
  forall l2 l3, wfF l2 -> wfF l3 ->
    rec_eqb l l2 = true -> rec_eqb l l3 = true -> rec_eqb l2 l3 = true.
Proof.
  intros HP. induction HP as [|[k x] l Hx _ IH]; intros [|[k2 y] l2] [|[k3 z] l3] Hw2 Hw3;
    cbn [rec_eqb]; try discriminate; auto.
  rewrite !andb_true_iff, !str_eqb_eq. intros [[-> Rxy] Hr2] [[-> Rxz] Hr3].
  inversion Hw2 as [|? ? Hwy Hw2']; subst. inversion Hw3 as [|? ? Hwz Hw3']; subst.
  cbn [snd] in *. destruct Hx as (_ & _ & E). repeat split; eauto.
Qed.

Lemma good_record l : Forall (fun kv => good (snd kv)) l -> good (VRecord l).
Proof.
  intros HF Hwf. apply wf_rec_inv in Hwf. destruct Hwf as [_ Hw].
  assert (HP : Forall (fun kv => props (snd kv)) l).
  { rewrite Forall_forall in *. intros kv Hkv. apply HF; auto. }
  clear HF. repeat split.
  - intros b Hwfb Hab. destruct (veq_rec_l_inv _ _ Hab) as [l2 ->].
    apply wf_rec_inv in Hwfb. destruct Hwfb as [_ Hw2].
    rewrite veq_record in *. eapply rec_sym1; eauto.
  - intros b Hwfb Hba. destruct (veq_rec_r_inv _ _ Hba) as [l2 ->].
    apply wf_rec_inv in Hwfb. destruct Hwfb as [_ Hw2].
    rewrite veq_record in *. eapply rec_sym2; eauto.
  - intros b c Hwfb Hwfc Hab Hac.
    destruct (veq_rec_l_inv _ _ Hab) as [l2 ->]. destruct (veq_rec_l_inv _ _ Hac) as [l3 ->].
    apply wf_rec_inv in Hwfb. destruct Hwfb as [_ Hw2].
    apply wf_rec_inv in Hwfc. destruct Hwfc as [_ Hw3].
    rewrite veq_record in *. eapply (rec_eucl l); eauto.
Qed.

Lemma all_good : forall a, good a.
Proof.
  apply value_ind'; intros; try (apply good_atomic; exact I);
    [apply good_set | apply good_record]; assumption.
Qed.

Theorem veq_sym : forall a b, wf_value a = true -> wf_value b = true -> veq a b = veq b a.
Proof.
  intros a b Ha Hb. destruct (all_good a Ha) as (S1 & S2 & _).
  destruct (veq a b) eqn:E1.
  - symmetry. apply S1; auto.
  - destruct (veq b a) eqn:E2; auto. rewrite (S2 b Hb E2) in E1. discriminate.
Qed.

Theorem veq_trans : forall a b c, wf_value a = true -> wf_value b = true -> wf_value c = true ->
   veq a b = true -> veq b c = true -> veq a c = true.
Proof. intros a b c _ _ _. apply veq_trans_nowf. Qed.

(* ------------------------------------------------------------------------------------------ *)
(* Records: rec_insert / rec_of_list / rec_get                                                 *)
(* ------------------------------------------------------------------------------------------ *)

(* k0 is strictly below the first key of l *)
Definition lb {A} (k0 : str) (l : list (str * A)) : Prop :=
  match l with [] => True | (k', _) :: _ => str_ltb k0 k' = true end.

Lemma keys_sorted_cons {A} k (v : A) l :
  keys_sorted ((k, v) :: l) = true <-> lb k l /\ keys_sorted l = true.
Proof.
  destruct l as [|[k' v'] l'].
  - cbn. tauto.
  - change (keys_sorted ((k, v) :: (k', v') :: l'))
      with (str_ltb k k' && keys_sorted ((k', v') :: l')).
    rewrite andb_true_iff. cbn [lb]. tauto.
Qed.

Lemma rec_insert_lb {A} k0 k (v : A) l :
  lb k0 l -> str_ltb k0 k = true -> lb k0 (rec_insert k v l).
Proof.
  destruct l as [|[k' v'] l']; cbn [rec_insert lb]; auto.
  intros H1 H2. destruct (str_ltb k k'); [exact H2|]. destruct (str_eqb k k'); cbn [lb]; auto.
Qed.

Lemma rec_insert_sorted {A} k (v : A) l :
  keys_sorted l = true -> keys_sorted (rec_insert k v l) = true.
Proof.
  induction l as [|[k' v'] l' IH]; intros Hs; [reflexivity|].
  cbn [rec_insert]. pose proof Hs as Hs0. apply keys_sorted_cons in Hs. destruct Hs as [Hlb Hs].
  destruct (str_ltb k k') eqn:E1.
  - apply keys_sorted_cons. split; [exact E1 | exact Hs0].
  - destruct (str_eqb k k') eqn:E2.
    + apply str_eqb_eq in E2. subst k'. apply keys_sorted_cons. auto.
    + apply keys_sorted_cons. split; [|auto]. apply rec_insert_lb; auto.
      destruct (str_ltb k' k) eqn:E3; auto. exfalso.
      apply str_eqb_neq in E2. apply E2. apply str_ltb_total; auto.
Qed.

Lemma rec_of_list_sorted_gen {A} (kvs : list (str * A)) : keys_sorted (rec_of_list kvs) = true.
Proof.
  unfold rec_of_list.
  assert (H : forall acc : list (str * A), keys_sorted acc = true ->
            keys_sorted (fold_left (fun acc kv => rec_insert (fst kv) (snd kv) acc) kvs acc) = true).
  { induction kvs as [|kv kvs IH]; intros acc Hacc; cbn [fold_left]; auto.
    apply IH. apply rec_insert_sorted. exact Hacc. }
  apply H. reflexivity.
Qed.

Theorem rec_of_list_sorted : forall (kvs : list (str * value)), keys_sorted (rec_of_list kvs) = true.
Proof. intros kvs. apply rec_of_list_sorted_gen. Qed.

Lemma rec_get_insert {A} k k' (v : A) l :
  rec_get k (rec_insert k' v l) = if str_eqb k k' then Some v else rec_get k l.
Proof.
  induction l as [|[k2 v2] l IH]; cbn [rec_insert]; [reflexivity|].
  destruct (str_ltb k' k2) eqn:E1; [reflexivity|].
  destruct (str_eqb k' k2) eqn:E2.
  - apply str_eqb_eq in E2. subst k2. cbn [rec_get]. destruct (str_eqb k k'); reflexivity.
  - cbn [rec_get]. rewrite IH. destruct (str_eqb k k2) eqn:E3; auto.
    apply str_eqb_eq in E3. subst k2. destruct (str_eqb k k') eqn:E4; auto.
    apply str_eqb_eq in E4. subst k'. rewrite str_eqb_refl in E2. discriminate.
Qed.

Lemma rec_get_app {A} k (l1 l2 : list (str * A)) :
  rec_get k (l1 ++ l2) = match rec_get k l1 with Some v => Some v | None => rec_get k l2 end.
Proof.
  induction l1 as [|[k1 v1] l1 IH]; cbn [app rec_get]; auto.
  destruct (str_eqb k k1); auto.
Qed.

Lemma rec_of_list_get_gen {A} (kvs : list (str * A)) k :
  rec_get k (rec_of_list kvs) = rec_get k (rev kvs).
Proof.
  unfold rec_of_list.
  assert (H : forall acc : list (str * A),
            rec_get k (fold_left (fun acc kv => rec_insert (fst kv) (snd kv) acc) kvs acc) =
            match rec_get k (rev kvs) with Some v => Some v | None => rec_get k acc end).
  { induction kvs as [|[k1 v1] kvs IH]; intros acc; cbn [fold_left rev]; [reflexivity|].
    rewrite IH, rec_get_app. cbn [fst snd]. destruct (rec_get k (rev kvs)); auto.
    rewrite rec_get_insert. cbn [rec_get]. destruct (str_eqb k k1); auto. }
  rewrite H. destruct (rec_get k (rev kvs)); reflexivity.
Qed.

Theorem rec_of_list_get : forall (kvs : list (str * value)) k,
   rec_get k (rec_of_list kvs) = rec_get k (rev kvs).
Proof. intros kvs k. apply rec_of_list_get_gen. Qed.

Lemma rec_get_lb {A} k0 (l : list (str * A)) :
  keys_sorted l = true -> lb k0 l -> rec_get k0 l = None.
Proof.
  induction l as [|[k v] l IH]; intros Hs Hlb; cbn [rec_get]; auto.
  cbn [lb] in Hlb. apply keys_sorted_cons in Hs. destruct Hs as [Hl Hs].
  destruct (str_eqb k0 k) eqn:E.
  { apply str_eqb_eq in E. subst. rewrite str_ltb_irrefl in Hlb. discriminate. }
  apply IH; auto. destruct l as [|[k' v'] l']; cbn [lb] in *; auto.
  eapply str_ltb_trans; eauto.
Qed.

Definition get_rel (l m : list (str * value)) (k : str) : Prop :=
  match rec_get k l, rec_get k m with
  | Some x, Some y => veq x y = true
  | None, None => True
  | _, _ => False
  end.

Lemma rec_eqb_get : forall l m, rec_eqb l m = true -> forall k, get_rel l m k.
Proof.
  unfold get_rel.
  induction l as [|[k1 x] l IH]; intros [|[k2 y] m]; cbn [rec_eqb]; try discriminate.
  - intros _ k. cbn. auto.
  - rewrite !andb_true_iff, str_eqb_eq. intros [[-> R] Hr] k. cbn [rec_get].
    destruct (str_eqb k k2); auto. apply IH; auto.
Qed.

Lemma get_rec_eqb : forall l m, keys_sorted l = true -> keys_sorted m = true ->
  (forall k, get_rel l m k) -> rec_eqb l m = true.
Proof.
  unfold get_rel.
  induction l as [|[k1 x] l IH]; intros [|[k2 y] m] Hsl Hsm H; cbn [rec_eqb]; auto.
  - specialize (H k2). cbn [rec_get] in H. rewrite str_eqb_refl in H. destruct H.
  - specialize (H k1). cbn [rec_get] in H. rewrite str_eqb_refl in H. destruct H.
  - pose proof Hsl as Hsl0. pose proof Hsm as Hsm0.
    apply keys_sorted_cons in Hsl. destruct Hsl as [Hl1 Hsl].
    apply keys_sorted_cons in Hsm. destruct Hsm as [Hl2 Hsm].
    assert (Hk : k1 = k2).
    { destruct (str_ltb k1 k2) eqn:E1.
      { exfalso. pose proof (rec_get_lb k1 ((k2, y) :: m) Hsm0 E1) as Hn.
        specialize (H k1). rewrite Hn in H. cbn [rec_get] in H.
        rewrite str_eqb_refl in H. exact H. }
      destruct (str_ltb k2 k1) eqn:E2.
      { exfalso. pose proof (rec_get_lb k2 ((k1, x) :: l) Hsl0 E2) as Hn.
        specialize (H k2). rewrite Hn in H. cbn [rec_get] in H.
        rewrite str_eqb_refl in H. exact H. }
      apply str_ltb_total; auto. }
    subst k2. rewrite str_eqb_refl. pose proof (H k1) as H1. cbn [rec_get] in H1.
    rewrite str_eqb_refl in H1. rewrite H1. cbn [andb]. apply IH; auto.
    intros k. destruct (str_eqb k k1) eqn:E.
    + apply str_eqb_eq in E. subst k. rewrite (rec_get_lb k1 l), (rec_get_lb k1 m); auto.
    + specialize (H k). cbn [rec_get] in H. rewrite E in H. exact H.
Qed.

Theorem record_equal_iff : forall l m, keys_sorted l = true -> keys_sorted m = true ->
   (veq (VRecord l) (VRecord m) = true <->
    (forall k, match rec_get k l, rec_get k m with
               | Some x, Some y => veq x y = true
               | None, None => True
               | _, _ => False
               end)).
Proof.
  intros l m Hl Hm. rewrite veq_record. split.
  - intros H k. apply (rec_eqb_get l m H k).
  - intros H. apply get_rec_eqb; auto.
Qed.

(* ------------------------------------------------------------------------------------------ *)
(* Sets: dedup / mk_set                                                                        *)
(* ------------------------------------------------------------------------------------------ *)

Lemma vmem_rev x l : vmem x (rev l) = vmem x l.
Proof.
  unfold vmem. induction l as [|y l IH]; cbn [rev existsb]; auto.
  rewrite existsb_app. cbn [existsb]. rewrite IH, orb_false_r, orb_comm. reflexivity.
Qed.

Lemma dedup_vmem : forall l acc x, vmem x (dedup l acc) = vmem x l || vmem x acc.
Proof.
  induction l as [|y l IH]; intros acc x; cbn [dedup].
  - rewrite vmem_rev. reflexivity.
  - destruct (vmem y acc) eqn:E; rewrite IH, !vmem_cons.
    + destruct (veq x y) eqn:Exy; cbn [orb]; auto.
      assert (Hx : vmem x acc = true).
      { apply vmem_true_iff in E. destruct E as (a & Ha & Rya).
        apply vmem_true_iff. exists a; split; auto. eapply veq_trans_nowf; eauto. }
      rewrite Hx. apply orb_true_r.
    + destruct (veq x y), (vmem x l), (vmem x acc); reflexivity.
Qed.

Lemma mk_set_vmem l x : vmem x (dedup l []) = vmem x l.
Proof. rewrite dedup_vmem, vmem_nil, orb_false_r. reflexivity. Qed.

Theorem mk_set_members : forall l x,
  (exists m, mk_set l = VSet m /\ (vmem x m = true <-> vmem x l = true)).
Proof.
  intros l x. exists (dedup l []). split; [reflexivity|]. rewrite mk_set_vmem. tauto.
Qed.

Lemma dedup_incl : forall l acc x, In x (dedup l acc) -> In x l \/ In x acc.
Proof.
  induction l as [|y l IH]; intros acc x; cbn [dedup].
  - intros H. right. apply in_rev. exact H.
  - destruct (vmem y acc); intros H; apply IH in H; cbn in *; tauto.
Qed.

Lemma nodup_snoc l x : nodup_veq l = true -> (forall a, In a l -> veq a x = false) ->
  nodup_veq (l ++ [x]) = true.
Proof.
  induction l as [|a l IH]; cbn [app nodup_veq].
  - intros _ _. reflexivity.
  - rewrite !andb_true_iff, !negb_true_iff. intros [Hn Hnd] H. split.
    + unfold vmem in *. rewrite existsb_app, Hn. cbn [existsb orb].
      rewrite (H a (or_introl eq_refl)). reflexivity.
    + apply IH; auto. intros a' Ha'. apply H. right. exact Ha'.
Qed.

Lemma dedup_nodup : forall l acc,
  (forall x, In x l -> wf_value x = true) -> (forall x, In x acc -> wf_value x = true) ->
  nodup_veq (rev acc) = true -> nodup_veq (dedup l acc) = true.
Proof.
  induction l as [|y l IH]; intros acc Hl Hacc Hnd; cbn [dedup]; auto.
  assert (Hy : wf_value y = true) by (apply Hl; left; reflexivity).
  assert (Hl' : forall x, In x l -> wf_value x = true) by (intros x Hx; apply Hl; right; exact Hx).
  destruct (vmem y acc) eqn:E.
  - apply IH; auto.
  - apply IH; auto.
    + intros x [<-|Hx]; auto.
    + cbn [rev]. apply nodup_snoc; auto. intros a Ha. apply in_rev in Ha.
      rewrite veq_sym; auto. destruct (veq y a) eqn:E'; auto.
      assert (Hm : vmem y acc = true) by (apply vmem_true_iff; eauto). congruence.
Qed.

Theorem mk_set_wf : forall l, Forall (fun v => wf_value v = true) l -> wf_value (mk_set l) = true.
Proof.
  intros l HF. rewrite Forall_forall in HF. unfold mk_set.
  rewrite wf_value_set, andb_true_iff. split.
  - apply dedup_nodup; auto; try (intros x []).
  - apply forallb_forall. intros x Hx. apply dedup_incl in Hx. destruct Hx as [Hx|[]]. auto.
Qed.

Lemma sep_wf la lb :
  (forall a, In a la -> wf_value a = true) -> (forall b, In b lb -> wf_value b = true) ->
  nodup_veq la = true -> sep (fun a b => veq a b = true) la lb.
Proof.
  intros Ha Hb Hnd. apply sep_intro; auto.
  intros a a' b Hia Hia' Hib R1 R2. eapply veq_trans_nowf; [exact R1|].
  rewrite veq_sym; auto.
Qed.

Lemma dedup_sub l1 l2 :
  (forall x, In x l1 -> wf_value x = true) ->
  (forall x, wf_value x = true -> vmem x l1 = vmem x l2) ->
  forall a, In a (dedup l1 []) -> exists b, In b (dedup l2 []) /\ veq a b = true.
Proof.
  intros H1 Hm a Ha. apply vmem_true_iff. rewrite mk_set_vmem.
  assert (Hwa : wf_value a = true).
  { apply dedup_incl in Ha. destruct Ha as [Ha|[]]. auto. }
  rewrite <- Hm; auto. rewrite <- mk_set_vmem. apply vmem_true_iff.
  exists a; split; auto. apply veq_refl.
Qed.

Theorem mk_set_order_irrelevant : forall l1 l2,
   Forall (fun v => wf_value v = true) l1 -> Forall (fun v => wf_value v = true) l2 ->
   (forall x, wf_value x = true -> (vmem x l1 = vmem x l2)) -> veq (mk_set l1) (mk_set l2) = true.
Proof.
  intros l1 l2 H1 H2 Hm. rewrite Forall_forall in H1, H2. unfold mk_set.
  assert (W1 : forall x, In x (dedup l1 []) -> wf_value x = true).
  { intros x Hx. apply dedup_incl in Hx. destruct Hx as [Hx|[]]. auto. }
  assert (W2 : forall x, In x (dedup l2 []) -> wf_value x = true).
  { intros x Hx. apply dedup_incl in Hx. destruct Hx as [Hx|[]]. auto. }
  assert (N1 : nodup_veq (dedup l1 []) = true) by (apply dedup_nodup; auto; try (intros x [])).
  assert (N2 : nodup_veq (dedup l2 []) = true) by (apply dedup_nodup; auto; try (intros x [])).
  assert (S12 := dedup_sub l1 l2 H1 Hm).
  assert (S21 := dedup_sub l2 l1 H2 (fun x Hx => eq_sym (Hm x Hx))).
  destruct (pigeon _ _ _ S12 (sep_wf _ _ W1 W2 N1)) as [L12 _].
  destruct (pigeon _ _ _ S21 (sep_wf _ _ W2 W1 N2)) as [L21 _].
  apply veq_set_iff. split; [lia | exact S12].
Qed.

(* ------------------------------------------------------------------------------------------ *)
(* mk_record                                                                                   *)
(* ------------------------------------------------------------------------------------------ *)

Lemma rec_insert_Forall {A} (P : A -> Prop) k v (l : list (str * A)) :
  Forall (fun kv => P (snd kv)) l -> P v -> Forall (fun kv => P (snd kv)) (rec_insert k v l).
Proof.
  intros HF Hv. induction HF as [|[k' v'] l Hx Hl IH]; cbn [rec_insert].
  - constructor; auto.
  - destruct (str_ltb k k'); [constructor; auto|].
    destruct (str_eqb k k'); constructor; auto.
Qed.

Lemma rec_of_list_Forall {A} (P : A -> Prop) (kvs : list (str * A)) :
  Forall (fun kv => P (snd kv)) kvs -> Forall (fun kv => P (snd kv)) (rec_of_list kvs).
Proof.
  unfold rec_of_list. intros HF.
  assert (H : forall acc : list (str * A), Forall (fun kv => P (snd kv)) acc ->
            Forall (fun kv => P (snd kv))
                   (fold_left (fun acc kv => rec_insert (fst kv) (snd kv) acc) kvs acc)).
  { induction HF as [|kv kvs Hkv _ IH]; intros acc Hacc; cbn [fold_left]; auto.
    apply IH. apply rec_insert_Forall; auto. }
  apply H. constructor.
Qed.

Theorem mk_record_wf : forall kvs, Forall (fun kv => wf_value (snd kv) = true) kvs ->
  wf_value (mk_record kvs) = true.
Proof.
  intros kvs HF. unfold mk_record. rewrite wf_value_record, andb_true_iff. split.
  - apply rec_of_list_sorted.
  - apply forallb_forall. apply Forall_forall.
    apply (rec_of_list_Forall (fun v => wf_value v = true)). exact HF.
Qed.

(* wf_value is necessary for symmetry: sets with duplicates break it. *)
Example veq_sym_needs_wf :
  veq (VSet [VLong 1; VLong 1]) (VSet [VLong 1; VLong 2]) = true /\
  veq (VSet [VLong 1; VLong 2]) (VSet [VLong 1; VLong 1]) = false.
Proof. split; reflexivity. Qed.

Print Assumptions veq_refl.
Print Assumptions veq_type_tag.
Print Assumptions veq_sym.
Print Assumptions veq_trans.
Print Assumptions veq_trans_nowf.
Print Assumptions rec_of_list_sorted.
Print Assumptions rec_of_list_get.
Print Assumptions record_equal_iff.
Print Assumptions mk_set_wf.
Print Assumptions mk_set_members.
Print Assumptions mk_set_order_irrelevant.
Print Assumptions mk_record_wf.
