(* The tokenizer (Impl.Tokenizer, Section Tok) is parametric in its scanner:
   - a simulation relation between two scanner implementations lifts through every helper, next_token and
     tokenize_loop (Section Param);
   - every fuelled function is monotone in its fuel (Section Mono; no totality hypothesis on [nxt] is needed). *)
From Coq Require Import ZArith List Bool Lia.
Import ListNotations.
From Cedar Require Import Base.Utf8 Lang.Value Impl.Scanner Impl.Tokenizer.
Local Open Scope Z_scope.

Section Param.
  Variables (A B : Type).
  Variables (nxtA : A -> option (A * Z)) (startA stopA seterrA : A -> A) (posA : A -> Z * Z * Z)
            (textA : A -> list Z) (errA : A -> bool).
  Variables (nxtB : B -> option (B * Z)) (startB stopB seterrB : B -> B) (posB : B -> Z * Z * Z)
            (textB : B -> list Z) (errB : B -> bool).
  Variable R : A -> B -> Prop.
  Hypothesis H_nxt : forall a b a' ch, R a b -> nxtA a = Some (a', ch) -> exists b', nxtB b = Some (b', ch) /\ R a' b'.
  Hypothesis H_start : forall a b, R a b -> R (startA a) (startB b).
  Hypothesis H_stop : forall a b, R a b -> R (stopA a) (stopB b).
  Hypothesis H_seterr : forall a b, R a b -> R (seterrA a) (seterrB b).
  Hypothesis H_pos : forall a b, R a b -> posA a = posB b.
  Hypothesis H_text : forall a b, R a b -> textA a = textB b.
  Hypothesis H_err : forall a b, R a b -> errA a = errB b.

  (* a proof term of [R a ?b], found syntactically from the hypotheses *)
  Ltac findR a :=
    lazymatch goal with
    | HR : R a _ |- _ => constr:(HR)
    | _ =>
      lazymatch a with
      | startA ?a0 => let p := findR a0 in constr:(H_start _ _ p)
      | stopA ?a0 => let p := findR a0 in constr:(H_stop _ _ p)
      | seterrA ?a0 => let p := findR a0 in constr:(H_seterr _ _ p)
      end
    end.

  Ltac solveR := lazymatch goal with |- R ?a _ => let p := findR a in exact p end.

  Ltac red_all H := cbv beta iota zeta in H |- *; cbn [fst snd] in H |- *.

  (* H : Some (.., a1, ..) = Some (.., a', ..); goal: exists b', Some (.., b1, ..) = Some (.., b', ..) /\ R a' b' *)
  Ltac fin H :=
    try (lazymatch type of H with context [textA ?a] => let p := findR a in rewrite <- (H_text _ _ p) end);
    inversion H; subst; clear H; eexists; split; [reflexivity | solveR].

  (* the A-side step [H : nxtA a = Some (a1, c1)] is replayed on the B side *)
  Ltac nxt_step H a :=
    let a1 := fresh "a" in let c1 := fresh "c" in let Ha := fresh "Ha" in
    let b1 := fresh "b" in let Hb := fresh "Hb" in let HR1 := fresh "HR" in
    destruct (nxtA a) as [[a1 c1]|] eqn:Ha; [|discriminate H];
    let p := findR a in
    destruct (H_nxt _ _ _ _ p Ha) as [b1 [Hb HR1]];
    rewrite Hb; red_all H.

  (* replay of a helper call: [lemapp p Hs] builds the B-side fact from [p : R a b] and [Hs : fA = Some r] *)
  Ltac call2_step H x a lemapp :=
    let a1 := fresh "a" in let c1 := fresh "c" in let Hs := fresh "Hs" in
    let b1 := fresh "b" in let Hb := fresh "Hb" in let HR1 := fresh "HR" in
    destruct x as [[a1 c1]|] eqn:Hs; [|discriminate H];
    let p := findR a in
    let q := lemapp p Hs in destruct q as [b1 [Hb HR1]];
    rewrite Hb; red_all H.

  Ltac tail_nxt H a :=
    let b1 := fresh "b" in let Hb := fresh "Hb" in let HR1 := fresh "HR" in
    let p := findR a in
    destruct (H_nxt _ _ _ _ p H) as [b1 [Hb HR1]]; exists b1; split; assumption.

  Lemma scan_while_param : forall fuel p a b ch a' ch', R a b ->
    scan_while A nxtA fuel p a ch = Some (a', ch') ->
    exists b', scan_while B nxtB fuel p b ch = Some (b', ch') /\ R a' b'.
  Proof.
    induction fuel as [|f IH]; intros p a b ch a' ch' HR H; cbn [scan_while] in H |- *; [discriminate H|].
    destruct (p ch).
    - nxt_step H a. eapply IH; eassumption.
    - fin H.
  Qed.

  Lemma scan_hex_param : forall n maxd a b ch count a' ch' k, R a b ->
    scan_hex A nxtA n maxd a ch count = Some (a', ch', k) ->
    exists b', scan_hex B nxtB n maxd b ch count = Some (b', ch', k) /\ R a' b'.
  Proof.
    induction n as [|n IH]; intros maxd a b ch count a' ch' k HR H; cbn [scan_hex] in H |- *.
    - fin H.
    - destruct (Nat.ltb count maxd && is_hex ch).
      + nxt_step H a. eapply IH; eassumption.
      + fin H.
  Qed.

  Ltac hex_step H x a :=
    let a1 := fresh "a" in let c1 := fresh "c" in let k := fresh "k" in let Hs := fresh "Hs" in
    let b1 := fresh "b" in let Hb := fresh "Hb" in let HR1 := fresh "HR" in
    destruct x as [[[a1 c1] k]|] eqn:Hs; [|discriminate H];
    let p := findR a in
    destruct (scan_hex_param _ _ _ _ _ _ _ _ _ p Hs) as [b1 [Hb HR1]];
    rewrite Hb; red_all H.

  Lemma scan_escape_param : forall a b a' ch', R a b ->
    scan_escape A nxtA seterrA a = Some (a', ch') ->
    exists b', scan_escape B nxtB seterrB b = Some (b', ch') /\ R a' b'.
  Proof.
    intros a b a' ch' HR H. unfold scan_escape in H |- *.
    nxt_step H a.
    destruct (existsb (Z.eqb c) [110; 114; 116; 92; 48; 39; 34; 42]); [tail_nxt H a0|].
    destruct (c =? 120).
    { nxt_step H a0. hex_step H (scan_hex A nxtA 3 2 a1 c0 0) a1.
      destruct (Nat.ltb k 2); fin H. }
    destruct (c =? 117); [|fin H].
    nxt_step H a0.
    destruct (negb (c0 =? 123)); [fin H|].
    nxt_step H a1. hex_step H (scan_hex A nxtA 7 6 a2 c1 0) a2.
    destruct (Nat.ltb k 1); destruct (negb (c2 =? 125)); try (fin H).
    - tail_nxt H (seterrA a3).
    - tail_nxt H a3.
  Qed.

  Lemma scan_string_param : forall fuel a b ch a' ch', R a b ->
    scan_string A nxtA seterrA fuel a ch = Some (a', ch') ->
    exists b', scan_string B nxtB seterrB fuel b ch = Some (b', ch') /\ R a' b'.
  Proof.
    induction fuel as [|f IH]; intros a b ch a' ch' HR H; cbn [scan_string] in H |- *; [discriminate H|].
    destruct (ch =? 34); [fin H|].
    destruct ((ch =? 10) || (ch <? 0)); [fin H|].
    destruct (ch =? 92).
    - call2_step H (scan_escape A nxtA seterrA a) a ltac:(fun p Hs => constr:(scan_escape_param _ _ _ _ p Hs)). eapply IH; eassumption.
    - nxt_step H a. eapply IH; eassumption.
  Qed.

  Lemma scan_block_comment_param : forall fuel a b ch a' ch', R a b ->
    scan_block_comment A nxtA seterrA fuel a ch = Some (a', ch') ->
    exists b', scan_block_comment B nxtB seterrB fuel b ch = Some (b', ch') /\ R a' b'.
  Proof.
    induction fuel as [|f IH]; intros a b ch a' ch' HR H; cbn [scan_block_comment] in H |- *; [discriminate H|].
    destruct (ch <? 0); [fin H|].
    nxt_step H a.
    destruct ((ch =? 42) && (c =? 47)).
    - tail_nxt H a0.
    - eapply IH; eassumption.
  Qed.

  Lemma scan_operator_param : forall a b ch0 ch ty a' ch', R a b ->
    scan_operator A nxtA a ch0 ch = Some (ty, a', ch') ->
    exists b', scan_operator B nxtB b ch0 ch = Some (ty, b', ch') /\ R a' b'.
  Proof.
    intros a b ch0 ch ty a' ch' HR H. unfold scan_operator, option_map in H |- *. red_all H.
    destruct (existsb (Z.eqb ch0) [64; 46; 44; 59; 40; 41; 123; 125; 91; 93; 43; 45; 42]); [fin H|].
    destruct (ch0 =? 58). { destruct (ch =? 58); [nxt_step H a|]; fin H. }
    destruct ((ch0 =? 33) || (ch0 =? 60) || (ch0 =? 62)). { destruct (ch =? 61); [nxt_step H a|]; fin H. }
    destruct (ch0 =? 61). { destruct (ch =? 61); [nxt_step H a|]; fin H. }
    destruct (ch0 =? 124). { destruct (ch =? 124); [nxt_step H a|]; fin H. }
    destruct (ch0 =? 38). { destruct (ch =? 38); [nxt_step H a|]; fin H. }
    fin H.
  Qed.

  Ltac op_step H x a :=
    let ty := fresh "ty" in let a1 := fresh "a" in let c1 := fresh "c" in let Hs := fresh "Hs" in
    let b1 := fresh "b" in let Hb := fresh "Hb" in let HR1 := fresh "HR" in
    destruct x as [[[ty a1] c1]|] eqn:Hs; [|discriminate H];
    let p := findR a in
    destruct (scan_operator_param _ _ _ _ _ _ _ p Hs) as [b1 [Hb HR1]];
    rewrite Hb; red_all H.

  Ltac while_step H x a :=
    let a1 := fresh "a" in let c1 := fresh "c" in let Hs := fresh "Hs" in
    let b1 := fresh "b" in let Hb := fresh "Hb" in let HR1 := fresh "HR" in
    destruct x as [[a1 c1]|] eqn:Hs; [|discriminate H];
    let p := findR a in
    destruct (scan_while_param _ _ _ _ _ _ _ p Hs) as [b1 [Hb HR1]];
    rewrite Hb; red_all H.

  (* one generic step on the head of the A-side computation in H *)
  Ltac step H :=
    lazymatch type of H with
    | Some _ = Some _ => fin H
    | None = Some _ => discriminate H
    | ?lhs = Some _ =>
      lazymatch lhs with
      | match ?x with _ => _ end =>
        lazymatch x with
        | nxtA ?a => nxt_step H a
        | scan_while A nxtA _ _ ?a _ => while_step H x a
        | scan_operator A nxtA ?a _ _ => op_step H x a
        | scan_string A nxtA seterrA _ ?a _ => call2_step H x a ltac:(fun p Hs => constr:(scan_string_param _ _ _ _ _ _ p Hs))
        | scan_block_comment A nxtA seterrA _ ?a _ => call2_step H x a ltac:(fun p Hs => constr:(scan_block_comment_param _ _ _ _ _ _ p Hs))
        | posA ?a =>
          let p := findR a in
          let off := fresh "off" in let line := fresh "line" in let col := fresh "col" in
          rewrite <- (H_pos _ _ p); destruct (posA a) as [[off line] col]; red_all H
        | _ => lazymatch type of x with bool => destruct x; red_all H end
        end
      end
    end.

  Theorem next_token_param : forall fuel a b ch t a' ch', R a b ->
    next_token A nxtA startA stopA seterrA posA textA fuel a ch = Some (t, a', ch') ->
    exists b', next_token B nxtB startB stopB seterrB posB textB fuel b ch = Some (t, b', ch') /\ R a' b'.
  Proof.
    induction fuel as [|f IH]; intros a b ch t a' ch' HR H; cbn [next_token] in H |- *; [discriminate H|].
    repeat (step H); eapply IH; eassumption.
  Qed.

  Theorem tokenize_loop_param : forall fuel a b ch acc res, R a b ->
    tokenize_loop A nxtA startA stopA seterrA posA textA errA fuel a ch acc = Some res ->
    tokenize_loop B nxtB startB stopB seterrB posB textB errB fuel b ch acc = Some res.
  Proof.
    induction fuel as [|f IH]; intros a b ch acc res HR H; cbn [tokenize_loop] in H |- *; [discriminate H|].
    destruct (next_token A nxtA startA stopA seterrA posA textA (S f) a ch) as [[[t a1] c1]|] eqn:Hn; [|discriminate H].
    destruct (next_token_param _ _ _ _ _ _ _ HR Hn) as [b1 [Hb HR1]].
    rewrite Hb. rewrite <- (H_err _ _ HR1).
    destruct (errA a1); [exact H|].
    destruct (t_type t); try exact H; eapply IH; eassumption.
  Qed.
End Param.

(* ---- fuel monotonicity (no hypothesis on nxt is needed) ---- *)
Section Mono.
  Variable A : Type.
  Variables (nxtA : A -> option (A * Z)) (startA stopA seterrA : A -> A) (posA : A -> Z * Z * Z)
            (textA : A -> list Z) (errA : A -> bool).

  Lemma scan_while_fuel_mono : forall fuel fuel' p a ch r,
    scan_while A nxtA fuel p a ch = Some r -> (fuel <= fuel')%nat ->
    scan_while A nxtA fuel' p a ch = Some r.
  Proof.
    induction fuel as [|f IH]; intros fuel' p a ch r H Hle; [discriminate H|].
    destruct fuel' as [|f']; [lia|]. cbn [scan_while] in H |- *.
    destruct (p ch); [|exact H].
    destruct (nxtA a) as [[a1 c1]|]; [|discriminate H].
    apply IH; [exact H | lia].
  Qed.

  Lemma scan_string_fuel_mono : forall fuel fuel' a ch r,
    scan_string A nxtA seterrA fuel a ch = Some r -> (fuel <= fuel')%nat ->
    scan_string A nxtA seterrA fuel' a ch = Some r.
  Proof.
    induction fuel as [|f IH]; intros fuel' a ch r H Hle; [discriminate H|].
    destruct fuel' as [|f']; [lia|]. cbn [scan_string] in H |- *.
    destruct (ch =? 34); [exact H|].
    destruct ((ch =? 10) || (ch <? 0)); [exact H|].
    destruct (ch =? 92).
    - destruct (scan_escape A nxtA seterrA a) as [[a1 c1]|]; [|discriminate H]. apply IH; [exact H | lia].
    - destruct (nxtA a) as [[a1 c1]|]; [|discriminate H]. apply IH; [exact H | lia].
  Qed.

  Lemma scan_block_comment_fuel_mono : forall fuel fuel' a ch r,
    scan_block_comment A nxtA seterrA fuel a ch = Some r -> (fuel <= fuel')%nat ->
    scan_block_comment A nxtA seterrA fuel' a ch = Some r.
  Proof.
    induction fuel as [|f IH]; intros fuel' a ch r H Hle; [discriminate H|].
    destruct fuel' as [|f']; [lia|]. cbn [scan_block_comment] in H |- *.
    destruct (ch <? 0); [exact H|].
    destruct (nxtA a) as [[a1 c1]|]; [|discriminate H].
    destruct ((ch =? 42) && (c1 =? 47)); [exact H|].
    apply IH; [exact H | lia].
  Qed.

  Ltac mred H := cbv beta iota zeta in H |- *.

  Ltac mcall H x lem f' :=
    let r := fresh "r" in let Hs := fresh "Hs" in
    destruct x as [r|] eqn:Hs; [|discriminate H];
    rewrite (lem _ f' _ _ _ Hs) by lia; destruct r as [? ?]; mred H.

  Ltac mstep H f' :=
    lazymatch type of H with
    | Some _ = Some _ => exact H
    | None = Some _ => discriminate H
    | ?lhs = Some _ =>
      lazymatch lhs with
      | match ?x with _ => _ end =>
        lazymatch x with
        | scan_while A nxtA _ ?p ?a ?ch =>
          let r := fresh "r" in let Hs := fresh "Hs" in
          destruct x as [r|] eqn:Hs; [|discriminate H];
          rewrite (scan_while_fuel_mono _ (S f') _ _ _ _ Hs) by lia; destruct r as [? ?]; mred H
        | scan_string A nxtA seterrA _ ?a ?ch =>
          let r := fresh "r" in let Hs := fresh "Hs" in
          destruct x as [r|] eqn:Hs; [|discriminate H];
          rewrite (scan_string_fuel_mono _ (S f') _ _ _ Hs) by lia; destruct r as [? ?]; mred H
        | scan_block_comment A nxtA seterrA _ ?a ?ch =>
          let r := fresh "r" in let Hs := fresh "Hs" in
          destruct x as [r|] eqn:Hs; [|discriminate H];
          rewrite (scan_block_comment_fuel_mono _ (S f') _ _ _ Hs) by lia; destruct r as [? ?]; mred H
        | nxtA ?a => destruct x as [[? ?]|]; mred H
        | scan_operator A nxtA _ _ _ => destruct x as [[[? ?] ?]|]; mred H
        | posA ?a => destruct x as [[? ?] ?]; mred H
        | _ => lazymatch type of x with bool => destruct x; mred H end
        end
      end
    end.

  Theorem next_token_fuel_mono : forall fuel fuel' a ch r,
    next_token A nxtA startA stopA seterrA posA textA fuel a ch = Some r -> (fuel <= fuel')%nat ->
    next_token A nxtA startA stopA seterrA posA textA fuel' a ch = Some r.
  Proof.
    induction fuel as [|f IH]; intros fuel' a ch r H Hle; [discriminate H|].
    destruct fuel' as [|f']; [lia|]. cbn [next_token] in H |- *.
    repeat (mstep H f'); (apply IH; [exact H | lia]).
  Qed.

  Theorem tokenize_loop_fuel_mono : forall fuel fuel' a ch acc r,
    tokenize_loop A nxtA startA stopA seterrA posA textA errA fuel a ch acc = Some r -> (fuel <= fuel')%nat ->
    tokenize_loop A nxtA startA stopA seterrA posA textA errA fuel' a ch acc = Some r.
  Proof.
    induction fuel as [|f IH]; intros fuel' a ch acc r H Hle; [discriminate H|].
    destruct fuel' as [|f']; [lia|]. cbn [tokenize_loop] in H |- *.
    destruct (next_token A nxtA startA stopA seterrA posA textA (S f) a ch) as [[[t a1] c1]|] eqn:Hn; [|discriminate H].
    rewrite (next_token_fuel_mono _ (S f') _ _ _ Hn) by lia.
    destruct (errA a1); [exact H|].
    destruct (t_type t); try exact H; (apply IH; [exact H | lia]).
  Qed.
End Mono.

Print Assumptions scan_while_param.
Print Assumptions scan_hex_param.
Print Assumptions scan_escape_param.
Print Assumptions scan_string_param.
Print Assumptions scan_block_comment_param.
Print Assumptions scan_operator_param.
Print Assumptions next_token_param.
Print Assumptions tokenize_loop_param.
Print Assumptions scan_while_fuel_mono.
Print Assumptions scan_string_fuel_mono.
Print Assumptions scan_block_comment_fuel_mono.
Print Assumptions next_token_fuel_mono.
Print Assumptions tokenize_loop_fuel_mono.
