(* C18: the buffered scanner + tokenizer, on every read schedule, computes the specification tokenizer of the whole
   byte string (Lang.Cursor), hence chunking invariance, totality and exact positions/text. *)
From Coq Require Import ZArith List Bool Lia String.
Import ListNotations.
From Cedar Require Import Base.Utf8 Lang.Value Impl.Scanner Impl.Tokenizer Lang.Cursor.
From Cedar Require Import Proofs.ScannerProofs Proofs.TokenizerParam Proofs.CursorProofs.
Local Open Scope Z_scope.

Definition scan_loop (fuel bufLen : nat) :=
  tokenize_loop scanner (next fuel bufLen) token_start token_stop set_err token_position token_text s_err.
Definition cur_loop :=
  tokenize_loop cursor (fun c => Some (c_next c)) c_token_start c_token_stop c_set_err c_token_position c_token_text c_err.

(* forward: whatever the scanner-based tokenizer returns, the specification returns (same fuel) *)
Lemma tokenize_refines_spec : forall fuel b r res, (4 <= b)%nat -> no_fail r ->
  tokenize fuel b r = Some res -> spec_tokenize fuel (r_rest r) = Some res.
Proof.
  intros fuel b r res Hb Hnf H. unfold tokenize in H. unfold spec_tokenize.
  destruct (next fuel b (init r)) as [[s ch]|] eqn:Hn; [|discriminate].
  destruct (sim_next b fuel _ _ _ _ (sim_init b r Hb Hnf) Hn) as [c' [Hc Hsim]].
  rewrite Hc.
  eapply (tokenize_loop_param scanner cursor (next fuel b) token_start token_stop set_err token_position token_text s_err
            (fun c => Some (c_next c)) c_token_start c_token_stop c_set_err c_token_position c_token_text c_err (sim b)); eauto.
  - intros a c a' ch' HR Hna. destruct (sim_next b fuel _ _ _ _ HR Hna) as [c2 [Hc2 HR2]]. exists c2. rewrite Hc2. auto.
  - intros; apply sim_token_start; auto.
  - intros; apply sim_token_stop; auto.
  - intros; apply sim_set_err; auto.
  - intros; eapply sim_position; eauto.
  - intros; eapply sim_text; eauto.
  - intros; eapply sim_err; eauto.
Qed.

Lemma spec_tokenize_fuel_mono : forall fuel fuel' src res, (fuel <= fuel')%nat ->
  spec_tokenize fuel src = Some res -> spec_tokenize fuel' src = Some res.
Proof.
  intros fuel fuel' src res Hle H. unfold spec_tokenize in *.
  destruct (c_next (c_init src)) as [c ch].
  eapply tokenize_loop_fuel_mono; eauto.
Qed.

(* chunking invariance: two deliveries of the same bytes, any schedules, any buffer sizes >= 4, any (sufficient) fuels *)
Theorem chunking_invariant : forall f1 f2 b1 b2 r1 r2 res1 res2,
  (4 <= b1)%nat -> (4 <= b2)%nat -> no_fail r1 -> no_fail r2 -> r_rest r1 = r_rest r2 ->
  tokenize f1 b1 r1 = Some res1 -> tokenize f2 b2 r2 = Some res2 -> res1 = res2.
Proof.
  intros f1 f2 b1 b2 r1 r2 res1 res2 H1 H2 N1 N2 E T1 T2.
  apply tokenize_refines_spec in T1; auto. apply tokenize_refines_spec in T2; auto.
  rewrite E in T1.
  apply (spec_tokenize_fuel_mono f1 (Nat.max f1 f2)) in T1; [|lia].
  apply (spec_tokenize_fuel_mono f2 (Nat.max f1 f2)) in T2; [|lia].
  congruence.
Qed.

(* backward (totality): with fuel above the source length and the schedule length the scanner-based tokenizer terminates
   with the specification's result *)
Definition simb (fuel b : nat) (c : cursor) (s : scanner) : Prop := sim b s c /\ (List.length (r_sched (s_rd s)) + 2 <= fuel)%nat.

Lemma spec_refines_tokenize : forall fuel b r res, (4 <= b)%nat -> no_fail r -> (List.length (r_sched r) + 2 <= fuel)%nat ->
  spec_tokenize fuel (r_rest r) = Some res -> tokenize fuel b r = Some res.
Proof.
  intros fuel b r res Hb Hnf Hf H. unfold tokenize. unfold spec_tokenize in H.
  pose proof (sim_init b r Hb Hnf) as Hs0.
  destruct (next fuel b (init r)) as [[s ch]|] eqn:Hn.
  2:{ exfalso. eapply (next_total b fuel (init r)); eauto. }
  destruct (sim_next b fuel _ _ _ _ Hs0 Hn) as [c' [Hc Hsim]].
  rewrite Hc in H.
  assert (Hle : (List.length (r_sched (s_rd s)) <= List.length (r_sched (s_rd (init r))))%nat) by (eapply next_sched_le; eauto).
  cbn [init s_rd] in Hle.
  eapply (tokenize_loop_param cursor scanner (fun c => Some (c_next c)) c_token_start c_token_stop c_set_err c_token_position c_token_text c_err
            (next fuel b) token_start token_stop set_err token_position token_text s_err (simb fuel b)); [..|exact H].
  - intros c a c2 ch' [HR Hfu] Hcn. inversion Hcn; subst; clear Hcn.
    destruct (next fuel b a) as [[a' ch2]|] eqn:Hna.
    + destruct (sim_next b fuel _ _ _ _ HR Hna) as [c3 [Hc3 HR3]].
      rewrite H1 in Hc3. inversion Hc3; subst. exists a'. split; auto. split; auto.
      pose proof (next_sched_le _ _ _ _ _ Hna). lia.
    + exfalso. eapply (next_total b fuel a); eauto.
  - intros c a [HR Hfu]. split; [apply sim_token_start; auto | rewrite token_start_sched; auto].
  - intros c a [HR Hfu]. split; [apply sim_token_stop; auto | rewrite token_stop_sched; auto].
  - intros c a [HR Hfu]. split; [apply sim_set_err; auto | rewrite set_err_sched; auto].
  - intros c a [HR Hfu]. symmetry. eapply sim_position; eauto.
  - intros c a [HR Hfu]. symmetry. eapply sim_text; eauto.
  - intros c a [HR Hfu]. symmetry. eapply sim_err; eauto.
  - split; auto. lia.
Qed.

Theorem tokenize_total : forall b r, (4 <= b)%nat -> no_fail r ->
  forall fuel, (List.length (r_rest r) < fuel)%nat -> (List.length (r_sched r) + 2 <= fuel)%nat ->
  exists res, tokenize fuel b r = Some res /\ spec_tokenize fuel (r_rest r) = Some res.
Proof.
  intros b r Hb Hnf fuel Hf1 Hf2.
  destruct (spec_tokenize fuel (r_rest r)) as [res|] eqn:Hs.
  - exists res. split; auto. apply spec_refines_tokenize; auto.
  - exfalso. eapply spec_tokenize_total_fuel; eauto.
Qed.

(* exact text and positions of what the scanner-based tokenizer reports, on every schedule *)
Theorem tokenize_text_exact : forall fuel b r ts t, (4 <= b)%nat -> no_fail r ->
  tokenize fuel b r = Some (Some ts) -> In t ts ->
  0 <= t_off t /\ t_text t = firstn (List.length (t_text t)) (skipn (Z.to_nat (t_off t)) (r_rest r))
  /\ (Z.to_nat (t_off t) + List.length (t_text t) <= List.length (r_rest r))%nat.
Proof.
  intros fuel b r ts t Hb Hnf H Hin. apply tokenize_refines_spec in H; auto.
  eapply spec_token_text_exact; eauto.
Qed.

Theorem tokenize_position_exact : forall fuel b r ts t, (4 <= b)%nat -> no_fail r ->
  tokenize fuel b r = Some (Some ts) -> In t ts -> t_type t <> TEOF ->
  (t_line t, t_col t) = position_of (r_rest r) (Z.to_nat (t_off t)).
Proof.
  intros fuel b r ts t Hb Hnf H Hin Hne. apply tokenize_refines_spec in H; auto.
  eapply spec_token_position_exact; eauto.
Qed.

(* non-vacuity: a concrete 3-line document with multi-byte text, delivered one byte at a time with zero-length reads in
   between into a 4-byte buffer, tokenizes to the same 9 tokens as in one chunk into a 1024-byte buffer *)
Definition ex_src : list Z := s_of "permit(
 /* é */ ""é"" // x
);"%string.
Definition ex_r1 := {| r_rest := ex_src; r_sched := []; r_eof_with_data := false; r_fail_mode := FSticky |}.
Definition ex_r2 := {| r_rest := ex_src; r_sched := flat_map (fun _ => [(1%nat, false); (0%nat, false)]) ex_src; r_eof_with_data := true; r_fail_mode := FSticky |}.
Example ex_nonvacuous :
  no_fail ex_r1 /\ no_fail ex_r2 /\
  (exists ts, tokenize 100 1024 ex_r1 = Some (Some ts) /\ tokenize 100 4 ex_r2 = Some (Some ts) /\ List.length ts = 6%nat).
Proof.
  split; [|split].
  - intros n f Hin. destruct Hin.
  - intros n f Hin. unfold ex_r2 in Hin. cbn [r_sched] in Hin. apply in_flat_map in Hin. destruct Hin as [x [_ Hin]].
    destruct Hin as [Hin|[Hin|[]]]; inversion Hin; reflexivity.
  - eexists. split; [vm_compute; reflexivity|]. split; vm_compute; reflexivity.
Qed.

Print Assumptions tokenize_refines_spec.
Print Assumptions chunking_invariant.
Print Assumptions tokenize_total.
Print Assumptions tokenize_text_exact.
Print Assumptions tokenize_position_exact.
