(* The ignore clause of C06 (internal/eval/partial.go, model Impl/Partial.v):

     "When a request part is marked as ignored instead, a permit policy is kept and its residual is satisfied
      whenever the original is satisfied for at least one value of the ignored part (ignoring only ever widens
      what permits allow)."

   Setting.  A request part, or a value nested in the context, may be the variable marker
   `VEntity variable_type name` (an unknown, replaced by a substitution [s], see Proofs/PartialProofs.v) or the
   ignore marker `VEntity ignore_type _`.  [fills okf v v'] says that v' is v with every ignore marker replaced
   by some value satisfying [okf] (different occurrences may get different values), and identical elsewhere.
   A completed environment [en'] is one whose four request parts fill the substituted parts of [en]
   ([fills_env (subst_env s en) en']).

   Main results (all Qed, closed under the global context):
   - [partial_ign_sres]                 the invariant [sres] (the [sound_res] of PartialProofs.v with the case
                                        "PIgnore: nothing is claimed" and values related up to filling) proved by
                                        induction on the expression;
   - [partial_expr_ignore]              the expression-level statement;
   - [partial_policy_ignore_widens_gen] / [partial_policy_ignore_widens]   the ignore clause for permits;
   - [partial_policy_ignore_dropped]    a permit that is dropped is satisfied for NO value of the ignored parts;
   - [forbid_ignore_kept_sound]         a kept forbid: its conditions never depended on an ignored part;
   - [widening_strict]                  the converse of the permit clause fails (vm_compute example);
   - [forbid_scope_counterexample]      `sat en' r = sat en' p` fails for a kept forbid whose SCOPE constrains an
                                        ignored part (vm_compute example).

   Remarks on the statements.
   1. The headline [partial_policy_ignore_widens] has the requested signature.  Its hypotheses `completes s en`,
      `env_wf en'`, "the parts of en' are marker-free" and the side condition [val_ok] on the filling values are
      NOT used: [partial_policy_ignore_widens_gen] holds for every substitution and for arbitrary filling values
      (the evaluator never inspects markers).  In particular the filled sets need not be canonical.
   2. No environment "en with the ignore markers filled" is constructed (un-substituting through the [mk_set] of
      [subst_val] is awkward); instead the invariant of PartialProofs.v is re-proved directly against the
      completed environment, with values related by [rel v v' := fills okf (subst_val s v) v'].
   3. FORBID: the equation suggested for kept forbids is false of the model because of scopes (see
      [forbid_ignore_kept_sound] for what holds).  *)
From Coq Require Import ZArith List Bool Lia Arith String.
Import ListNotations.
From Cedar Require Import Base.Int64 Lang.Value Lang.Expr Impl.Like Impl.InSearch Impl.Eval Impl.Partial
  Proofs.ValueProofs Proofs.InSearchProofs Proofs.PartialProofs.

(* ========================================================================================== *)
(* Filling the ignore markers                                                                  *)
(* ========================================================================================== *)

(* [okf] is the side condition on the values put in place of an ignore marker *)
Inductive fills (okf : value -> Prop) : value -> value -> Prop :=
| fl_ignore t i w : str_eqb t ignore_type = true -> okf w -> fills okf (VEntity t i) w
| fl_entity t i : str_eqb t ignore_type = false -> fills okf (VEntity t i) (VEntity t i)
| fl_set l l' : Forall2 (fills okf) l l' -> fills okf (VSet l) (VSet l')
| fl_record l l' :
    Forall2 (fun kv kv' : str * value => fst kv = fst kv' /\ fills okf (snd kv) (snd kv')) l l' ->
    fills okf (VRecord l) (VRecord l')
| fl_plain v : plain v -> fills okf v v.

Definition fills_env (okf : value -> Prop) (en en' : env) : Prop :=
  e_store en' = e_store en /\
  fills okf (e_principal en) (e_principal en') /\
  fills okf (e_action en) (e_action en') /\
  fills okf (e_resource en) (e_resource en') /\
  fills okf (e_context en) (e_context en').

Lemma Forall2_eq_l {A} (P : A -> A -> Prop) l l' :
  Forall (fun x => forall y, P x y -> y = x) l -> Forall2 P l l' -> l' = l.
Proof.
  intros HF H. induction H as [|x y l l' Hxy _ IH]; [reflexivity|].
  inversion HF as [|? ? Hx Hl]; subst. rewrite (Hx y Hxy), (IH Hl). reflexivity.
Qed.

Lemma Forall2_refl_Forall {A} (P : A -> A -> Prop) l : Forall (fun x => P x x) l -> Forall2 P l l.
Proof. induction 1; constructor; auto. Qed.

(* a value without ignore marker is filled by itself only *)
Lemma fills_noign okf : forall v, has_marker is_ignore v = false -> forall v', fills okf v v' -> v' = v.
Proof.
  apply (value_ind' (fun v => has_marker is_ignore v = false -> forall v', fills okf v v' -> v' = v));
    try (intros; match goal with H : fills _ _ _ |- _ => inversion H; subst; reflexivity end).
  - intros t i Hm v' H. cbn [has_marker is_ignore] in Hm. inversion H; subst; try reflexivity. congruence.
  - intros l IH Hm v' H. rewrite has_marker_set, existsb_false_Forall in Hm.
    inversion H as [| |l0 l' HF| |v0 Hp]; subst; [|destruct Hp]. f_equal.
    apply (Forall2_eq_l (fills okf)); [|exact HF].
    rewrite Forall_forall in *. intros x Hx y Hy. apply IH; auto.
  - intros l IH Hm v' H. rewrite has_marker_record, existsb_false_Forall in Hm.
    inversion H as [| | |l0 l' HF|v0 Hp]; subst; [|destruct Hp]. f_equal.
    apply (Forall2_eq_l (fun kv kv' : str * value => fst kv = fst kv' /\ fills okf (snd kv) (snd kv'))); [|exact HF].
    rewrite Forall_forall in *. intros [k x] Hx [k' y] [Hk Hy]. cbn [fst snd] in *. subst k'. f_equal.
    apply (IH (k, x) Hx (Hm (k, x) Hx)). exact Hy.
Qed.

Lemma fills_refl_noign okf : forall v, has_marker is_ignore v = false -> fills okf v v.
Proof.
  apply (value_ind' (fun v => has_marker is_ignore v = false -> fills okf v v));
    try (intros; apply fl_plain; exact I).
  - intros t i Hm. cbn [has_marker is_ignore] in Hm. apply fl_entity. exact Hm.
  - intros l IH Hm. rewrite has_marker_set, existsb_false_Forall in Hm. apply fl_set.
    apply Forall2_refl_Forall. rewrite Forall_forall in *. intros x Hx. apply IH; auto.
  - intros l IH Hm. rewrite has_marker_record, existsb_false_Forall in Hm. apply fl_record.
    apply (Forall2_refl_Forall (fun kv kv' : str * value => fst kv = fst kv' /\ fills okf (snd kv) (snd kv'))).
    rewrite Forall_forall in *. intros [k x] Hx. split; [reflexivity|]. exact (IH (k, x) Hx (Hm (k, x) Hx)).
Qed.

Lemma Forall2_map_l {A B C} (f : A -> B) (P : B -> C -> Prop) l l' :
  Forall2 P (map f l) l' -> Forall2 (fun x y => P (f x) y) l l'.
Proof.
  revert l'. induction l as [|x l IH]; intros l' H; inversion H; subst; constructor; auto.
Qed.

Lemma rec_get_F2 (P : value -> value -> Prop) k l l' :
  Forall2 (fun kv kv' : str * value => fst kv = fst kv' /\ P (snd kv) (snd kv')) l l' ->
  match rec_get k l with
  | Some x => exists x', rec_get k l' = Some x' /\ P x x'
  | None => rec_get k l' = None
  end.
Proof.
  induction 1 as [|[k1 x] [k2 y] l l' [Hk Hxy] _ IH]; cbn [rec_get]; [reflexivity|].
  cbn [fst snd] in *. subst k2. destruct (str_eqb k k1); [eauto | exact IH].
Qed.

(* ========================================================================================== *)
(* Congruence of the evaluator in an arbitrary environment                                     *)
(* ========================================================================================== *)
Section Cong.
  Variable ec : env.
  Definition Re (x y : expr) : Prop := req (eval ec x) (eval ec y).

  Lemma Re_refl x : Re x x. Proof. apply req_refl. Qed.
  Lemma Re_and x x' y y' : Re x x' -> Re y y' -> Re (EAnd x y) (EAnd x' y').
  Proof. unfold Re. cbn [eval]. cong_tac. Qed.
  Lemma Re_or x x' y y' : Re x x' -> Re y y' -> Re (EOr x y) (EOr x' y').
  Proof. unfold Re. cbn [eval]. cong_tac. Qed.
  Lemma Re_if x x' y y' z z' : Re x x' -> Re y y' -> Re z z' -> Re (EIf x y z) (EIf x' y' z').
  Proof. unfold Re. cbn [eval]. cong_tac. Qed.
  Lemma Re_access x x' k : Re x x' -> Re (EAccess x k) (EAccess x' k).
  Proof. unfold Re. cbn [eval]. cong_tac. Qed.
  Lemma Re_has x x' k : Re x x' -> Re (EHas x k) (EHas x' k).
  Proof. unfold Re. cbn [eval]. cong_tac. Qed.
  Lemma Re_isin ty x x' y y' : Re x x' -> Re y y' -> Re (EIsIn x ty y) (EIsIn x' ty y').
  Proof. unfold Re. cbn [eval]. cong_tac. Qed.

  Lemma F2_map_Re xs ys : Forall2 Re xs ys -> Forall2 req (map (eval ec) xs) (map (eval ec) ys).
  Proof. induction 1; cbn [map]; constructor; auto. Qed.

  Lemma Exists_map_erre xs : Exists (fun x => is_err (eval ec x)) xs -> Exists is_err (map (eval ec) xs).
  Proof. induction 1; cbn [map]; [left | right]; auto. Qed.

  Lemma Re_set xs ys : Forall2 Re xs ys -> Re (ESet xs) (ESet ys).
  Proof.
    intros HF. unfold Re. cbn [eval]. pose proof (seq_res_cong _ _ (F2_map_Re _ _ HF)) as H.
    destruct (seq_res (map (eval ec) xs)) as [r|vs] eqn:E1, (seq_res (map (eval ec) ys)) as [r'|vs'] eqn:E2;
      try contradiction.
    - apply seq_res_inl in E1. apply seq_res_inl in E2. destruct E1 as [k ->], E2 as [k' ->]. exact I.
    - subst. apply req_refl.
  Qed.

  Lemma Re_call n xs ys : Forall2 Re xs ys -> Re (ECall n xs) (ECall n ys).
  Proof. intros HF. unfold Re. cbn [eval]. apply call_ext_cong. apply F2_map_Re. exact HF. Qed.

  Lemma LRe_kreq keys xs ys : Forall2 Re xs ys ->
    Forall2 kreq (map (fun kv : str * expr => (fst kv, eval ec (snd kv))) (combine keys xs))
                 (map (fun kv : str * expr => (fst kv, eval ec (snd kv))) (combine keys ys)).
  Proof.
    intros HF. revert keys. induction HF as [|x y xs ys Hxy _ IH]; intros [|k keys]; cbn [combine map]; try constructor.
    - split; auto.
    - apply IH.
  Qed.

  Lemma Re_record keys xs ys : Forall2 Re xs ys -> Re (ERecord (combine keys xs)) (ERecord (combine keys ys)).
  Proof.
    intros HF. unfold Re. cbn [eval].
    pose proof (seq_rec_cong _ _ (rec_of_list_kreq _ _ (LRe_kreq keys _ _ HF))) as H.
    match goal with |- req (match seq_rec ?l1 with _ => _ end) (match seq_rec ?l2 with _ => _ end) =>
      destruct (seq_rec l1) as [r|vs] eqn:E1, (seq_rec l2) as [r'|vs'] eqn:E2 end; try contradiction.
    - apply seq_rec_inl in E1. apply seq_rec_inl in E2. destruct E1 as [k ->], E2 as [k' ->]. exact I.
    - subst. apply req_refl.
  Qed.

  Lemma record_strict_e keys xs : NoDup keys -> List.length xs = List.length keys ->
    Exists (fun x => is_err (eval ec x)) xs -> is_err (eval ec (ERecord (combine keys xs))).
  Proof.
    intros Hnd Hlen Hex. apply Exists_exists in Hex. destruct Hex as (x & Hx & Herr).
    destruct (in_combine_exists keys xs x Hlen Hx) as [k Hk].
    cbn [eval].
    set (L := map (fun kv : str * expr => (fst kv, eval ec (snd kv))) (combine keys xs)).
    assert (HinL : In (k, eval ec x) L).
    { unfold L. change (k, eval ec x) with ((fun kv : str * expr => (fst kv, eval ec (snd kv))) (k, x)).
      apply in_map. exact Hk. }
    assert (HkL : map fst L = keys).
    { unfold L. rewrite map_map. cbn [fst]. apply map_fst_combine. exact Hlen. }
    assert (Hget : rec_get k (rec_of_list L) = Some (eval ec x)).
    { rewrite rec_of_list_get_gen. apply rec_get_nodup.
      - rewrite map_rev, HkL. apply NoDup_rev. exact Hnd.
      - apply in_rev. rewrite rev_involutive. exact HinL. }
    destruct (seq_rec_err _ _ _ Hget Herr) as [e He]. rewrite He.
    apply seq_rec_inl in He. destruct He as [kk ->]. exact I.
  Qed.
End Cong.

(* ========================================================================================== *)
(* The invariant and its proof                                                                 *)
(* ========================================================================================== *)
Section Ign.
  Variable okf : value -> Prop.
  Variable en : env.
  Variable s : sigma.
  Variables p' a' r' c' : value.            (* the completed request parts *)
  Local Notation ec :=
    {| e_store := e_store en; e_principal := p'; e_action := a'; e_resource := r'; e_context := c' |}.

  (* v' is a completion of v: unknowns substituted, then ignore markers filled *)
  Definition rel (v v' : value) : Prop := fills okf (subst_val s v) v'.

  Hypothesis Hst : store_Q Q3 en.                                        (* store values: no markers, well-formed *)
  Hypothesis Hwf : forall x, wf_value (var_value en x) = true.           (* request parts well-formed *)
  Hypothesis Hrel : forall x, rel (var_value en x) (var_value ec x).     (* ec completes en *)

  Local Notation R := (Re ec).

  Lemma rel_Q3 v v' : Q3 v -> rel v v' -> v' = v.
  Proof.
    intros HQ H. unfold rel in H. rewrite (Q3_subst s v HQ) in H.
    destruct HQ as [[_ Hig] _]. eapply fills_noign; eauto.
  Qed.

  Lemma rel_refl_Q3 v : Q3 v -> rel v v.
  Proof.
    intros HQ. unfold rel. rewrite (Q3_subst s v HQ). destruct HQ as [[_ Hig] _].
    apply fills_refl_noign. exact Hig.
  Qed.

  (* the shape of a completion of a value that is not itself a marker *)
  Lemma rel_shape v v' : is_variable v = false -> is_ignore v = false -> rel v v' ->
    match v with
    | VSet _ => exists l', v' = VSet l'
    | VRecord l => exists l', v' = VRecord l' /\
                     Forall2 (fun kv kv' : str * value => fst kv = fst kv' /\ rel (snd kv) (snd kv')) l l'
    | _ => v' = v
    end.
  Proof.
    intros Hv Hi H. unfold rel in H.
    destruct v; cbn [subst_val] in H;
      try (inversion H; subst; reflexivity).
    - cbn [is_variable] in Hv. rewrite Hv in H. cbn [is_ignore] in Hi.
      inversion H as [t i w Ht| | | |v0 Hp]; subst; try reflexivity. congruence.
    - unfold mk_set in H. inversion H as [| |l0 l' HF| |v0 Hp]; subst; [eauto | destruct Hp].
    - inversion H as [| | |l0 l' HF|v0 Hp]; subst; [|destruct Hp].
      exists l'. split; [reflexivity|].
      apply (Forall2_map_l (fun kv : str * value => (fst kv, subst_val s (snd kv)))
               (fun kv kv' : str * value => fst kv = fst kv' /\ fills okf (snd kv) (snd kv'))) in HF.
      exact HF.
  Qed.

  Lemma rel_bool b v' : rel (VBool b) v' -> v' = VBool b.
  Proof. intros H. apply (rel_shape (VBool b) v'); auto. Qed.

  Lemma rel_nonbool v v' : is_variable v = false -> is_ignore v = false -> rel v v' ->
    (forall b, v <> VBool b) -> forall b, v' <> VBool b.
  Proof.
    intros Hv Hi H Hb b. pose proof (rel_shape v v' Hv Hi H) as Hs.
    destruct v; try (subst v'; apply Hb); try (subst v'; discriminate).
    - destruct Hs as [l' ->]. discriminate.
    - destruct Hs as [l' [-> _]]. discriminate.
  Qed.

  Definition lit_ok (v : value) : Prop := is_variable v = false /\ is_ignore v = false /\ wf_value v = true.

  (* the invariant: PIgnore claims nothing; a literal result is completed by the value of the expression *)
  Definition sres (e : expr) (r : pres) : Prop :=
    match r with
    | PNode n => match lit_of n with
                 | Some v => (exists v', eval ec e = Ok v' /\ rel v v') /\ lit_ok v
                 | None => R n e
                 end
    | PVar n => R n e
    | PErr _ => is_err (eval ec e)
    | PIgnore => True
    end.

  Lemma sres_transfer e1 e2 r : eval ec e1 = eval ec e2 -> sres e1 r -> sres e2 r.
  Proof. unfold sres, Re. intros ->. auto. Qed.

  Lemma sres_Q3 e v : eval ec e = Ok v -> Q3 v -> sres e (PNode (ELit v)).
  Proof.
    intros Hev HQ. cbn [sres lit_of]. split; [exists v; split; [exact Hev | apply rel_refl_Q3; exact HQ]|].
    destruct HQ as [[Hw Hig] Hv]. repeat split; auto; [apply novar_top | apply noign_top]; auto.
  Qed.

  Lemma lit_Q3 v : lit_ok v -> has_marker is_ignore v = false -> has_marker is_variable v = false -> Q3 v.
  Proof. intros (_ & _ & Hw) Hi Hv. unfold Q3, Q2. tauto. Qed.

  Section TP.
    Variable mk : list expr -> expr.
    Variable kids : list expr.
    Hypothesis mk_cong : forall xs ys, List.length xs = List.length kids -> Forall2 R xs ys -> R (mk xs) (mk ys).
    Hypothesis mk_lits : forall vs, List.length vs = List.length kids ->
      eval en (mk (map ELit vs)) = eval ec (mk (map ELit vs)).
    Hypothesis mk_Q : forall vs v, List.length vs = List.length kids -> Forall Q3 vs ->
      eval en (mk (map ELit vs)) = Ok v -> Q3 v.
    Hypothesis mk_strict : Exists (fun x => is_err (eval ec x)) kids -> is_err (eval ec (mk kids)).
    Hypothesis mk_notlit : forall xs, lit_of (mk xs) = None.

    Definition inv (pre : list expr) (ok : bool) (nodes : list expr) (values : list value) : Prop :=
      Forall2 R (rev nodes) pre /\
      (ok = true -> rev nodes = map ELit (rev values) /\ Forall Q3 values).

    Definition stop_ok (rest : list expr) (r : pres) : Prop :=
      r = PIgnore \/ ((exists k, r = PErr k) /\ Exists (fun x => is_err (eval ec x)) rest).

    Lemma stop_ok_cons x rest r : stop_ok rest r -> stop_ok (x :: rest) r.
    Proof. intros [H|[H1 H2]]; [left; exact H | right; split; auto]. Qed.

    Lemma inv_keep pre ok nodes values x n : inv pre ok nodes values -> R n x ->
      inv (pre ++ [x]) false (n :: nodes) values.
    Proof.
      intros [H1 _] Hr. split; [|discriminate].
      cbn [rev]. apply Forall2_app; auto.
    Qed.

    Lemma fold_sound : forall rest rs, Forall2 sres rest rs ->
      forall pre ok nodes values, inv pre ok nodes values ->
      match fold_left (tp_step false) (combine rest rs) (TPGo ok nodes values) with
      | TPStop r => stop_ok rest r
      | TPGo ok' nodes' values' => inv (pre ++ rest) ok' nodes' values'
      end.
    Proof.
      induction 1 as [|x r rest rs Hx _ IH]; intros pre ok nodes values Hinv.
      - cbn [combine fold_left]. rewrite app_nil_r. exact Hinv.
      - cbn [combine fold_left].
        assert (Hkeep : forall n, R n x ->
          match fold_left (tp_step false) (combine rest rs) (TPGo false (n :: nodes) values) with
          | TPStop r => stop_ok (x :: rest) r
          | TPGo ok' nodes' values' => inv (pre ++ x :: rest) ok' nodes' values'
          end).
        { intros n Hn. specialize (IH (pre ++ [x]) false (n :: nodes) values (inv_keep _ _ _ _ _ _ Hinv Hn)).
          rewrite <- app_assoc in IH. cbn [app] in IH.
          destruct (fold_left _ _ _); [exact IH|]. apply stop_ok_cons. exact IH. }
        destruct r as [n|n| |k].
        + rewrite tp_step_node. cbn [sres] in Hx. destruct (lit_of n) as [v|] eqn:El.
          * destruct Hx as ((v' & Hev & Hr) & Hlit). cbn [negb andb].
            destruct (has_marker is_ignore v) eqn:Hig; [rewrite fold_stop; left; reflexivity|].
            destruct (has_marker is_variable v) eqn:Hv.
            -- apply Hkeep. apply Re_refl.
            -- apply lit_of_some in El. subst n.
               assert (HQ3 : Q3 v) by (apply lit_Q3; auto).
               rewrite (rel_Q3 v v' HQ3 Hr) in Hev.
               assert (Hrn : R (ELit v) x).
               { unfold Re. rewrite Hev. cbn [eval req]. reflexivity. }
               assert (Hinv' : inv (pre ++ [x]) ok (ELit v :: nodes) (if ok then v :: values else values)).
               { destruct Hinv as [H1 H2]. split.
                 - cbn [rev]. apply Forall2_app; auto.
                 - intros ->. destruct (H2 eq_refl) as [H3 H4]. split.
                   + cbn [rev]. rewrite map_app, H3. reflexivity.
                   + constructor; auto. }
               specialize (IH (pre ++ [x]) ok (ELit v :: nodes) _ Hinv').
               rewrite <- app_assoc in IH. cbn [app] in IH.
               destruct (fold_left _ _ _); [exact IH|]. apply stop_ok_cons. exact IH.
          * apply Hkeep. exact Hx.
        + cbn [tp_step]. apply Hkeep. apply Re_refl.
        + cbn [tp_step]. rewrite fold_stop. left. reflexivity.
        + cbn [tp_step]. rewrite fold_stop. right. split; [eauto|]. left. exact Hx.
    Qed.

    Lemma try_partial_sound rs : Forall2 sres kids rs ->
      sres (mk kids) (try_partial false kids rs mk (eval en)).
    Proof.
      intros HF. unfold try_partial.
      assert (Hinv0 : inv [] true [] []).
      { split; [constructor|]. intros _. split; [reflexivity | constructor]. }
      pose proof (fold_sound kids rs HF [] true [] [] Hinv0) as H.
      destruct (fold_left _ _ _) as [ok nodes values|r].
      - cbn [app] in H. destruct H as [H1 H2].
        pose proof (F2_length _ _ _ H1) as Hlen.
        pose proof (mk_cong _ _ Hlen H1) as Hc.
        destruct ok.
        + destruct (H2 eq_refl) as [H3 H4]. rewrite H3 in Hc, Hlen. rewrite map_length in Hlen.
          assert (H5 : Forall Q3 (rev values)).
          { rewrite Forall_forall in *. intros x Hx. apply H4. apply in_rev. exact Hx. }
          unfold Re in Hc. rewrite <- (mk_lits _ Hlen) in Hc.
          destruct (eval en (mk (map ELit (rev values)))) as [v|k] eqn:E.
          * pose proof (mk_Q _ _ Hlen H5 E) as HQ. pose proof HQ as [[Hw Hig] Hv].
            rewrite (novar_top _ Hv), (noign_top _ Hig).
            apply req_ok_l in Hc. apply sres_Q3; auto.
          * cbn [sres]. eapply req_err_l. exact Hc.
        + cbn [sres]. rewrite mk_notlit. exact Hc.
      - destruct H as [->|[[k ->] H]]; [exact I|]. cbn [sres]. apply mk_strict. exact H.
    Qed.
  End TP.

  (* ---- unary / binary strict operators ---- *)
  Lemma un_sound (C : expr -> expr) a ra :
    (forall x x', R x x' -> R (C x) (C x')) ->
    (forall v, eval en (C (ELit v)) = eval ec (C (ELit v))) ->
    (forall v r, Q3 v -> eval en (C (ELit v)) = Ok r -> Q3 r) ->
    (is_err (eval ec a) -> is_err (eval ec (C a))) ->
    (forall x, lit_of (C x) = None) ->
    sres a ra ->
    sres (C a) (try_partial false [a] [ra] (fun l => C (nth 0 l a)) (eval en)).
  Proof.
    intros Hcong Hlits HQ Hstrict Hnl Ha.
    apply (try_partial_sound (fun l => C (nth 0 l a)) [a]).
    - intros xs ys Hlen HF. destruct HF as [|x y xs ys Hxy HF]; [discriminate|].
      destruct HF; [|discriminate]. cbn [nth]. auto.
    - intros [|v [|w vs]]; try discriminate. intros _. cbn [map nth]. apply Hlits.
    - intros [|v [|w vs]]; try discriminate. intros r _ HF. cbn [map nth]. apply HQ.
      inversion HF; auto.
    - intros H. cbn [nth]. apply Hstrict. inversion H as [? ? H1|? ? H1]; subst; [exact H1|inversion H1].
    - intros xs. apply Hnl.
    - constructor; [exact Ha | constructor].
  Qed.

  Lemma bin_sound (C : expr -> expr -> expr) a b ra rb :
    (forall x x' y y', R x x' -> R y y' -> R (C x y) (C x' y')) ->
    (forall v w, eval en (C (ELit v) (ELit w)) = eval ec (C (ELit v) (ELit w))) ->
    (forall v w r, Q3 v -> Q3 w -> eval en (C (ELit v) (ELit w)) = Ok r -> Q3 r) ->
    (is_err (eval ec a) \/ is_err (eval ec b) -> is_err (eval ec (C a b))) ->
    (forall x y, lit_of (C x y) = None) ->
    sres a ra -> sres b rb ->
    sres (C a b) (try_partial false [a; b] [ra; rb] (fun l => C (nth 0 l a) (nth 1 l b)) (eval en)).
  Proof.
    intros Hcong Hlits HQ Hstrict Hnl Ha Hb.
    apply (try_partial_sound (fun l => C (nth 0 l a) (nth 1 l b)) [a; b]).
    - intros xs ys Hlen HF. destruct HF as [|x y xs ys Hxy HF]; [discriminate|].
      destruct HF as [|x1 y1 xs ys Hxy1 HF]; [discriminate|].
      destruct HF; [|discriminate]. cbn [nth]. auto.
    - intros [|v [|w [|u vs]]]; try discriminate. intros _. cbn [map nth]. apply Hlits.
    - intros [|v [|w [|u vs]]]; try discriminate. intros r _ HF. cbn [map nth].
      inversion HF as [|? ? H1 HF1]; subst. inversion HF1; subst. apply HQ; auto.
    - intros H. cbn [nth]. apply Hstrict.
      inversion H as [? ? H1|? ? H1]; subst; [left; exact H1|].
      inversion H1 as [? ? H2|? ? H2]; subst; [right; exact H2|inversion H2].
    - intros xs. apply Hnl.
    - constructor; [exact Ha | constructor; [exact Hb | constructor]].
  Qed.

  (* ---- operands embedded in a residual and / or / if: None (errIgnore) claims nothing ---- *)
  Lemma embed_sound b r : sres b r ->
    match embed r b with None => True | Some n => R n b end.
  Proof.
    destruct r as [n|n| |k]; cbn [sres embed]; auto.
    - rewrite residual_operand_node. destruct (lit_of n) as [v|] eqn:El; auto.
      intros ((v' & Hev & Hr) & Hlit).
      destruct (has_marker is_ignore v) eqn:Hig; [exact I|].
      destruct (has_marker is_variable v) eqn:Hv; [apply Re_refl|].
      apply lit_of_some in El. subst n.
      assert (HQ3 : Q3 v) by (apply lit_Q3; auto).
      rewrite (rel_Q3 v v' HQ3 Hr) in Hev. unfold Re. rewrite Hev. apply req_refl.
  Qed.

  (* ---- projections: attribute access and has ---- *)
  Lemma get_attr_rel v v' k : lit_ok v -> rel v v' ->
    match get_attr (e_store en) v k with
    | Ok x => (exists x', get_attr (e_store en) v' k = Ok x' /\ rel x x') /\ wf_value x = true
    | Err _ => is_err (get_attr (e_store en) v' k)
    end.
  Proof.
    intros (Hv & Hi & Hw) Hr. pose proof (rel_shape v v' Hv Hi Hr) as Hs.
    destruct v; try (subst v'; exact I).
    - subst v'. cbn [get_attr].
      destruct (is_zero_uid (ty, id)); [exact I|].
      destruct (lookup (e_store en) (ty, id)) as [e|] eqn:El; [|exact I].
      destruct (rec_get k (e_attrs e)) as [x|] eqn:Eg; [|exact I].
      destruct (Hst _ _ El) as [Ha _].
      pose proof (rec_get_Forall Q3 _ _ _ Ha Eg) as Hx.
      split; [exists x; split; [reflexivity | apply rel_refl_Q3; exact Hx] | apply Hx].
    - destruct Hs as [l' ->]. exact I.
    - destruct Hs as (l' & -> & HF). cbn [get_attr].
      pose proof (rec_get_F2 rel k _ _ HF) as Hg.
      destruct (rec_get k l) as [x|] eqn:Eg.
      + destruct Hg as (x' & -> & Hx). split; [eauto|].
        apply wf_rec_inv in Hw. destruct Hw as [_ Hw].
        exact (rec_get_Forall (fun v => wf_value v = true) _ _ _ Hw Eg).
      + rewrite Hg. exact I.
  Qed.

  Lemma partial_has_rel v v' k : lit_ok v -> rel v v' ->
    match partial_has (e_store en) v k with
    | inl r => has_attr (e_store en) v' k = r
    | inr _ => True
    end.
  Proof.
    intros (Hv & Hi & Hw) Hr. pose proof (rel_shape v v' Hv Hi Hr) as Hs.
    destruct v; try (subst v'; reflexivity).
    - subst v'. cbn [partial_has has_attr].
      destruct (lookup (e_store en) (ty, id)) as [e|] eqn:El; [|reflexivity].
      destruct (rec_get k (e_attrs e)) as [x|] eqn:Eg; [|reflexivity].
      destruct (Hst _ _ El) as [Ha _].
      pose proof (rec_get_Forall Q3 _ _ _ Ha Eg) as [[_ Hx] _]. rewrite (noign_top _ Hx). reflexivity.
    - destruct Hs as [l' ->]. reflexivity.
    - destruct Hs as (l' & -> & HF). cbn [partial_has has_attr].
      pose proof (rec_get_F2 rel k _ _ HF) as Hg.
      destruct (rec_get k l) as [x|] eqn:Eg.
      + destruct Hg as (x' & -> & Hx). destruct (is_ignore x); [exact I | reflexivity].
      + rewrite Hg. reflexivity.
  Qed.

  Lemma access_sound a k : sres a (partial en a) -> sres (EAccess a k) (partial en (EAccess a k)).
  Proof.
    intros Ha.
    change (partial en (EAccess a k))
      with (try_partial true [a] [partial en a] (fun l => EAccess (nth 0 l a) k) (eval en)).
    rewrite try_partial_proj. cbn [nth].
    destruct (partial en a) as [n|n| |kk]; cbn [sres] in Ha.
    - destruct (lit_of n) as [v|] eqn:El.
      + destruct Ha as ((v' & Hev & Hr) & Hlit). cbn [eval bindr].
        pose proof (get_attr_rel v v' k Hlit Hr) as Hg.
        destruct (get_attr (e_store en) v k) as [x|kk].
        * destruct Hg as [(x' & Hg & Hx) Hwx]. destruct (is_variable x) eqn:Hvx; [apply Re_refl|].
          destruct (is_ignore x) eqn:Hix; [exact I|]. cbn [sres lit_of eval].
          rewrite Hev. cbn [bindr e_store]. split; [eauto | repeat split; auto].
        * cbn [sres eval]. rewrite Hev. exact Hg.
      + cbn [sres lit_of]. apply Re_access. exact Ha.
    - cbn [sres lit_of]. apply Re_refl.
    - exact I.
    - cbn [sres eval]. apply is_err_bind. exact Ha.
  Qed.

  Lemma ignore_not_variable : is_variable (VEntity ignore_type []) = false.
  Proof. vm_compute. reflexivity. Qed.
  Lemma ignore_is_ignore : is_ignore (VEntity ignore_type []) = true.
  Proof. vm_compute. reflexivity. Qed.

  Lemma has_sound a k : sres a (partial en a) -> sres (EHas a k) (partial en (EHas a k)).
  Proof.
    intros Ha.
    change (partial en (EHas a k))
      with (try_partial true [a] [partial en a] (fun l => EHas (nth 0 l a) k)
              (fun n => match n with
                        | EHas (ELit v) _ => match partial_has (e_store en) v k with inl r => r | inr _ => Ok (VEntity ignore_type []) end
                        | _ => eval en n end)).
    rewrite try_partial_proj. cbn [nth].
    destruct (partial en a) as [n|n| |kk]; cbn [sres] in Ha.
    - destruct (lit_of n) as [v|] eqn:El.
      + destruct Ha as ((v' & Hev & Hr) & Hlit).
        pose proof (partial_has_rel v v' k Hlit Hr) as Hh.
        assert (Hec : eval ec (EHas a k) = has_attr (e_store en) v' k).
        { cbn [eval]. rewrite Hev. reflexivity. }
        destruct (partial_has (e_store en) v k) as [r|u].
        * subst r. destruct (has_attr_cases en v' k) as [[b Hb]|Hb]; rewrite Hb in *.
          -- cbn [is_variable is_ignore]. apply sres_Q3; [exact Hec|]. repeat split.
          -- cbn [sres]. rewrite Hec. exact I.
        * rewrite ignore_not_variable, ignore_is_ignore. exact I.
      + cbn [sres lit_of]. apply Re_has. exact Ha.
    - cbn [sres lit_of]. apply Re_refl.
    - exact I.
    - cbn [sres eval]. apply is_err_bind. exact Ha.
  Qed.

  (* ---- and / or / if ---- *)
  Lemma and_finish a b lft : R lft a -> sres b (partial en b) ->
    sres (EAnd a b) (match embed (partial en b) b with None => PIgnore | Some rgt => PNode (EAnd lft rgt) end).
  Proof.
    intros Hl Hb. apply embed_sound in Hb. destruct (embed (partial en b) b) as [rgt|]; [|exact I].
    cbn [sres lit_of]. apply Re_and; auto.
  Qed.

  Lemma or_finish a b lft : R lft a -> sres b (partial en b) ->
    sres (EOr a b) (match embed (partial en b) b with None => PIgnore | Some rgt => PNode (EOr lft rgt) end).
  Proof.
    intros Hl Hb. apply embed_sound in Hb. destruct (embed (partial en b) b) as [rgt|]; [|exact I].
    cbn [sres lit_of]. apply Re_or; auto.
  Qed.

  Lemma if_finish_sound c t f ifn : R ifn c -> sres t (partial en t) -> sres f (partial en f) ->
    sres (EIf c t f) (if_finish en ifn t f).
  Proof.
    intros Hc Ht Hf. unfold if_finish. apply embed_sound in Ht. apply embed_sound in Hf.
    destruct (embed (partial en t) t) as [tn|]; [|exact I].
    destruct (embed (partial en f) f) as [fn|]; [|exact I].
    cbn [sres lit_of]. apply Re_if; auto.
  Qed.

  Lemma Q3_bool b : Q3 (VBool b).
  Proof. repeat split. Qed.

  Lemma lit_sres_bool b : sres (ELit (VBool b)) (PNode (ELit (VBool b))).
  Proof. apply sres_Q3; [reflexivity | apply Q3_bool]. Qed.

  Lemma node_Q3_lits2 (C : expr -> expr -> expr) :
    (forall x y, expr_forall (node_Q Q3 en) (C x y) <-> expr_forall (node_Q Q3 en) x /\ expr_forall (node_Q Q3 en) y) ->
    forall v w r, Q3 v -> Q3 w -> eval en (C (ELit v) (ELit w)) = Ok r -> Q3 r.
  Proof.
    intros HC v w r Hv Hw. apply (eval_Q Q3 hered_Q3 en Hst). apply HC. cbn [expr_forall node_Q]. tauto.
  Qed.

  Lemma node_Q3_lits1 (C : expr -> expr) :
    (forall x, expr_forall (node_Q Q3 en) (C x) <-> expr_forall (node_Q Q3 en) x) ->
    forall v r, Q3 v -> eval en (C (ELit v)) = Ok r -> Q3 r.
  Proof.
    intros HC v r Hv. apply (eval_Q Q3 hered_Q3 en Hst). apply HC. cbn [expr_forall node_Q]. tauto.
  Qed.

  (* a literal that is not a boolean, completed: the test of and / or / if fails *)
  Lemma nonbool_err v v' f : lit_ok v -> rel v v' -> (forall b, v <> VBool b) -> as_bool v' f = Err EType.
  Proof.
    intros (Hv & Hi & _) Hr Hb. pose proof (rel_nonbool v v' Hv Hi Hr Hb) as Hn.
    destruct v'; try reflexivity. exfalso. eapply Hn. reflexivity.
  Qed.

  Lemma and_sound a b : sres a (partial en a) -> sres b (partial en b) ->
    sres (EAnd a b) (partial en (EAnd a b)).
  Proof.
    intros Ha Hb. rewrite partial_and.
    destruct (partial en a) as [lft|lft| |k]; cbn [sres] in Ha.
    - destruct (lit_of lft) as [v|] eqn:El; [|apply and_finish; auto].
      destruct Ha as ((v' & Hev & Hr) & Hlit).
      destruct v as [[|]| | | | | | | | |];
        try (cbn [sres eval]; rewrite Hev; cbn [bindr];
             erewrite nonbool_err; [exact I | exact Hlit | exact Hr | congruence]).
      + apply rel_bool in Hr. subst v'.
        eapply sres_transfer;
          [|apply (bin_sound EAnd (ELit (VBool true)) b); [apply Re_and | reflexivity | | | reflexivity | apply lit_sres_bool | exact Hb]].
        * cbn [eval]. rewrite Hev. reflexivity.
        * apply node_Q3_lits2. intros x y. cbn [expr_forall node_Q]. tauto.
        * intros [H|H]; [destruct H|]. cbn [eval bindr as_bool negb]. apply is_err_bind. exact H.
      + apply rel_bool in Hr. subst v'. apply sres_Q3; [|apply Q3_bool].
        cbn [eval]. rewrite Hev. reflexivity.
    - apply and_finish; auto.
    - exact I.
    - cbn [sres eval]. apply is_err_bind. exact Ha.
  Qed.

  Lemma or_sound a b : sres a (partial en a) -> sres b (partial en b) ->
    sres (EOr a b) (partial en (EOr a b)).
  Proof.
    intros Ha Hb. rewrite partial_or.
    destruct (partial en a) as [lft|lft| |k]; cbn [sres] in Ha.
    - destruct (lit_of lft) as [v|] eqn:El; [|apply or_finish; auto].
      destruct Ha as ((v' & Hev & Hr) & Hlit).
      destruct v as [[|]| | | | | | | | |];
        try (cbn [sres eval]; rewrite Hev; cbn [bindr];
             erewrite nonbool_err; [exact I | exact Hlit | exact Hr | congruence]).
      + apply rel_bool in Hr. subst v'. apply sres_Q3; [|apply Q3_bool].
        cbn [eval]. rewrite Hev. reflexivity.
      + apply rel_bool in Hr. subst v'.
        eapply sres_transfer;
          [|apply (bin_sound EOr (ELit (VBool false)) b); [apply Re_or | reflexivity | | | reflexivity | apply lit_sres_bool | exact Hb]].
        * cbn [eval]. rewrite Hev. reflexivity.
        * apply node_Q3_lits2. intros x y. cbn [expr_forall node_Q]. tauto.
        * intros [H|H]; [destruct H|]. cbn [eval bindr as_bool negb]. apply is_err_bind. exact H.
    - apply or_finish; auto.
    - exact I.
    - cbn [sres eval]. apply is_err_bind. exact Ha.
  Qed.

  Lemma if_sound c t f : sres c (partial en c) -> sres t (partial en t) -> sres f (partial en f) ->
    sres (EIf c t f) (partial en (EIf c t f)).
  Proof.
    intros Hc Ht Hf. rewrite partial_if.
    destruct (partial en c) as [ifn|ifn| |k]; cbn [sres] in Hc.
    - destruct (lit_of ifn) as [v|] eqn:El; [|apply if_finish_sound; auto].
      destruct Hc as ((v' & Hev & Hr) & Hlit).
      destruct v as [[|]| | | | | | | | |];
        try (cbn [sres eval]; rewrite Hev; cbn [bindr];
             erewrite nonbool_err; [exact I | exact Hlit | exact Hr | congruence]).
      + apply rel_bool in Hr. subst v'.
        eapply sres_transfer; [|exact Ht]. cbn [eval]. rewrite Hev. reflexivity.
      + apply rel_bool in Hr. subst v'.
        eapply sres_transfer; [|exact Hf]. cbn [eval]. rewrite Hev. reflexivity.
    - apply if_finish_sound; auto.
    - exact I.
    - cbn [sres eval]. apply is_err_bind. exact Hc.
  Qed.

  (* ---- is .. in (partialIsIn) ---- *)
  Lemma isin_finish a ty b lft : R lft a -> sres b (partial en b) ->
    sres (EIsIn a ty b)
      (match embed (partial en b) b with None => PIgnore | Some rgt => PNode (EIsIn lft ty rgt) end).
  Proof.
    intros Hl Hb. apply embed_sound in Hb. destruct (embed (partial en b) b) as [rgt|]; [|exact I].
    cbn [sres lit_of]. apply Re_isin; auto.
  Qed.

  Lemma isin_tp_sound a ty b : sres a (partial en a) -> sres b (partial en b) ->
    (is_err (eval ec b) -> is_err (eval ec (EIsIn a ty b))) ->
    sres (EIsIn a ty b) (isin_tp en a ty b).
  Proof.
    intros Ha Hb Hstrict. unfold isin_tp.
    apply (bin_sound (fun x y => EIsIn x ty y));
      [ intros; apply Re_isin; auto
      | reflexivity
      | apply (node_Q3_lits2 (fun x y => EIsIn x ty y)); intros; cbn [expr_forall node_Q]; tauto
      |
      | reflexivity
      | exact Ha
      | exact Hb ].
    intros [H|H]; [cbn [eval]; apply is_err_bind; exact H | apply Hstrict; exact H].
  Qed.

  Lemma isin_sound a ty b : sres a (partial en a) -> sres b (partial en b) ->
    sres (EIsIn a ty b) (partial en (EIsIn a ty b)).
  Proof.
    intros Ha Hb. rewrite partial_isin. pose proof Ha as Ha0.
    destruct (partial en a) as [lft|lft| |k] eqn:Ea; cbn [sres] in Ha.
    - destruct (lit_of lft) as [v|] eqn:El; [|apply isin_finish; auto].
      destruct Ha as ((v' & Hev & Hr) & Hlit). rewrite <- Ea in Ha0.
      pose proof Hlit as (Hnv & Hni & _).
      pose proof (rel_shape v v' Hnv Hni Hr) as Hs.
      assert (Hother : (forall t i, v <> VEntity t i) -> sres (EIsIn a ty b) (isin_tp en a ty b)).
      { intros Hne. apply isin_tp_sound; auto. intros _. cbn [eval]. rewrite Hev. cbn [bindr].
        destruct v; try (subst v'; exact I).
        - exfalso. eapply Hne. reflexivity.
        - destruct Hs as [l' ->]. exact I.
        - destruct Hs as [l' [-> _]]. exact I. }
      destruct v as [| | |t i| | | | | |]; try (apply Hother; congruence).
      subst v'.
      destruct (str_eqb t ty) eqn:Et; cbn [negb].
      + apply isin_tp_sound; auto. intros H. cbn [eval]. rewrite Hev. cbn [bindr as_entity fst]. rewrite Et.
        cbn [negb]. apply is_err_bind. exact H.
      + apply sres_Q3; [|apply Q3_bool]. cbn [eval]. rewrite Hev. cbn [bindr as_entity fst]. rewrite Et.
        reflexivity.
    - apply isin_finish; auto.
    - exact I.
    - cbn [sres eval]. apply is_err_bind. exact Ha.
  Qed.

  Lemma lits_forall_Q3 vs : Forall Q3 vs -> Forall (expr_forall (node_Q Q3 en)) (map ELit vs).
  Proof. induction 1; cbn [map]; constructor; auto. cbn [expr_forall node_Q]. tauto. Qed.

  Lemma lits_forall_Q3_kv keys vs : Forall Q3 vs ->
    Forall (fun kv : str * expr => expr_forall (node_Q Q3 en) (snd kv)) (combine keys (map ELit vs)).
  Proof.
    intros H. revert keys. induction H as [|v vs Hv _ IH]; intros [|k keys]; cbn [map combine]; constructor; auto.
    cbn [snd expr_forall node_Q]. tauto.
  Qed.

  (* ---- the main induction ---- *)
  Ltac strict_tac :=
    let H := fresh "H" in
    intros [H|H]; cbn [eval];
    match goal with |- context [eval ?e ?a] => destruct (eval e a) end;
    try match goal with |- context [eval ?e ?b] => destruct (eval e b) end;
    cbn [is_err] in H; try contradiction; unf; split_matches; exact I.

  Ltac strict1_tac :=
    let H := fresh "H" in
    intros H; cbn [eval]; apply is_err_bind; exact H.

  Ltac bin_case C IHa IHb :=
    let Hc := fresh "Hc" in
    intros Hc; cbn [expr_forall] in Hc; destruct Hc as (_ & Hca & Hcb); cbn [partial];
    apply (bin_sound C);
    [ unfold Re; cbn [eval]; cong_tac
    | reflexivity
    | apply (node_Q3_lits2 C); intros; cbn [expr_forall node_Q]; tauto
    | strict_tac
    | reflexivity
    | apply IHa; exact Hca
    | apply IHb; exact Hcb ].

  Ltac un_case C IHa :=
    let Hc := fresh "Hc" in
    intros Hc; cbn [expr_forall] in Hc; destruct Hc as (_ & Hca); cbn [partial];
    apply (un_sound C);
    [ unfold Re; cbn [eval]; cong_tac
    | reflexivity
    | apply (node_Q3_lits1 C); intros; cbn [expr_forall node_Q]; tauto
    | strict1_tac
    | reflexivity
    | apply IHa; exact Hca ].

  Lemma F2_sres_list es :
    Forall (fun e => expr_forall node_clean e -> sres e (partial en e)) es ->
    Forall (expr_forall node_clean) es -> Forall2 sres es (map (partial en) es).
  Proof.
    induction 1 as [|e es He _ IH]; intros Hc; cbn [map]; constructor; inversion Hc; subst; auto.
  Qed.

  Theorem partial_ign_sres : forall e, expr_forall node_clean e -> sres e (partial en e).
  Proof.
    induction e using expr_ind'.
    - (* ELit *) intros [Hv _]. cbn [node_clean] in Hv. cbn [partial].
      apply sres_Q3; [reflexivity | apply val_ok_Q3; exact Hv].
    - (* EVar *) intros _. cbn [partial]. unfold try_partial. cbn [combine fold_left rev map eval].
      destruct (is_variable (var_value en x)) eqn:Hv; [apply Re_refl|].
      destruct (is_ignore (var_value en x)) eqn:Hi; [exact I|].
      cbn [sres lit_of]. split; [exists (var_value ec x); split; [reflexivity | apply Hrel]|].
      repeat split; auto.
    - (* EAnd *) intros (_ & Ha & Hb). apply and_sound; auto.
    - (* EOr *) intros (_ & Ha & Hb). apply or_sound; auto.
    - un_case ENot IHe.
    - un_case ENeg IHe.
    - bin_case EAdd IHe1 IHe2.
    - bin_case ESub IHe1 IHe2.
    - bin_case EMul IHe1 IHe2.
    - bin_case EEq IHe1 IHe2.
    - bin_case ENe IHe1 IHe2.
    - bin_case ELt IHe1 IHe2.
    - bin_case ELe IHe1 IHe2.
    - bin_case EGt IHe1 IHe2.
    - bin_case EGe IHe1 IHe2.
    - bin_case EIn IHe1 IHe2.
    - bin_case EContains IHe1 IHe2.
    - bin_case EContainsAll IHe1 IHe2.
    - bin_case EContainsAny IHe1 IHe2.
    - un_case EIsEmpty IHe.
    - (* EAccess *) intros (_ & Ha). apply access_sound; auto.
    - (* EHas *) intros (_ & Ha). apply has_sound; auto.
    - bin_case EGetTag IHe1 IHe2.
    - bin_case EHasTag IHe1 IHe2.
    - un_case (fun x => ELike x p) IHe.
    - un_case (fun x => EIs x ty) IHe.
    - (* EIsIn *) intros (_ & Ha & Hb). apply isin_sound; auto.
    - (* EIf *) intros (_ & Hc & Ht & Hf). apply if_sound; auto.
    - (* ESet *) intros Hc. apply expr_forall_set in Hc. destruct Hc as [_ Hc]. cbn [partial].
      apply (try_partial_sound (fun l => ESet l) es).
      + intros xs ys _ HF. apply Re_set. exact HF.
      + intros vs _. cbn [eval]. rewrite !map_eval_lits. reflexivity.
      + intros vs v _ HF. apply (eval_Q Q3 hered_Q3 en Hst). apply expr_forall_set.
        split; [exact I | apply lits_forall_Q3; exact HF].
      + intros Hex. cbn [eval]. destruct (seq_res_strict _ (Exists_map_erre _ _ Hex)) as [e He].
        rewrite He. apply seq_res_inl in He. destruct He as [k ->]. exact I.
      + reflexivity.
      + apply F2_sres_list; auto.
    - (* ERecord *) intros Hc. apply expr_forall_record in Hc. destruct Hc as [Hnd Hc]. cbn [node_clean] in Hnd.
      cbn [partial].
      apply (sres_transfer (ERecord (combine (map fst kvs) (map snd kvs)))).
      { rewrite combine_fst_snd. reflexivity. }
      apply (try_partial_sound (fun l => ERecord (combine (map fst kvs) l)) (map snd kvs)).
      + intros xs ys _ HF. apply Re_record. exact HF.
      + intros vs _. cbn [eval]. rewrite !LR_lits. reflexivity.
      + intros vs v _ HF. apply (eval_Q Q3 hered_Q3 en Hst). apply expr_forall_record.
        split; [exact I | apply lits_forall_Q3_kv; exact HF].
      + intros Hex. apply record_strict_e; auto. rewrite !map_length. reflexivity.
      + reflexivity.
      + clear Hnd. induction H as [|kv kvs Hkv _ IH]; cbn [map]; constructor; inversion Hc; subst; auto.
    - (* ECall *) intros Hc. apply expr_forall_call in Hc. destruct Hc as [_ Hc]. cbn [partial].
      apply (try_partial_sound (fun l => ECall n l) args).
      + intros xs ys _ HF. apply Re_call. exact HF.
      + intros vs _. cbn [eval]. rewrite !map_eval_lits. reflexivity.
      + intros vs v _ HF. apply (eval_Q Q3 hered_Q3 en Hst). apply expr_forall_call.
        split; [exact I | apply lits_forall_Q3; exact HF].
      + intros Hex. cbn [eval]. apply call_ext_strict. apply Exists_map_erre. exact Hex.
      + reflexivity.
      + apply F2_sres_list; auto.
    - (* EPartialError *) intros _. exact I.
  Qed.

  (* ========================================================================================== *)
  (* Policies                                                                                    *)
  (* ========================================================================================== *)

  (* scopes: an ignored part gives the scope `all`; otherwise as without ignore markers *)
  Lemma partial_scope_ign x sc :
    match partial_scope (e_store en) (var_value en x) sc with
    | Some sc' => (strue ec x sc = true -> strue ec x sc' = true) /\
                  (is_ignore (var_value en x) = false -> strue ec x sc' = strue ec x sc)
    | None => strue ec x sc = false
    end.
  Proof.
    unfold partial_scope.
    destruct (is_variable (var_value en x)) eqn:Hv; [split; auto|].
    destruct (is_ignore (var_value en x)) eqn:Hi; [split; [reflexivity | discriminate]|].
    pose proof (rel_shape _ _ Hv Hi (Hrel x)) as Hs.
    destruct (var_value en x) as [| | |t i| | | | | |] eqn:Ex; try (split; auto).
    rewrite (strue_scope_holds ec x t i sc Hs). cbn [e_store].
    destruct (scope_holds (e_store en) (t, i) sc); [split; reflexivity | reflexivity].
  Qed.

  Local Notation AT l := (all_true ec (map cond_expr l)).

  Lemma partial_conds_ign permit : forall cs, Forall (fun c => expr_clean (snd c)) cs -> forall acc,
    match partial_conds en permit cs acc with
    | Some cs' => (AT (rev acc) && AT cs = true -> AT cs' = true) /\
                  (permit = false -> AT cs' = AT (rev acc) && AT cs)
    | None => permit = true -> AT cs = false
    end.
  Proof.
    induction 1 as [|[kind body] cs Hc _ IH]; intros acc.
    - cbn [partial_conds map all_true forallb]. rewrite andb_true_r. auto.
    - cbn [snd] in Hc. rewrite partial_conds_unfold.
      pose proof (partial_ign_sres body Hc) as Hb.
      change (AT ((kind, body) :: cs)) with (ctrue ec (kind, body) && AT cs).
      assert (Hfail : forall c, ctrue ec c = false -> ctrue ec (kind, body) = false ->
        (AT (rev acc) && (ctrue ec (kind, body) && AT cs) = true -> AT (rev (c :: acc)) = true) /\
        (permit = false -> AT (rev (c :: acc)) = AT (rev acc) && (ctrue ec (kind, body) && AT cs))).
      { intros c H1 H2. rewrite all_true_snoc, H1, H2. rewrite andb_false_l, !andb_false_r. split; auto. }
      destruct (partial en body) as [n|n| |k]; cbn [sres] in Hb.
      + destruct (lit_of n) as [v|] eqn:El.
        * destruct Hb as ((v' & Hev & Hr) & Hlit).
          assert (Hnb : (forall b, v <> VBool b) -> ctrue ec (kind, body) = false).
          { intros Hnb. apply (ctrue_nonbool _ kind body _ Hev).
            destruct Hlit as (Hv & Hi & _). apply (rel_nonbool v v' Hv Hi Hr Hnb). }
          destruct v; try (apply Hfail; [apply ctrue_err; exact I | apply Hnb; congruence]).
          apply rel_bool in Hr. subst v'.
          rewrite (ctrue_bool _ kind body b Hev).
          destruct (Bool.eqb b kind); [|reflexivity]. rewrite andb_true_l. apply IH.
        * specialize (IH ((kind, n) :: acc)).
          destruct (partial_conds en permit cs ((kind, n) :: acc)) as [cs'|].
          -- rewrite all_true_snoc, (ctrue_req _ kind n body Hb), <- andb_assoc in IH. exact IH.
          -- intros Hp. rewrite (IH Hp), andb_false_r. reflexivity.
      + specialize (IH ((kind, body) :: acc)).
        destruct (partial_conds en permit cs ((kind, body) :: acc)) as [cs'|].
        * rewrite all_true_snoc, <- andb_assoc in IH. exact IH.
        * intros Hp. rewrite (IH Hp), andb_false_r. reflexivity.
      + destruct permit; [|discriminate]. specialize (IH acc).
        destruct (partial_conds en true cs acc) as [cs'|].
        * destruct IH as [IH _]. split; [|discriminate]. intros H. apply IH.
          apply andb_true_iff in H. destruct H as [H1 H2]. apply andb_true_iff in H2. destruct H2 as [_ H2].
          rewrite H1, H2. reflexivity.
        * intros _. rewrite (IH eq_refl), andb_false_r. reflexivity.
      + apply Hfail; [apply ctrue_err; exact I | apply ctrue_err; exact Hb].
  Qed.

  Lemma partial_policy_ign p : policy_clean p ->
    match partial_policy en p with
    | Some r => (sat ec p = true -> sat ec r = true) /\
                (p_effect p = false ->
                 is_ignore (e_principal en) = false -> is_ignore (e_action en) = false ->
                 is_ignore (e_resource en) = false -> sat ec r = sat ec p)
    | None => p_effect p = true -> sat ec p = false
    end.
  Proof.
    intros Hp. unfold partial_policy. rewrite (sat_eq _ p).
    pose proof (partial_scope_ign VPrincipal (p_principal p)) as H1.
    pose proof (partial_scope_ign VAction (p_action p)) as H2.
    pose proof (partial_scope_ign VResource (p_resource p)) as H3.
    cbn [var_value] in H1, H2, H3.
    destruct (partial_scope (e_store en) (e_principal en) (p_principal p)) as [sp|]; [|rewrite H1; reflexivity].
    destruct (partial_scope (e_store en) (e_action en) (p_action p)) as [sa|]; [|rewrite H2, andb_false_r; reflexivity].
    destruct (partial_scope (e_store en) (e_resource en) (p_resource p)) as [sr|]; [|rewrite H3, andb_false_r; reflexivity].
    pose proof (partial_conds_ign (p_effect p) (p_conds p) Hp []) as H4.
    destruct (partial_conds en (p_effect p) (p_conds p) []) as [cs|].
    - rewrite sat_eq. cbn [p_principal p_action p_resource p_conds].
      destruct H1 as [H1 H1'], H2 as [H2 H2'], H3 as [H3 H3'], H4 as [H4 H4'].
      cbn [rev map all_true forallb] in H4, H4'. rewrite andb_true_l in H4, H4'. split.
      + intros H. apply andb_true_iff in H. destruct H as [H Hc].
        apply andb_true_iff in H. destruct H as [H Hr]. apply andb_true_iff in H. destruct H as [Hpr Ha].
        rewrite (H1 Hpr), (H2 Ha), (H3 Hr), (H4 Hc). reflexivity.
      + intros He Hip Hia Hir. rewrite (H1' Hip), (H2' Hia), (H3' Hir), (H4' He). reflexivity.
    - intros He. rewrite (H4 He), andb_false_r. reflexivity.
  Qed.
End Ign.

(* ========================================================================================== *)
(* Headline theorems                                                                           *)
(* ========================================================================================== *)

Lemma fills_env_rel okf s en en' : fills_env okf (subst_env s en) en' ->
  e_store en' = e_store en /\
  forall x, rel okf s (var_value en x) (var_value en' x).
Proof.
  intros (H0 & H1 & H2 & H3 & H4). split; [exact H0|]. intros x. unfold rel. destruct x; assumption.
Qed.

(* expressions: whatever is put in place of the ignore markers (and of the unknowns),
   - a literal result v: the expression evaluates to a completion of v (v itself when v holds no marker);
   - a residual evaluates like the expression (up to the error kind, [req]); an error result means that
     evaluation fails;
   - PIgnore claims nothing. *)
Theorem partial_expr_ignore : forall okf en s e en',
  store_clean en -> env_wf en -> expr_clean e -> fills_env okf (subst_env s en) en' ->
  match partial en e with
  | PNode (ELit v) => exists v', eval en' e = Ok v' /\ fills okf (subst_val s v) v'
  | PNode n => req (eval en' n) (eval en' e)
  | PVar n => req (eval en' n) (eval en' e)
  | PErr _ => exists k', eval en' e = Err k'
  | PIgnore => True
  end.
Proof.
  intros okf en s e en' Hs Hw He Hf. apply fills_env_rel in Hf. destruct Hf as [Hst Hrel].
  destruct en' as [st' p' a' r' c']. cbn [e_store] in Hst. subst st'.
  pose proof (partial_ign_sres okf en s p' a' r' c' (store_clean_Q3 en Hs) Hw Hrel e He) as H.
  destruct (partial en e) as [n|n| |k]; cbn [sres] in H; auto.
  - destruct n; cbn [lit_of] in H; try exact H. destruct H as [H _]. exact H.
  - match goal with |- exists k', ?r = _ => destruct r; [destruct H | eauto] end.
Qed.

(* general form: nothing is required of the values put in place of the ignore markers, nor of the completed
   environment, nor of the substitution *)
Theorem partial_policy_ignore_widens_gen : forall okf en s p en',
  store_clean en -> env_wf en -> policy_clean p -> p_effect p = true ->
  fills_env okf (subst_env s en) en' ->
  sat en' p = true ->
  exists r, partial_policy en p = Some r /\ sat en' r = true.
Proof.
  intros okf en s p en' Hs Hw Hp He Hf Hsat. apply fills_env_rel in Hf. destruct Hf as [Hst Hrel].
  destruct en' as [st' p' a' r' c']. cbn [e_store] in Hst. subst st'.
  pose proof (partial_policy_ign okf en s p' a' r' c' (store_clean_Q3 en Hs) Hw Hrel p Hp) as H.
  destruct (partial_policy en p) as [r|].
  - exists r. split; [reflexivity|]. apply H. exact Hsat.
  - rewrite (H He) in Hsat. discriminate.
Qed.

(* the four request parts of a completed environment contain no marker *)
Definition env_marker_free (en : env) : Prop := forall x, marker_free (var_value en x) = true.

(* THE IGNORE CLAUSE, as posed: if the original permit is satisfied for SOME value of the ignored parts (and
   the given completion of the unknowns), the policy is kept and its residual is satisfied in that same
   completed environment. *)
Theorem partial_policy_ignore_widens : forall en s p en',
  store_clean en -> env_wf en -> policy_clean p -> completes s en -> p_effect p = true ->
  fills_env val_ok (subst_env s en) en' -> env_wf en' -> env_marker_free en' ->
  sat en' p = true ->
  exists r, partial_policy en p = Some r /\ sat en' r = true.
Proof.
  intros en s p en' Hs Hw Hp _ He Hf _ _ Hsat.
  eapply partial_policy_ignore_widens_gen; eauto.
Qed.

(* "satisfied for at least one value of the ignored part": the policy is kept *)
Corollary partial_policy_ignore_kept : forall okf en s p,
  store_clean en -> env_wf en -> policy_clean p -> p_effect p = true ->
  (exists en', fills_env okf (subst_env s en) en' /\ sat en' p = true) ->
  exists r, partial_policy en p = Some r.
Proof.
  intros okf en s p Hs Hw Hp He (en' & Hf & Hsat).
  destruct (partial_policy_ignore_widens_gen okf en s p en' Hs Hw Hp He Hf Hsat) as (r & Hr & _). eauto.
Qed.

(* contrapositive reading: a permit that partial evaluation drops is satisfied for no value of the ignored parts *)
Theorem partial_policy_ignore_dropped : forall okf en s p en',
  store_clean en -> env_wf en -> policy_clean p -> p_effect p = true ->
  fills_env okf (subst_env s en) en' ->
  partial_policy en p = None -> sat en' p = false.
Proof.
  intros okf en s p en' Hs Hw Hp He Hf Hnone.
  destruct (sat en' p) eqn:Hsat; [|reflexivity].
  destruct (partial_policy_ignore_widens_gen okf en s p en' Hs Hw Hp He Hf Hsat) as (r & Hr & _). congruence.
Qed.

(* FORBID.  `partial_policy en p = Some r -> sat en' r = sat en' p` is FALSE as posed, because the scope of an
   ignored principal / action / resource is replaced by `all` whatever the effect ([forbid_scope_counterexample]
   below).  What holds: a kept forbid is satisfied whenever the original is (ignoring widens what forbids forbid
   as well), and if none of principal / action / resource is itself the ignore marker (ignore markers nested in
   the context are allowed) the residual is satisfied EXACTLY when the original is: no condition of a kept forbid
   depended on an ignored part. *)
Theorem forbid_ignore_kept_sound : forall okf en s p en' r,
  store_clean en -> env_wf en -> policy_clean p -> p_effect p = false ->
  fills_env okf (subst_env s en) en' ->
  partial_policy en p = Some r ->
  (sat en' p = true -> sat en' r = true) /\
  (is_ignore (e_principal en) = false -> is_ignore (e_action en) = false -> is_ignore (e_resource en) = false ->
   sat en' r = sat en' p).
Proof.
  intros okf en s p en' r Hs Hw Hp He Hf Hr. apply fills_env_rel in Hf. destruct Hf as [Hst Hrel].
  destruct en' as [st' p' a' r' c']. cbn [e_store] in Hst. subst st'.
  pose proof (partial_policy_ign okf en s p' a' r' c' (store_clean_Q3 en Hs) Hw Hrel p Hp) as H.
  rewrite Hr in H. destruct H as [H1 H2]. split; [exact H1 | auto].
Qed.

(* ========================================================================================== *)
(* Examples (vm_compute)                                                                       *)
(* ========================================================================================== *)
Local Open Scope Z_scope.

Definition ig_marker (i : string) : value := VEntity ignore_type (s_of i).
Definition ig_a : str := s_of "a".
Definition ig_b : str := s_of "b".

(* principal ignored; context = {a: <ignored>, b: ?x} *)
Definition ig_env : env :=
  {| e_store := []; e_principal := ig_marker "p"; e_action := ex_action; e_resource := ex_photo "x";
     e_context := VRecord [(ig_a, ig_marker "c"); (ig_b, ex_var "x")] |}.
Definition ig_sigma : sigma := ex_sigma "x" (VLong 1).
(* a completion: principal := User::"b", context.a := 7, ?x := 1 *)
Definition ig_env_b : env :=
  {| e_store := []; e_principal := ex_user "b"; e_action := ex_action; e_resource := ex_photo "x";
     e_context := VRecord [(ig_a, VLong 7); (ig_b, VLong 1)] |}.
(* another completion: principal := User::"a" *)
Definition ig_env_a : env :=
  {| e_store := []; e_principal := ex_user "a"; e_action := ex_action; e_resource := ex_photo "x";
     e_context := VRecord [(ig_a, VLong 7); (ig_b, VLong 1)] |}.

Lemma ig_val_ok_user i : val_ok (ex_user i).
Proof. split; reflexivity. Qed.

Example ig_fills_b : fills_env val_ok (subst_env ig_sigma ig_env) ig_env_b.
Proof.
  split; [reflexivity|]. split; [|split; [|split]].
  - apply fl_ignore; [reflexivity | apply ig_val_ok_user].
  - apply fl_entity. reflexivity.
  - apply fl_entity. reflexivity.
  - apply fl_record. constructor; [split; [reflexivity|] | constructor; [split; [reflexivity|] | constructor]].
    + apply fl_ignore; [reflexivity | split; reflexivity].
    + apply fl_plain. exact I.
Qed.

Example ig_fills_a : fills_env val_ok (subst_env ig_sigma ig_env) ig_env_a.
Proof.
  split; [reflexivity|]. split; [|split; [|split]].
  - apply fl_ignore; [reflexivity | apply ig_val_ok_user].
  - apply fl_entity. reflexivity.
  - apply fl_entity. reflexivity.
  - apply fl_record. constructor; [split; [reflexivity|] | constructor; [split; [reflexivity|] | constructor]].
    + apply fl_ignore; [reflexivity | split; reflexivity].
    + apply fl_plain. exact I.
Qed.

(* permit(principal, action, resource) when { principal == User::"a" } when { context.b == 1 } unless { context.a == 0 }; *)
Definition ig_permit : policy :=
  {| p_effect := true; p_principal := SAll; p_action := SAll; p_resource := SAll;
     p_conds := [(true, EEq (EVar VPrincipal) (ELit (ex_user "a")));
                 (true, EEq (EAccess (EVar VContext) ig_b) (ELit (VLong 1)));
                 (false, EEq (EAccess (EVar VContext) ig_a) (ELit (VLong 0)))] |}.
Definition ig_permit_residual : policy :=
  {| p_effect := true; p_principal := SAll; p_action := SAll; p_resource := SAll;
     p_conds := [(true, EEq (EAccess (EVar VContext) ig_b) (ELit (VLong 1)))] |}.

(* WIDENING IS STRICT: the conditions that need an ignored part are dropped; the residual is satisfied for the
   completion principal := User::"b" although the original is not (the converse of the ignore clause fails),
   while for principal := User::"a" both are satisfied (an instance of the clause). *)
Example widening_strict :
  partial_policy ig_env ig_permit = Some ig_permit_residual /\
  sat ig_env_b ig_permit_residual = true /\ sat ig_env_b ig_permit = false /\
  sat ig_env_a ig_permit_residual = true /\ sat ig_env_a ig_permit = true.
Proof. repeat split; vm_compute; reflexivity. Qed.

(* forbid(principal == User::"a", action, resource) when { context.b == 1 }; with the principal ignored:
   kept, with the scope `all`; for principal := User::"b" the residual is satisfied, the original is not. *)
Definition ig_forbid : policy :=
  {| p_effect := false; p_principal := SEq (s_of "User", s_of "a"); p_action := SAll; p_resource := SAll;
     p_conds := [(true, EEq (EAccess (EVar VContext) ig_b) (ELit (VLong 1)))] |}.
Definition ig_forbid_residual : policy :=
  {| p_effect := false; p_principal := SAll; p_action := SAll; p_resource := SAll;
     p_conds := [(true, EEq (EAccess (EVar VContext) ig_b) (ELit (VLong 1)))] |}.

Example forbid_scope_counterexample :
  partial_policy ig_env ig_forbid = Some ig_forbid_residual /\
  sat ig_env_b ig_forbid_residual = true /\ sat ig_env_b ig_forbid = false.
Proof. repeat split; vm_compute; reflexivity. Qed.

(* a forbid with a condition that needs an ignored part is dropped *)
Example forbid_dropped :
  partial_policy ig_env {| p_effect := false; p_principal := SAll; p_action := SAll; p_resource := SAll;
                           p_conds := [(true, EEq (EVar VPrincipal) (ELit (ex_user "a")))] |} = None.
Proof. vm_compute. reflexivity. Qed.

(* the hypotheses of the headline theorem hold for this instance *)
Example ig_hyps :
  store_clean ig_env /\ env_wf ig_env /\ policy_clean ig_permit /\ completes ig_sigma ig_env /\
  env_wf ig_env_a /\ env_marker_free ig_env_a.
Proof.
  split; [|split; [|split; [|split; [|split]]]].
  - intros u ent H. discriminate.
  - intros x; destruct x; reflexivity.
  - unfold policy_clean, ig_permit. cbn [p_conds]. repeat constructor; cbn [snd]; unfold expr_clean;
      cbn [expr_forall node_clean]; unfold val_ok; repeat split.
  - intros x i H. destruct x; cbn [var_value ig_env e_principal e_action e_resource e_context] in H.
    + apply marker_in_ent in H. destruct H as [Ht _]. vm_compute in Ht. discriminate.
    + apply marker_in_ent in H. destruct H as [Ht _]. vm_compute in Ht. discriminate.
    + apply marker_in_ent in H. destruct H as [Ht _]. vm_compute in Ht. discriminate.
    + inversion H as [ | | l k y Hin Hm]; subst. destruct Hin as [Hin|[Hin|[]]]; inversion Hin; subst.
      * apply marker_in_ent in Hm. destruct Hm as [Ht _]. vm_compute in Ht. discriminate.
      * apply marker_in_ent in Hm. destruct Hm as [_ <-]. eexists. split; vm_compute; reflexivity.
  - intros x; destruct x; reflexivity.
  - intros x; destruct x; reflexivity.
Qed.

(* the headline theorem applied to this instance (non-vacuity of its hypotheses) *)
Example ig_instance : exists r, partial_policy ig_env ig_permit = Some r /\ sat ig_env_a r = true.
Proof.
  destruct ig_hyps as (H1 & H2 & H3 & H4 & H5 & H6).
  apply (partial_policy_ignore_widens ig_env ig_sigma ig_permit ig_env_a);
    try assumption; try reflexivity. apply ig_fills_a.
Qed.

(* expression-level behaviour on the ignored parts *)
Example ig_exprs :
  partial ig_env (EEq (EVar VPrincipal) (ELit (ex_user "a"))) = PIgnore /\
  partial ig_env (EIn (EVar VPrincipal) (ELit (ex_user "a"))) = PIgnore /\
  partial ig_env (EAccess (EVar VPrincipal) ig_a) = PIgnore /\
  partial ig_env (EIs (EVar VPrincipal) (s_of "User")) = PIgnore /\
  partial ig_env (EAccess (EVar VContext) ig_a) = PIgnore /\
  partial ig_env (EHas (EVar VContext) ig_a) = PIgnore /\
  partial ig_env (EHas (EVar VContext) ig_b) = PNode (ELit (VBool true)) /\
  partial ig_env (EAccess (EVar VContext) ig_b) = PVar (EAccess (EVar VContext) ig_b) /\
  partial ig_env (EEq (EVar VContext) (ELit (VLong 1))) = PIgnore /\
  partial ig_env (EAnd (EVar VContext) (ELit (VBool true))) = PErr EType /\
  partial ig_env (EAnd (EEq (EAccess (EVar VContext) ig_b) (ELit (VLong 1)))
                       (EEq (EAccess (EVar VContext) ig_a) (ELit (VLong 1)))) = PIgnore /\
  partial ig_env (EIsIn (ELit (ex_user "a")) (s_of "Foo") (EVar VPrincipal)) = PNode (ELit (VBool false)).
Proof. repeat split; vm_compute; reflexivity. Qed.

Print Assumptions partial_ign_sres.
Print Assumptions partial_expr_ignore.
Print Assumptions partial_policy_ignore_widens_gen.
Print Assumptions partial_policy_ignore_widens.
Print Assumptions partial_policy_ignore_dropped.
Print Assumptions forbid_ignore_kept_sound.
Print Assumptions ig_instance.
Print Assumptions widening_strict.
Print Assumptions forbid_scope_counterexample.
