(* C03, last clause: the scope forms agree with the operator.
   The authorizer evaluates a scope through the expression `scope_expr x s` (compile.go scopeToNode: `x == E`, `x in E`, `x in [..]`,
   `x is T`, `x is T in E`) with the ordinary evaluator; the partial evaluator / batch authorizer decides the same scopes directly
   (partial.go partialScopeEval = Impl/Partial.v scope_holds).  Both are the reachability relation of C03. *)
From Coq Require Import ZArith List Bool.
Import ListNotations.
From Cedar Require Import Lang.Value Lang.Expr Impl.InSearch Impl.Eval Impl.Partial Proofs.ValueProofs Proofs.InSearchProofs.

Lemma in_one_some (st : store) a b : exists r, in_one st a b = Some r /\ (r = true <-> reach_st st a b).
Proof. exact (eval_in_one_correct st a b). Qed.

Lemma in_set_some (st : store) a bs : exists r, in_set st a bs = Some r /\ (r = true <-> exists b, In b bs /\ reach_st st a b).
Proof. exact (eval_in_set_correct st a bs). Qed.

Definition ent (u : uid) : value := VEntity (fst u) (snd u).

Lemma veq_ent t i u : veq (VEntity t i) (ent u) = uid_eqb (t, i) u.
Proof. destruct u as [t' i']. reflexivity. Qed.

(* the members of a de-duplicated list of entity values are entity values: all_entities succeeds, with the same members *)
Lemma all_entities_sub : forall (l : list value) (us : list uid), (forall x, In x l -> exists u, In u us /\ x = ent u) ->
  exists us', all_entities l = Some us' /\ (forall u, In u us' <-> In (ent u) l).
Proof.
  induction l as [|x l IH]; intros us H.
  - exists []. split; [reflexivity|]. intros u; split; intros [].
  - destruct (H x (or_introl eq_refl)) as ([t i] & _ & ->).
    destruct (IH us (fun y Hy => H y (or_intror Hy))) as (us' & E & Hm).
    exists ((t, i) :: us'). split.
    + unfold ent. cbn [fst snd all_entities]. rewrite E. reflexivity.
    + intros [t' i']. cbn [In]. rewrite Hm. unfold ent. cbn [fst snd]. split.
      * intros [Heq|Hin]; [left; inversion Heq; reflexivity|right; exact Hin].
      * intros [Heq|Hin]; [left; inversion Heq; reflexivity|right; exact Hin].
Qed.

Lemma ent_inj u v : ent u = ent v -> u = v.
Proof. destruct u, v. unfold ent. cbn. intros H. inversion H. reflexivity. Qed.

Lemma veq_ent_eq u v : veq (ent u) (ent v) = true <-> u = v.
Proof.
  destruct u as [t i], v as [t' i']. unfold ent. cbn [fst snd veq]. rewrite andb_true_iff, !str_eqb_eq. split.
  - intros [-> ->]. reflexivity.
  - intros H. inversion H. split; reflexivity.
Qed.

Lemma dedup_ent_members us : forall u, In (ent u) (dedup (map ent us) []) <-> In u us.
Proof.
  intros u. split.
  - intros H. apply dedup_incl in H. destruct H as [H|[]]. apply in_map_iff in H. destruct H as (v & E & Hv). apply ent_inj in E. subst. exact Hv.
  - intros H. assert (Hm : vmem (ent u) (dedup (map ent us) []) = true).
    { rewrite mk_set_vmem. apply vmem_true_iff. exists (ent u). split; [apply in_map; exact H|]. apply veq_ent_eq. reflexivity. }
    apply vmem_true_iff in Hm. destruct Hm as (y & Hy & E).
    pose proof (dedup_incl _ _ _ Hy) as [Hy'|[]]. apply in_map_iff in Hy'. destruct Hy' as (v & <- & _).
    apply veq_ent_eq in E. subst. exact Hy.
Qed.

(* the scope expression, evaluated by the ordinary evaluator, is the direct scope test of the partial evaluator *)
Theorem scope_expr_eval : forall en x t i s,
  var_value en x = VEntity t i ->
  eval en (scope_expr x s) = Ok (VBool (scope_holds (e_store en) (t, i) s)).
Proof.
  intros en x t i s Hx. destruct s as [|u|u|us|ty|ty u]; cbn [scope_expr scope_holds eval].
  - reflexivity.
  - rewrite Hx. cbn [bindr]. unfold vbool. change (VEntity (fst u) (snd u)) with (ent u). rewrite veq_ent. reflexivity.
  - rewrite Hx. cbn [bindr as_entity do_in]. destruct (in_one_some (e_store en) (t, i) u) as (r & E & _).
    destruct u as [t' i']. cbn [fst snd]. rewrite E. reflexivity.
  - rewrite Hx. unfold mk_set. cbn [eval bindr as_entity do_in].
    destruct (all_entities_sub (dedup (map ent us) []) us) as (us' & E & Hm).
    { intros y Hy. apply dedup_incl in Hy. destruct Hy as [Hy|[]]. apply in_map_iff in Hy. destruct Hy as (v & <- & Hv). exists v. split; [exact Hv|reflexivity]. }
    replace (dedup (map (fun u : str * str => VEntity (fst u) (snd u)) us) []) with (dedup (map ent us) []) by reflexivity.
    rewrite E.
    destruct (in_set_some (e_store en) (t, i) us') as (r1 & E1 & H1). destruct (in_set_some (e_store en) (t, i) us) as (r2 & E2 & H2).
    rewrite E1, E2. cbn [of_search]. unfold vbool. f_equal. f_equal.
    apply eq_true_iff_eq. rewrite H1, H2. split; intros (b & Hb & Hr); exists b; (split; [|exact Hr]).
    + apply dedup_ent_members. apply Hm. exact Hb.
    + apply Hm. apply dedup_ent_members. exact Hb.
  - rewrite Hx. reflexivity.
  - rewrite Hx. cbn [bindr as_entity fst]. destruct (str_eqb t ty) eqn:Et; cbn [negb andb].
    + cbn [bindr do_in]. destruct (in_one_some (e_store en) (t, i) u) as (r & E & _). destruct u as [t' i']. cbn [fst snd]. rewrite E. reflexivity.
    + reflexivity.
Qed.

(* ... and both are reachability *)
Theorem scope_holds_spec : forall (st : store) a s,
  scope_holds st a s = true <->
  match s with
  | SAll => True
  | SEq u => a = u
  | SIn u => reach_st st a u
  | SInSet us => exists b, In b us /\ reach_st st a b
  | SIs ty => fst a = ty
  | SIsIn ty u => fst a = ty /\ reach_st st a u
  end.
Proof.
  intros st a s. destruct s as [|u|u|us|ty|ty u]; cbn [scope_holds].
  - tauto.
  - apply uid_eqb_eq.
  - destruct (in_one_some st a u) as (r & E & H). rewrite E. exact H.
  - destruct (in_set_some st a us) as (r & E & H). rewrite E. exact H.
  - apply str_eqb_eq.
  - rewrite andb_true_iff, str_eqb_eq. destruct (in_one_some st a u) as (r & E & H). rewrite E. rewrite H. tauto.
Qed.

Print Assumptions scope_expr_eval.
Print Assumptions scope_holds_spec.
