(* The conformance checkers (Impl/Conform.v: Validator.Entity / Entities / Request, check_value.go) establish the hypotheses of the C15
   soundness theorems (Properties/C15.v): a store and a request that pass the executable checks satisfy env_ok, actions_conform,
   store_types_known and request_env, so a validated policy never fails with a type error on them.

   HEADLINE THEOREMS
     check_value_sound    : decl_ty t -> vnodup v -> check_value t v = true -> vtyped v t
     check_value_complete : decl_ty t -> WT t -> vtyped v t -> check_value t v = true
     check_entity_sound, check_entities_sound, check_request_sound, checks_env_ok
     action_closure_exact : In x (action_closure sch u) <-> aclosure sch u x   (soundness for any fuel + completeness: the fuel
       S (S (length ts_agraph)) always suffices; agraph_wf / NoDup of the keys are NOT needed, see action_closure_exact0)
     check_action_entity_exact : check_action_entity accepts exactly the declared actions without attributes and tags whose parents
       are the transitive closure of their declared groups
     validated_and_conforming_never_type_errors (and the wf_value variant validated_and_conforming_never_type_errors_wf)

   HYPOTHESES ADDED to the statements of the task (with the counterexamples that make them necessary, end of Part 1):
   - vnodup v: every record inside the value has pairwise distinct keys (true of every Go value: types.Record is a map; implied by
     wf_value, lemma wf_value_vnodup).  Without it check_value_sound is FALSE of the model: check_value looks attributes up with rec_get
     (first binding) whereas vtyped speaks about every binding of the list (check_value_sound_needs_nodup).
     At the store / request level: store_vals_ok st (attribute records and tag values of every entity) and vnodup (VRecord ctx).
   - WT t in check_value_complete is needed (check_value_complete_needs_WT): check_value iterates over every declared attribute entry,
     vtyped looks the attribute up (first entry).
   - NoDup (map fst st) is NOT needed by check_entities_sound (lookup st u = Some e -> In (u, e) st); it is kept out of the statements.
   - enums_ok sch enums: forall n, alookup n enums <> None -> smem n (ts_enums sch) = true  (the weaker direction only). *)
From Coq Require Import ZArith List Bool String Lia Relations.
Import ListNotations.
From Cedar Require Import Base.Int64 Lang.Value Impl.Like Lang.Expr Impl.Eval Impl.TypeCheck Impl.ValidatePolicy Impl.Conform Lang.TypeSound
  Proofs.ValueProofs Proofs.TypeSoundLemmas Proofs.TypeSoundProofs Proofs.PolicySoundProofs.
Local Open Scope Z_scope.

(* ------------------------------------------------------------------ *)
(* Part 0: induction on types; small list facts                         *)
(* ------------------------------------------------------------------ *)
Section CtyInd.
  Variable P : cty -> Prop.
  Hypothesis HNever : P CNever.
  Hypothesis HTrue : P CTrue.
  Hypothesis HFalse : P CFalse.
  Hypothesis HBool : P CBool.
  Hypothesis HLong : P CLong.
  Hypothesis HString : P CString.
  Hypothesis HSet : forall e, P e -> P (CSet e).
  Hypothesis HRec : forall attrs, Forall (fun kv : str * (cty * bool) => P (fst (snd kv))) attrs -> P (CRec attrs).
  Hypothesis HEnt : forall l, P (CEnt l).
  Hypothesis HExt : forall n, P (CExt n).
  Fixpoint cf_cty_ind (t : cty) : P t :=
    match t with
    | CNever => HNever | CTrue => HTrue | CFalse => HFalse | CBool => HBool | CLong => HLong | CString => HString
    | CSet e => HSet e (cf_cty_ind e)
    | CRec attrs =>
        HRec attrs ((fix go (l : list (str * (cty * bool))) : Forall (fun kv : str * (cty * bool) => P (fst (snd kv))) l :=
                       match l with
                       | [] => Forall_nil _
                       | x :: r => Forall_cons _ (cf_cty_ind (fst (snd x))) (go r)
                       end) attrs)
    | CEnt l => HEnt l
    | CExt n => HExt n
    end.
End CtyInd.

Lemma rec_get_nodup {A} (l : list (str * A)) k v : NoDup (map fst l) -> In (k, v) l -> rec_get k l = Some v.
Proof.
  induction l as [|[k' v'] l IH]; intros Hnd Hin; [destruct Hin|].
  cbn [map fst] in Hnd. inversion Hnd as [|? ? Hni Hnd']; subst. cbn [rec_get].
  destruct Hin as [E|Hin].
  - inversion E; subst. rewrite str_eqb_refl. reflexivity.
  - destruct (str_eqb k k') eqn:E; [|apply IH; assumption].
    apply str_eqb_eq in E. subst k'. exfalso. apply Hni. apply in_map_iff. exists (k, v). auto.
Qed.

Lemma alookup_nodup {A} (l : list (str * A)) k v : NoDup (map fst l) -> In (k, v) l -> alookup k l = Some v.
Proof.
  induction l as [|[k' v'] l IH]; intros Hnd Hin; [destruct Hin|].
  cbn [map fst] in Hnd. inversion Hnd as [|? ? Hni Hnd']; subst. cbn [alookup].
  destruct Hin as [E|Hin].
  - inversion E; subst. rewrite str_eqb_refl. reflexivity.
  - destruct (str_eqb k' k) eqn:E; [|apply IH; assumption].
    apply str_eqb_eq in E. subst k'. exfalso. apply Hni. apply in_map_iff. exists (k, v). auto.
Qed.

(* ------------------------------------------------------------------ *)
(* Part 1: values against declared types                                *)
(* ------------------------------------------------------------------ *)
(* the types a resolved schema declares: no CNever / CTrue / CFalse, entity types with exactly one name, the four extension types *)
Definition known_ext (n : str) : bool := nm n "ipaddr" || nm n "decimal" || nm n "datetime" || nm n "duration".
Fixpoint decl_tyb (t : cty) : bool :=
  match t with
  | CBool | CLong | CString => true
  | CSet e => decl_tyb e
  | CRec l => (fix go (l : list (str * (cty * bool))) : bool := match l with [] => true | (_, (x, _)) :: r => decl_tyb x && go r end) l
  | CEnt [_] => true
  | CExt n => known_ext n
  | _ => false
  end.
Definition decl_ty (t : cty) : Prop := decl_tyb t = true.

Lemma decl_ty_rec l : decl_ty (CRec l) <-> Forall (fun kv : str * (cty * bool) => decl_ty (fst (snd kv))) l.
Proof.
  unfold decl_ty. cbn [decl_tyb].
  induction l as [|[k [x q]] l IH].
  - split; intros _; [constructor | reflexivity].
  - rewrite andb_true_iff, IH. cbn [fst snd]. split.
    + intros [H1 H2]. constructor; assumption.
    + intros H. inversion H; subst. split; assumption.
Qed.

(* every record inside the value has pairwise distinct keys (a Go map) *)
Fixpoint vnodup (v : value) : Prop :=
  match v with
  | VSet l => (fix go (l : list value) : Prop := match l with [] => True | x :: r => vnodup x /\ go r end) l
  | VRecord l => NoDup (map fst l) /\
                 (fix go (l : list (str * value)) : Prop := match l with [] => True | (_, x) :: r => vnodup x /\ go r end) l
  | _ => True
  end.

Lemma vnodup_set l : vnodup (VSet l) <-> Forall vnodup l.
Proof.
  cbn [vnodup]. induction l as [|x l IH].
  - split; intros _; [constructor | exact I].
  - rewrite IH. split.
    + intros [H1 H2]. constructor; assumption.
    + intros H. inversion H; subst. split; assumption.
Qed.

Lemma vnodup_rec l : vnodup (VRecord l) <-> NoDup (map fst l) /\ Forall (fun kv : str * value => vnodup (snd kv)) l.
Proof.
  cbn [vnodup]. apply and_iff_compat_l. induction l as [|[k x] l IH].
  - split; intros _; [constructor | exact I].
  - rewrite IH. cbn [snd]. split.
    + intros [H1 H2]. constructor; assumption.
    + intros H. inversion H; subst. split; assumption.
Qed.

Lemma keys_sorted_NoDup {A} (l : list (str * A)) : keys_sorted l = true -> NoDup (map fst l).
Proof.
  assert (Hlt : forall (l : list (str * A)) k v, keys_sorted ((k, v) :: l) = true -> forall k', In k' (map fst l) -> str_ltb k k' = true).
  { induction l0 as [|[k1 v1] l0 IH]; intros k v Hs k' Hin; [destruct Hin|].
    cbn [keys_sorted] in Hs. apply andb_true_iff in Hs. destruct Hs as [H1 H2].
    destruct Hin as [<-|Hin]; [exact H1|]. cbn [fst]. eapply str_ltb_trans; [exact H1|]. apply (IH k1 v1 H2 k' Hin). }
  induction l as [|[k v] l IH]; intros Hs; [constructor|].
  cbn [map fst]. constructor.
  - intros Hin. pose proof (Hlt _ _ _ Hs _ Hin) as H. rewrite str_ltb_irrefl in H. discriminate.
  - apply IH. cbn [keys_sorted] in Hs. destruct l as [|[k1 v1] l]; [reflexivity|].
    apply andb_true_iff in Hs. apply Hs.
Qed.

Lemma wf_value_vnodup : forall v, wf_value v = true -> vnodup v.
Proof.
  induction v as [| | | |l IH|l IH| | | |] using value_ind'; intros Hw; try exact I.
  - apply vnodup_set. apply wf_set_inv in Hw. destruct Hw as [_ Hw].
    rewrite Forall_forall in *. intros x Hx. apply IH; auto.
  - apply vnodup_rec. apply wf_rec_inv in Hw. destruct Hw as [Hk Hw]. split; [apply keys_sorted_NoDup, Hk|].
    rewrite Forall_forall in *. intros x Hx. apply IH; auto.
Qed.

(* checkRecord, unfolded *)
Lemma check_value_rec attrs kvs :
  check_value (CRec attrs) (VRecord kvs) =
  forallb (fun a : str * (cty * bool) =>
             match rec_get (fst a) kvs with Some x => check_value (fst (snd a)) x | None => negb (snd (snd a)) end) attrs &&
  forallb (fun kv : str * value => match alookup (fst kv) attrs with Some _ => true | None => false end) kvs.
Proof.
  cbn [check_value]. f_equal.
  induction attrs as [|[name [t' req]] r IH]; [reflexivity|].
  cbn [forallb fst snd]. rewrite <- IH. reflexivity.
Qed.

Lemma nm_eq n s : nm n s = true -> n = s_of s.
Proof. unfold nm. intros H. apply str_eqb_eq in H. symmetry. exact H. Qed.

Theorem check_value_sound : forall t v, decl_ty t -> vnodup v -> check_value t v = true -> vtyped v t.
Proof.
  induction t as [| | | | | |e IH|attrs IH|l|n] using cf_cty_ind; intros v Hd Hn Hc; try discriminate Hd.
  - destruct v; try discriminate Hc. constructor.
  - destruct v; try discriminate Hc. constructor.
  - destruct v; try discriminate Hc. constructor.
  - destruct v as [| | | |l| | | | |]; try discriminate Hc. cbn [check_value] in Hc. rewrite forallb_forall in Hc.
    apply vnodup_set in Hn. rewrite Forall_forall in Hn.
    constructor. apply Forall_forall. intros x Hx. apply IH; [exact Hd | apply Hn, Hx | apply Hc, Hx].
  - destruct v as [| | | | |kvs| | | |]; try discriminate Hc. rewrite check_value_rec in Hc.
    apply andb_true_iff in Hc. destruct Hc as [Heach Hclosed]. rewrite forallb_forall in Heach, Hclosed.
    apply vnodup_rec in Hn. destruct Hn as [Hnd Hn]. rewrite Forall_forall in Hn, IH.
    apply decl_ty_rec in Hd. rewrite Forall_forall in Hd.
    constructor.
    + apply Forall_forall. intros [k x] Hkv. specialize (Hclosed _ Hkv). cbn [fst snd] in *.
      destruct (alookup k attrs) as [[t q]|] eqn:E; [|discriminate]. exists t, q. split; [reflexivity|].
      apply alookup_In in E. specialize (Heach _ E). cbn [fst snd] in Heach.
      rewrite (rec_get_nodup kvs k x Hnd Hkv) in Heach.
      apply (IH _ E); [apply (Hd _ E) | apply (Hn _ Hkv) | exact Heach].
    + intros k t E. apply alookup_In in E. specialize (Heach _ E). cbn [fst snd] in Heach.
      destruct (rec_get k kvs) as [x|]; [eauto | discriminate].
  - destruct l as [|x [|y l]]; try discriminate Hd.
    destruct v; try discriminate Hc. cbn [check_value] in Hc. apply str_eqb_eq in Hc. subst. constructor. left; reflexivity.
  - unfold decl_ty in Hd. cbn [decl_tyb] in Hd. unfold known_ext in Hd.
    repeat (apply orb_true_iff in Hd; destruct Hd as [Hd|Hd]); apply nm_eq in Hd; subst n;
      destruct v; try (vm_compute in Hc; discriminate Hc); constructor.
Qed.

Theorem check_value_complete : forall t v, decl_ty t -> WT t -> vtyped v t -> check_value t v = true.
Proof.
  induction t as [| | | | | |e IH|attrs IH|l|n] using cf_cty_ind; intros v Hd Hw Ht; try discriminate Hd.
  - inversion Ht; reflexivity.
  - inversion Ht; reflexivity.
  - inversion Ht; reflexivity.
  - inversion Ht as [| | | | | |l0 e0 Hall| | | | |]; subst. cbn [check_value]. apply forallb_forall. intros x Hx.
    rewrite Forall_forall in Hall. apply IH; [exact Hd | exact Hw | apply Hall, Hx].
  - inversion Ht as [| | | | | | |kvs attrs0 Hall Hreq| | | |]; subst. rewrite check_value_rec.
    apply WT_rec in Hw. destruct Hw as [Hnd Hw]. rewrite Forall_forall in Hw, Hall, IH.
    apply decl_ty_rec in Hd. rewrite Forall_forall in Hd.
    apply andb_true_iff. split; apply forallb_forall.
    + intros [name [t' req]] Hin. cbn [fst snd].
      pose proof (alookup_nodup attrs name (t', req) Hnd Hin) as El.
      destruct (rec_get name kvs) as [x|] eqn:E.
      * apply rec_get_In in E. destruct (Hall _ E) as (t & q & El' & Hx). cbn [fst snd] in El', Hx.
        rewrite El in El'. inversion El'; subst t q.
        apply (IH _ Hin); [apply (Hd _ Hin) | apply (Hw _ Hin) | exact Hx].
      * destruct req; [|reflexivity]. destruct (Hreq _ _ El) as [x Hx]. congruence.
    + intros kv Hkv. destruct (Hall _ Hkv) as (t & q & El & _). rewrite El. reflexivity.
  - destruct l as [|x [|y l]]; try discriminate Hd.
    inversion Ht as [| | | | |t0 i0 l0 Hin| | | | | |]; subst. destruct Hin as [<-|[]]. cbn [check_value]. apply str_eqb_refl.
  - inversion Ht; subst; vm_compute; reflexivity.
Qed.

Corollary check_value_iff : forall t v, decl_ty t -> WT t -> vnodup v -> (check_value t v = true <-> vtyped v t).
Proof. intros t v Hd Hw Hn. split; [apply check_value_sound | apply check_value_complete]; assumption. Qed.

(* COUNTEREXAMPLES for the statements without the added hypotheses *)
(* a record value with a repeated key: check_value only sees the first binding *)
Example check_value_sound_needs_nodup :
  let t := CRec [(s_of "a", (CLong, true))] in
  let v := VRecord [(s_of "a", VLong 1); (s_of "a", VString [])] in
  decl_ty t /\ WT t /\ check_value t v = true /\ ~ vtyped v t.
Proof.
  cbv zeta. split; [reflexivity|]. split; [cbn; split; [repeat constructor; intros []|auto]|]. split; [vm_compute; reflexivity|].
  intros H. apply vtyped_rec_inv in H. destruct H as [H _].
  inversion H as [|? ? _ H2]; subst. inversion H2 as [|? ? H3 _]; subst.
  destruct H3 as (t & q & E & Ht). cbn in E. inversion E; subst. inversion Ht.
Qed.

(* a record type with a repeated key: vtyped only sees the first entry *)
Example check_value_complete_needs_WT :
  let t := CRec [(s_of "a", (CLong, false)); (s_of "a", (CString, true))] in
  let v := VRecord [(s_of "a", VLong 1)] in
  decl_ty t /\ vnodup v /\ vtyped v t /\ check_value t v = false.
Proof.
  cbv zeta. split; [reflexivity|]. split; [cbn; split; [repeat constructor; intros []|auto]|]. split; [|vm_compute; reflexivity].
  constructor.
  - constructor; [|constructor]. exists CLong, false. split; [reflexivity | constructor].
  - intros k t E. cbn [alookup] in E. destruct (str_eqb (s_of "a") k); [discriminate E|]. destruct (str_eqb (s_of "a") k); discriminate E.
Qed.

(* ------------------------------------------------------------------ *)
(* Part 2: entities and stores                                          *)
(* ------------------------------------------------------------------ *)
(* every attribute type and tag type of every declared entity type is a declared type *)
Definition schema_decl (sch : tschema) : Prop :=
  forall n te, entity_of sch n = Some te -> decl_ty (CRec (te_shape te)) /\ forall tt, te_tags te = Some tt -> decl_ty tt.
(* the enumerated types the checker knows (with their ids) are enumerated types of the schema *)
Definition enums_ok (sch : tschema) (enums : list (str * list str)) : Prop :=
  forall n, alookup n enums <> None -> smem n (ts_enums sch) = true.
(* the values an entity carries are Go values: record keys pairwise distinct at every depth *)
Definition entity_vals_ok (e : entity) : Prop :=
  vnodup (VRecord (e_attrs e)) /\ Forall (fun kv : str * value => vnodup (snd kv)) (e_tags e).
Definition store_vals_ok (st : store) : Prop := Forall (fun ue : uid * entity => entity_vals_ok (snd ue)) st.
Definition entity_vals_wf (e : entity) : Prop :=
  wf_value (VRecord (e_attrs e)) = true /\ Forall (fun kv : str * value => wf_value (snd kv) = true) (e_tags e).
Definition store_vals_wf (st : store) : Prop := Forall (fun ue : uid * entity => entity_vals_wf (snd ue)) st.

Lemma store_vals_wf_ok st : store_vals_wf st -> store_vals_ok st.
Proof.
  unfold store_vals_wf, store_vals_ok. rewrite !Forall_forall. intros H ue Hue. destruct (H _ Hue) as [H1 H2].
  split; [apply wf_value_vnodup, H1|]. rewrite Forall_forall in *. intros kv Hkv. apply wf_value_vnodup, H2, Hkv.
Qed.

(* the clauses of actions_conform / store_types_known for one entity *)
Definition action_clause (sch : tschema) (u : uid) (e : entity) : Prop :=
  is_action_type (fst u) = true -> entity_of sch (fst u) = None -> smem (fst u) (ts_enums sch) = false ->
  exists ps, aparents sch u = Some ps /\ forall p, In p (e_parents e) -> aclosure sch u p.
Definition known_clause (sch : tschema) (u : uid) : Prop :=
  entity_of sch (fst u) <> None \/ smem (fst u) (ts_enums sch) = true \/ is_action_type (fst u) = true.

Lemma lookup_In (st : store) u e : lookup st u = Some e -> In (u, e) st.
Proof.
  induction st as [|[k e'] st IH]; cbn [lookup]; [discriminate|].
  destruct (uid_eqb k u) eqn:E.
  - intros H. inversion H; subst. apply uid_eqb_eq in E. subst. left; reflexivity.
  - intros H. right. apply IH, H.
Qed.

Section Entities.
  Variable sch : tschema.
  Variable enums : list (str * list str).

  (* soundness of the closure walk, any fuel: whatever it adds is reachable *)
  Lemma cwalk_fold_sound f
    (IHf : forall u cl x, In x (cwalk sch f u cl) -> In x cl \/ x = u \/ aclosure sch u x) :
    forall ps acc x, In x (fold_left (fun acc p => cwalk sch f p acc) ps acc) ->
      In x acc \/ exists p, In p ps /\ (x = p \/ aclosure sch p x).
  Proof.
    induction ps as [|p ps IHps]; intros acc x Hx; cbn [fold_left] in Hx; [left; exact Hx|].
    destruct (IHps _ _ Hx) as [H|(q & Hq & H)].
    - destruct (IHf _ _ _ H) as [H'|[->|H']].
      + left; exact H'.
      + right. exists p. split; [left; reflexivity | left; reflexivity].
      + right. exists p. split; [left; reflexivity | right; exact H'].
    - right. exists q. split; [right; exact Hq | exact H].
  Qed.

  Lemma parents_aedge u p : In p (match aparents sch u with Some ps => ps | None => [] end) -> aedge sch u p.
  Proof. destruct (aparents sch u) as [ps|] eqn:E; [|intros []]. intros Hp. exists ps. auto. Qed.

  Lemma cwalk_sound : forall f u cl x, In x (cwalk sch f u cl) -> In x cl \/ x = u \/ aclosure sch u x.
  Proof.
    induction f as [|f IH]; intros u cl x Hx; cbn [cwalk] in Hx; [left; exact Hx|].
    destruct (umem u cl); [left; exact Hx|].
    destruct (cwalk_fold_sound f IH _ _ _ Hx) as [[<-|H]|(p & Hp & H)].
    - right; left; reflexivity.
    - left; exact H.
    - right; right. apply parents_aedge in Hp. destruct H as [->|H].
      + apply t_step, Hp.
      + eapply t_trans; [apply t_step, Hp | exact H].
  Qed.

  Lemma action_closure_sound u x : In x (action_closure sch u) -> aclosure sch u x.
  Proof.
    unfold action_closure. intros Hx.
    destruct (cwalk_fold_sound _ (cwalk_sound _) _ _ _ Hx) as [[]|(p & Hp & H)].
    apply parents_aedge in Hp. destruct H as [->|H].
    - apply t_step, Hp.
    - eapply t_trans; [apply t_step, Hp | exact H].
  Qed.

  Lemma aparents_key u : In u (akeys sch) -> aparents sch u <> None.
  Proof.
    unfold akeys, aparents. induction (ts_agraph sch) as [|[a ps] r IH]; intros Hin; [destruct Hin|].
    cbn [map fst] in Hin. destruct (uid_eqb a u) eqn:E; [discriminate|].
    destruct Hin as [<-|Hin]; [rewrite uid_eqb_refl in E; discriminate | apply IH, Hin].
  Qed.

  (* ---- completeness of the closure walk: the fuel action_closure gives always suffices ----
     Measure: the number of graph keys outside the accumulator (TypeSoundLemmas.aunv).  A node that is not a key has no parents and
     needs one unit of fuel only; expanding a key puts it into the accumulator first, so the measure drops before the recursive calls.
     Neither agraph_wf nor NoDup of the keys is needed (aunv counts list positions; a repeated key only makes the bound looser). *)
  (* what a walk adds is fully expanded: every parent of an added node is in the result *)
  Definition cexplored (V V' : list uid) : Prop :=
    incl V V' /\ forall x, In x V' -> ~ In x V -> forall p, aedge sch x p -> In p V'.

  Lemma cexplored_refl V : cexplored V V.
  Proof. split; [apply incl_refl|]. intros x H1 H2. contradiction. Qed.

  Lemma cexplored_trans A B C : cexplored A B -> cexplored B C -> cexplored A C.
  Proof.
    intros [I1 E1] [I2 E2]. split; [eapply incl_tran; eauto|].
    intros x HxC HxA p Hp.
    destruct (in_dec uid_dec x B) as [HB|HB].
    - apply I2. apply (E1 x HB HxA p Hp).
    - apply (E2 x HxC HB p Hp).
  Qed.

  Lemma cwalk_fold_explored f
    (IHf : forall u V, (aunv sch V + 1 <= f)%nat -> cexplored V (cwalk sch f u V) /\ In u (cwalk sch f u V)) :
    forall qs v, (aunv sch v + 1 <= f)%nat ->
      cexplored v (fold_left (fun acc p => cwalk sch f p acc) qs v) /\
      forall p, In p qs -> In p (fold_left (fun acc p => cwalk sch f p acc) qs v).
  Proof.
    induction qs as [|q r IHr]; intros v Hv; cbn [fold_left].
    - split; [apply cexplored_refl | intros p []].
    - destruct (IHf q v Hv) as [Ex1 Hq].
      destruct (IHr (cwalk sch f q v)) as [Ex2 Hr]; [pose proof (aunv_mono sch _ _ (proj1 Ex1)); lia|].
      split; [eapply cexplored_trans; eauto|].
      intros p [<-|Hp]; [apply (proj1 Ex2), Hq | apply Hr, Hp].
  Qed.

  Lemma cwalk_explored : forall fuel u V, (aunv sch V + 1 <= fuel)%nat ->
    cexplored V (cwalk sch fuel u V) /\ In u (cwalk sch fuel u V).
  Proof.
    induction fuel as [|f IH]; intros u V Hf; [lia|].
    cbn [cwalk]. destruct (umem u V) eqn:Em.
    - split; [apply cexplored_refl | apply umem_In, Em].
    - destruct (aparents sch u) as [ps|] eqn:Ep.
      + assert (Hkey : In u (akeys sch)) by (apply aparents_In in Ep; unfold akeys; apply in_map_iff; exists (u, ps); auto).
        assert (Hlt : (aunv sch (u :: V) < aunv sch V)%nat).
        { apply (SRP.filter_length_strict _ _ _ u); auto.
          - intros x _ Hx. destruct (umem x V) eqn:E; [|reflexivity].
            apply umem_In in E. assert (E' : umem x (u :: V) = true) by (apply umem_In; right; exact E).
            rewrite E' in Hx. discriminate.
          - rewrite Em. reflexivity.
          - assert (E' : umem u (u :: V) = true) by (apply umem_In; left; reflexivity). rewrite E'. reflexivity. }
        destruct (cwalk_fold_explored f IH ps (u :: V) ltac:(lia)) as [[I1 E1] Hps].
        set (V' := fold_left (fun acc p => cwalk sch f p acc) ps (u :: V)) in *.
        assert (Hc : In u V') by (apply I1; left; reflexivity).
        split; [|exact Hc]. split.
        * intros x Hx. apply I1. right; exact Hx.
        * intros x HxV' HxV p (qs & Hq & Hp).
          destruct (uid_dec x u) as [->|Hne].
          -- rewrite Ep in Hq. inversion Hq; subst qs. apply Hps, Hp.
          -- apply (E1 x HxV'); [|exists qs; auto]. intros [X|X]; [congruence | contradiction].
      + cbn [fold_left]. split; [|left; reflexivity]. split; [intros x Hx; right; exact Hx|].
        intros x [<-|Hx] Hn p (qs & Hq & _); [congruence | contradiction].
  Qed.

  (* the closure is closed under parents and contains the parents of u *)
  Lemma action_closure_closed u :
    (forall p, aedge sch u p -> In p (action_closure sch u)) /\
    (forall x, In x (action_closure sch u) -> forall p, aedge sch x p -> In p (action_closure sch u)).
  Proof.
    unfold action_closure.
    assert (Hfuel : (aunv sch [] + 1 <= S (S (List.length (ts_agraph sch))))%nat) by (pose proof (aunv_le sch []); lia).
    destruct (cwalk_fold_explored _ (cwalk_explored _) (match aparents sch u with Some ps => ps | None => [] end) [] Hfuel) as [[_ E] Hps].
    split.
    - intros p (qs & Hq & Hp). apply Hps. rewrite Hq. exact Hp.
    - intros x Hx p Hp. apply (E x Hx (fun X : In x [] => X) p Hp).
  Qed.

  (* COMPLETENESS: every action reachable from u through the declared groups is in the closure; no hypothesis on the schema *)
  Theorem action_closure_complete0 : forall u x, aclosure sch u x -> In x (action_closure sch u).
  Proof.
    intros u x Hx. destruct (action_closure_closed u) as [Hu Hc].
    assert (G : forall a b, clos_trans uid (aedge sch) a b ->
                  (forall p, aedge sch a p -> In p (action_closure sch u)) -> In b (action_closure sch u)).
    { intros a b X. induction X as [a b X | a y b _ IH1 _ IH2]; intros Ha.
      - apply Ha, X.
      - apply IH2. apply Hc. apply IH1, Ha. }
    apply (G _ _ Hx Hu).
  Qed.

  Theorem action_closure_exact0 : forall u x, In x (action_closure sch u) <-> aclosure sch u x.
  Proof. intros u x. split; [apply action_closure_sound | apply action_closure_complete0]. Qed.

  (* the statements as asked for; agraph_wf is not used *)
  Theorem action_closure_complete : agraph_wf sch -> forall u x, aclosure sch u x -> In x (action_closure sch u).
  Proof. intros _. exact action_closure_complete0. Qed.

  Theorem action_closure_exact : agraph_wf sch -> forall u x, In x (action_closure sch u) <-> aclosure sch u x.
  Proof. intros _. exact action_closure_exact0. Qed.

  (* what validateActionEntity accepts, exactly: a declared action without attributes and tags whose parents are the transitive
     closure of its declared groups (agraph_wf is not used) *)
  Theorem check_action_entity_exact : agraph_wf sch -> forall u e, check_action_entity sch (u, e) = true <->
    (umem u (ts_actions sch) = true /\ e_attrs e = [] /\ e_tags e = [] /\ (forall p, In p (e_parents e) <-> aclosure sch u p)).
  Proof.
    intros _ u e. unfold check_action_entity. cbn [fst snd].
    rewrite !andb_true_iff, !forallb_forall. split.
    - intros [[[Hd Ha] Ht] [H1 H2]].
      split; [exact Hd|]. split; [destruct (e_attrs e); [reflexivity | discriminate]|].
      split; [destruct (e_tags e); [reflexivity | discriminate]|].
      intros p. split.
      + intros Hp. apply action_closure_exact0, umem_In, H1, Hp.
      + intros Hp. apply umem_In, H2, action_closure_exact0, Hp.
    - intros (Hd & Ha & Ht & Hp). rewrite Ha, Ht. split; [split; [split|]; auto|]. split.
      + intros p Hin. apply umem_In, action_closure_exact0, Hp, Hin.
      + intros p Hin. apply umem_In, Hp, action_closure_exact0, Hin.
  Qed.

  Hypothesis Hdecl : schema_decl sch.
  Hypothesis Hg : agraph_wf sch.
  Hypothesis Henums : enums_ok sch enums.

  Theorem check_entity_sound : forall u e, entity_vals_ok e -> check_entity sch enums (u, e) = true ->
    entity_ok sch u e /\ action_clause sch u e /\ known_clause sch u.
  Proof.
    intros u e [Hva Hvt] Hc. unfold check_entity in Hc. cbn [fst snd] in Hc.
    destruct Hg as (Hkeys & Hgr & Hact & Hpar).
    destruct (is_action_type (fst u)) eqn:Ea.
    - (* an action entity *)
      destruct (Hact _ Ea) as [Hn Hs]. unfold check_action_entity in Hc. cbn [fst snd] in Hc.
      apply andb_true_iff in Hc. destruct Hc as [Hc Hcl]. apply andb_true_iff in Hc. destruct Hc as [Hc Htg].
      apply andb_true_iff in Hc. destruct Hc as [Hdeclared Hat]. apply andb_true_iff in Hcl. destruct Hcl as [Hsub _].
      split; [|split].
      + unfold entity_ok. unfold entity_of in Hn. rewrite Hn.
        split; [destruct (e_attrs e); [reflexivity | discriminate]|].
        split; [destruct (e_tags e); [reflexivity | discriminate]|]. intros X. congruence.
      + intros _ _ _. apply umem_In, Hkeys in Hdeclared. apply aparents_key in Hdeclared.
        destruct (aparents sch u) as [ps|] eqn:Ep; [|congruence]. exists ps. split; [reflexivity|].
        intros p Hp. rewrite forallb_forall in Hsub. apply action_closure_sound. apply umem_In. apply Hsub, Hp.
      + right; right; exact Ea.
    - destruct (entity_of sch (fst u)) as [te|] eqn:Ee.
      + (* an entity of a declared type *)
        destruct (Hdecl _ _ Ee) as [Hds Hdt]. unfold check_declared_entity in Hc.
        apply andb_true_iff in Hc. destruct Hc as [Hc Htg]. apply andb_true_iff in Hc. destruct Hc as [Hps Hat].
        split; [|split].
        * unfold entity_ok. unfold entity_of in Ee. rewrite Ee. split; [|split].
          -- apply check_value_sound; assumption.
          -- intros k v Hk. apply rec_get_In in Hk.
             destruct (te_tags te) as [tg|]; [|destruct (e_tags e); [destruct Hk | discriminate]].
             exists tg. split; [reflexivity|]. rewrite forallb_forall in Htg. rewrite Forall_forall in Hvt.
             apply check_value_sound; [apply Hdt; reflexivity | apply (Hvt _ Hk) | apply (Htg _ Hk)].
          -- intros p Hp. rewrite forallb_forall in Hps. apply smem_In, Hps, Hp.
        * intros X. congruence.
        * left. congruence.
      + (* an entity of an enumerated type *)
        destruct (alookup (fst u) enums) as [ids|] eqn:En; [|discriminate].
        apply andb_true_iff in Hc. destruct Hc as [_ Hc].
        assert (Hbare : e_parents e = [] /\ e_attrs e = [] /\ e_tags e = []).
        { destruct (e_parents e); [|discriminate]. destruct (e_attrs e); [|discriminate]. destruct (e_tags e); [|discriminate]. auto. }
        destruct Hbare as (Hp & Ha & Ht).
        split; [|split].
        * unfold entity_ok. unfold entity_of in Ee. rewrite Ee. auto.
        * intros X. congruence.
        * right; left. apply Henums. congruence.
  Qed.

  (* NoDup (map fst st) is not needed: lookup returns a listed entity *)
  Theorem check_entities_sound : forall st, store_vals_ok st -> check_entities sch enums st = true ->
    store_ok sch st /\ actions_conform sch st /\ store_types_known sch st.
  Proof.
    intros st Hv Hc. unfold check_entities in Hc. rewrite forallb_forall in Hc. unfold store_vals_ok in Hv. rewrite Forall_forall in Hv.
    assert (H : forall u e, lookup st u = Some e -> entity_ok sch u e /\ action_clause sch u e /\ known_clause sch u).
    { intros u e Hl. apply lookup_In in Hl. apply check_entity_sound; [apply (Hv _ Hl) | apply (Hc _ Hl)]. }
    split; [|split].
    - intros u e Hl. apply (H _ _ Hl).
    - intros u e Hl. apply (H _ _ Hl).
    - intros u e Hl. apply (H _ _ Hl).
  Qed.
End Entities.

(* ------------------------------------------------------------------ *)
(* Part 3: requests                                                     *)
(* ------------------------------------------------------------------ *)
(* every declared context type is a declared type *)
Definition acts_decl (acts : list (uid * applies)) : Prop :=
  forall u ps rs ctx, In (u, Some (ps, rs, ctx)) acts -> decl_ty (CRec ctx).
(* the declared context of an action (empty if the action is not declared or applies to nothing) *)
Definition ctx_of (acts : list (uid * applies)) (a : uid) : list (str * (cty * bool)) :=
  match applies_of acts a with Some (Some (_, _, c)) => c | _ => [] end.
Definition req_tenv (acts : list (uid * applies)) (p a r : uid) : tenv :=
  {| tv_principal := fst p; tv_action := a; tv_resource := fst r; tv_context := ctx_of acts a |}.
Definition req_env (st : store) (p a r : uid) (ctx : list (str * value)) : env :=
  {| e_store := st; e_principal := VEntity (fst p) (snd p); e_action := VEntity (fst a) (snd a);
     e_resource := VEntity (fst r) (snd r); e_context := VRecord ctx |}.

Section Requests.
  Variable sch : tschema.
  Variable acts : list (uid * applies).
  Hypothesis Hacts : acts_decl acts.

  Theorem check_request_sound : forall p a r ctx, vnodup (VRecord ctx) -> check_request sch acts p a r ctx = true ->
    let tv := {| tv_principal := fst p; tv_action := a; tv_resource := fst r; tv_context := ctx_of acts a |} in
    request_env sch acts tv /\ vtyped (VEntity (fst p) (snd p)) (CEnt [fst p]) /\ vtyped (VEntity (fst r) (snd r)) (CEnt [fst r]) /\
    vtyped (VRecord ctx) (CRec (tv_context tv)).
  Proof.
    intros p a r ctx Hn Hc tv. unfold check_request in Hc.
    destruct (applies_of acts a) as [[[[ps rs] c]|]|] eqn:Ea; try discriminate.
    apply andb_true_iff in Hc. destruct Hc as [Hc Hctx]. apply andb_true_iff in Hc. destruct Hc as [Hc Hrs].
    apply andb_true_iff in Hc. destruct Hc as [Hc Hkr]. apply andb_true_iff in Hc. destruct Hc as [Hkp Hps].
    assert (Ec : tv_context tv = c) by (unfold tv, ctx_of; cbn [tv_context]; rewrite Ea; reflexivity).
    split; [|split; [|split]].
    - unfold request_env. split; [|split; [exact Hkp | exact Hkr]].
      exists ps, rs, c. cbn [tv tv_action tv_principal tv_resource].
      split; [exact Ea|]. split; [apply smem_In, Hps|]. split; [apply smem_In, Hrs | exact Ec].
    - constructor. left; reflexivity.
    - constructor. left; reflexivity.
    - rewrite Ec. apply check_value_sound; [|exact Hn | exact Hctx].
      apply applies_of_In in Ea. apply (Hacts _ _ _ _ Ea).
  Qed.

  Theorem checks_env_ok : forall enums st p a r ctx,
    schema_decl sch -> agraph_wf sch -> enums_ok sch enums -> store_vals_ok st -> vnodup (VRecord ctx) ->
    check_entities sch enums st = true -> check_request sch acts p a r ctx = true ->
    env_ok sch (req_tenv acts p a r) (req_env st p a r ctx).
  Proof.
    intros enums st p a r ctx Hsd Hg He Hv Hn Hes Hr.
    destruct (check_entities_sound sch enums Hsd Hg He st Hv Hes) as (Hst & _ & _).
    destruct (check_request_sound p a r ctx Hn Hr) as (_ & Hp & Hres & Hc).
    unfold env_ok, req_tenv, req_env. cbn [e_store e_principal e_action e_resource e_context tv_principal tv_action tv_resource tv_context].
    auto.
  Qed.
End Requests.

(* ------------------------------------------------------------------ *)
(* Part 4: end to end                                                   *)
(* ------------------------------------------------------------------ *)
(* A policy the validator accepts (strict mode), evaluated on a store that Validator.Entities accepts and a request that
   Validator.Request accepts, yields a Boolean or one of the three allowed errors: never a type error.
   Every side condition of validate_policy_sound about the request and the store follows from the executable checks; what remains are
   the conditions on the SCHEMA (schema_wf, agraph_wf, acts_wf, schema_decl, acts_decl, enums_ok), the model artifact policy_keys_small,
   and that the values are Go values (store_vals_ok, vnodup of the context). *)
Theorem validated_and_conforming_never_type_errors : forall sch enums acts pol st p a r ctx,
  schema_wf sch -> agraph_wf sch -> acts_wf sch acts -> schema_decl sch -> acts_decl acts -> enums_ok sch enums ->
  policy_keys_small pol = true -> store_vals_ok st -> vnodup (VRecord ctx) ->
  validate_policy true sch acts pol = true -> check_entities sch enums st = true -> check_request sch acts p a r ctx = true ->
  match eval {| e_store := st; e_principal := VEntity (fst p) (snd p); e_action := VEntity (fst a) (snd a);
                e_resource := VEntity (fst r) (snd r); e_context := VRecord ctx |} (policy_to_expr pol) with
  | Ok v => exists b, v = VBool b
  | Err k => allowed_error k = true
  end.
Proof.
  intros sch enums acts pol st p a r ctx Hwf Hg Haw Hsd Had He Hks Hv Hn Hval Hes Hr.
  destruct (check_entities_sound sch enums Hsd Hg He st Hv Hes) as (_ & Hac & Hkn).
  destruct (check_request_sound sch acts Had p a r ctx Hn Hr) as (Hreq & _).
  pose proof (checks_env_ok sch acts Had enums st p a r ctx Hsd Hg He Hv Hn Hes Hr) as Hen.
  exact (validate_policy_sound sch acts pol Hwf Hg Haw Hks Hval (req_env st p a r ctx) (req_tenv acts p a r) Hreq Hen Hac Hkn).
Qed.

(* the same for well-formed values (wf_value: records strictly sorted by key, sets duplicate-free) *)
Corollary validated_and_conforming_never_type_errors_wf : forall sch enums acts pol st p a r ctx,
  schema_wf sch -> agraph_wf sch -> acts_wf sch acts -> schema_decl sch -> acts_decl acts -> enums_ok sch enums ->
  policy_keys_small pol = true -> store_vals_wf st -> wf_value (VRecord ctx) = true ->
  validate_policy true sch acts pol = true -> check_entities sch enums st = true -> check_request sch acts p a r ctx = true ->
  match eval {| e_store := st; e_principal := VEntity (fst p) (snd p); e_action := VEntity (fst a) (snd a);
                e_resource := VEntity (fst r) (snd r); e_context := VRecord ctx |} (policy_to_expr pol) with
  | Ok v => exists b, v = VBool b
  | Err k => allowed_error k = true
  end.
Proof.
  intros sch enums acts pol st p a r ctx Hwf Hg Haw Hsd Had He Hks Hv Hn.
  apply validated_and_conforming_never_type_errors; auto using store_vals_wf_ok, wf_value_vnodup.
Qed.

(* ------------------------------------------------------------------ *)
(* Part 5: a concrete schema, store and request                         *)
(* ------------------------------------------------------------------ *)
(* entity User in [Team] { age: Long, friends?: Set<User> } tags String;  entity Team;  entity Color enum ["red", "green"];
   action "all"; action "readers" in ["all"]; action "view" in ["readers"] appliesTo { principal: User, resource: [User, Team],
   context: { ip: ipaddr, note?: String } } *)
Definition xUser := s_of "User".
Definition xTeam := s_of "Team".
Definition xColor := s_of "Color".
Definition xAction := s_of "Action".
Definition a_view : uid := (xAction, s_of "view").
Definition a_readers : uid := (xAction, s_of "readers").
Definition a_all : uid := (xAction, s_of "all").
Definition ex_user : tentity :=
  {| te_parents := [xTeam];
     te_shape := [(s_of "age", (CLong, true)); (s_of "friends", (CSet (CEnt [xUser]), false))];
     te_tags := Some CString |}.
Definition ex_team : tentity := {| te_parents := []; te_shape := []; te_tags := None |}.
Definition ex_sch : tschema :=
  {| ts_entities := [(xUser, ex_user); (xTeam, ex_team)];
     ts_enums := [xColor];
     ts_actions := [a_view; a_readers; a_all];
     ts_agraph := [(a_view, [a_readers]); (a_readers, [a_all]); (a_all, [])] |}.
Definition ex_enums : list (str * list str) := [(xColor, [s_of "red"; s_of "green"])].
Definition ex_ctx : list (str * (cty * bool)) := [(s_of "ip", (xt "ipaddr", true)); (s_of "note", (CString, false))].
Definition ex_acts : list (uid * applies) :=
  [(a_view, Some ([xUser], [xUser; xTeam], ex_ctx)); (a_readers, None); (a_all, None)].

Definition u_alice : uid := (xUser, s_of "alice").
Definition u_bob : uid := (xUser, s_of "bob").
Definition u_t1 : uid := (xTeam, s_of "t1").
Definition u_red : uid := (xColor, s_of "red").
Definition bare : entity := {| e_parents := []; e_attrs := []; e_tags := [] |}.
Definition e_alice : entity :=
  {| e_parents := [u_t1];
     e_attrs := [(s_of "age", VLong 30); (s_of "friends", VSet [VEntity xUser (s_of "bob")])];
     e_tags := [(s_of "k", VString (s_of "v"))] |}.
Definition e_bob : entity := {| e_parents := []; e_attrs := [(s_of "age", VLong 5)]; e_tags := [] |}.
Definition ex_store : store :=
  [(u_alice, e_alice); (u_bob, e_bob); (u_t1, bare); (u_red, bare);
   (a_view, {| e_parents := [a_readers; a_all]; e_attrs := []; e_tags := [] |});
   (a_readers, {| e_parents := [a_all]; e_attrs := []; e_tags := [] |});
   (a_all, bare)].
Definition ex_reqctx : list (str * value) := [(s_of "ip", VIP false 2130706433 32)].

Definition ex_pol : policy :=
  {| p_effect := true; p_principal := SIs xUser; p_action := SEq a_view; p_resource := SAll;
     p_conds := [(true, EAnd (EGt (EAccess (EVar VPrincipal) (s_of "age")) (ELit (VLong 3)))
                             (EIn (EVar VAction) (ELit (VEntity xAction (s_of "all")))))] |}.

Example ex_entities_conform : check_entities ex_sch ex_enums ex_store = true.
Proof. vm_compute. reflexivity. Qed.
Example ex_request_conforms : check_request ex_sch ex_acts u_alice a_view u_t1 ex_reqctx = true.
Proof. vm_compute. reflexivity. Qed.
Example ex_closure : action_closure ex_sch a_view = [a_all; a_readers].
Proof. vm_compute. reflexivity. Qed.
Example ex_policy_validates : validate_policy true ex_sch ex_acts ex_pol = true.
Proof. vm_compute. reflexivity. Qed.

(* non-conforming variants: each is rejected *)
Definition with_entity (u : uid) (e : entity) : store := (u, e) :: ex_store.
(* an attribute the type does not declare *)
Example ex_bad_undeclared_attr :
  check_entity ex_sch ex_enums (u_bob, {| e_parents := []; e_attrs := [(s_of "age", VLong 5); (s_of "zzz", VBool true)]; e_tags := [] |}) = false.
Proof. vm_compute. reflexivity. Qed.
(* a required attribute is missing *)
Example ex_bad_missing_required :
  check_entity ex_sch ex_enums (u_bob, {| e_parents := []; e_attrs := []; e_tags := [] |}) = false.
Proof. vm_compute. reflexivity. Qed.
(* an attribute of the wrong type *)
Example ex_bad_attr_type :
  check_entity ex_sch ex_enums (u_bob, {| e_parents := []; e_attrs := [(s_of "age", VString (s_of "5"))]; e_tags := [] |}) = false.
Proof. vm_compute. reflexivity. Qed.
(* an action entity with a parent outside the closure of its declared groups *)
Example ex_bad_action_parent :
  check_entity ex_sch ex_enums (a_readers, {| e_parents := [a_all; a_view]; e_attrs := []; e_tags := [] |}) = false.
Proof. vm_compute. reflexivity. Qed.
(* an action entity that lacks a member of the closure (the code demands equality; the theorems only use the inclusion) *)
Example ex_bad_action_parent_missing :
  check_entity ex_sch ex_enums (a_view, {| e_parents := [a_readers]; e_attrs := []; e_tags := [] |}) = false.
Proof. vm_compute. reflexivity. Qed.
(* an undeclared action *)
Example ex_bad_action_undeclared :
  check_entity ex_sch ex_enums ((xAction, s_of "delete"), bare) = false.
Proof. vm_compute. reflexivity. Qed.
(* an enumerated entity with an id the enumeration does not list *)
Example ex_bad_enum_id : check_entity ex_sch ex_enums ((xColor, s_of "blue"), bare) = false.
Proof. vm_compute. reflexivity. Qed.
(* a tag on an entity whose type declares no tags *)
Example ex_bad_tag : check_entity ex_sch ex_enums (u_t1, {| e_parents := []; e_attrs := []; e_tags := [(s_of "k", VString [])] |}) = false.
Proof. vm_compute. reflexivity. Qed.
(* a parent of a type that is not a declared parent type *)
Example ex_bad_parent_type : check_entity ex_sch ex_enums (u_t1, {| e_parents := [u_bob]; e_attrs := []; e_tags := [] |}) = false.
Proof. vm_compute. reflexivity. Qed.
(* an entity of an unknown type *)
Example ex_bad_unknown_type : check_entity ex_sch ex_enums ((s_of "Robot", s_of "r2"), bare) = false.
Proof. vm_compute. reflexivity. Qed.
(* one bad entity makes the store non-conforming *)
Example ex_bad_store : check_entities ex_sch ex_enums (with_entity (xColor, s_of "blue") bare) = false.
Proof. vm_compute. reflexivity. Qed.
(* requests: principal type outside appliesTo; missing required context attribute; undeclared context attribute; action that applies to
   nothing; undeclared action *)
Example ex_bad_request_principal : check_request ex_sch ex_acts u_t1 a_view u_t1 ex_reqctx = false.
Proof. vm_compute. reflexivity. Qed.
Example ex_bad_request_ctx_missing : check_request ex_sch ex_acts u_alice a_view u_t1 [] = false.
Proof. vm_compute. reflexivity. Qed.
Example ex_bad_request_ctx_extra :
  check_request ex_sch ex_acts u_alice a_view u_t1 [(s_of "ip", VIP false 2130706433 32); (s_of "zzz", VLong 0)] = false.
Proof. vm_compute. reflexivity. Qed.
Example ex_bad_request_group : check_request ex_sch ex_acts u_alice a_readers u_t1 ex_reqctx = false.
Proof. vm_compute. reflexivity. Qed.
Example ex_bad_request_action : check_request ex_sch ex_acts u_alice (xAction, s_of "delete") u_t1 ex_reqctx = false.
Proof. vm_compute. reflexivity. Qed.

(* store_vals_ok cannot be dropped from check_entity_sound: an attribute list with a repeated key *)
Example check_entity_sound_needs_vals_ok :
  let e := {| e_parents := []; e_attrs := [(s_of "age", VLong 5); (s_of "age", VString [])]; e_tags := [] |} in
  check_entity ex_sch ex_enums (u_bob, e) = true /\ ~ entity_ok ex_sch u_bob e.
Proof.
  cbv zeta. split; [vm_compute; reflexivity|]. intros H. unfold entity_ok in H.
  assert (E : alookup (fst u_bob) (ts_entities ex_sch) = Some ex_user) by (vm_compute; reflexivity).
  rewrite E in H. destruct H as [H _]. cbn [e_attrs] in H. apply vtyped_rec_inv in H. destruct H as [H _].
  inversion H as [|? ? _ H2]; subst. inversion H2 as [|? ? H3 _]; subst.
  destruct H3 as (t & q & El & Ht). assert (Et : t = CLong) by (vm_compute in El; inversion El; reflexivity).
  subst t. inversion Ht.
Qed.

(* the hypotheses of the end-to-end theorem hold of the example schema *)
Ltac nodup_str :=
  repeat (constructor; [cbn [In]; let HH := fresh "HH" in intros HH; repeat (destruct HH as [HH|HH]; [vm_compute in HH; discriminate HH|]); exact HH|]);
  constructor.

Lemma ex_schema_decl : schema_decl ex_sch.
Proof.
  intros n te H. unfold entity_of, ex_sch in H. cbn [ts_entities alookup] in H.
  destruct (str_eqb xUser n).
  { inversion H; subst. split; [vm_compute; reflexivity|]. intros tt E. inversion E; subst. reflexivity. }
  destruct (str_eqb xTeam n); [|discriminate H].
  inversion H; subst. split; [vm_compute; reflexivity|]. intros tt E. discriminate E.
Qed.

Lemma ex_schema_wf : schema_wf ex_sch.
Proof.
  split; [vm_compute; reflexivity|].
  intros n te H. unfold entity_of, ex_sch in H. cbn [ts_entities alookup] in H.
  destruct (str_eqb xUser n).
  { inversion H; subst. split.
    - intros k t q E. unfold ex_user in E. cbn [te_shape alookup] in E.
      destruct (str_eqb (s_of "age") k); [inversion E; subst; exact I|].
      destruct (str_eqb (s_of "friends") k); [inversion E; subst; exact I | discriminate E].
    - intros tt E. inversion E; subst. exact I. }
  destruct (str_eqb xTeam n); [|discriminate H].
  inversion H; subst. split; [intros k t q E; discriminate E | intros tt E; discriminate E].
Qed.

Lemma ex_agraph_wf : agraph_wf ex_sch.
Proof.
  split; [|split; [|split]].
  - intros u. exact (iff_refl _).
  - intros a ps Hin. unfold ex_sch in Hin. cbn [ts_agraph In] in Hin.
    destruct Hin as [E|[E|[E|[]]]]; inversion E; subst; (split; [vm_compute; reflexivity|]); intros p Hp.
    + destruct Hp as [<-|[]]. apply umem_In. vm_compute. reflexivity.
    + destruct Hp as [<-|[]]. apply umem_In. vm_compute. reflexivity.
    + destruct Hp.
  - intros n Hn. unfold entity_of, ex_sch. cbn [ts_entities ts_enums alookup smem existsb].
    destruct (str_eqb xUser n) eqn:E1; [apply str_eqb_eq in E1; subst n; vm_compute in Hn; discriminate Hn|].
    destruct (str_eqb xTeam n) eqn:E2; [apply str_eqb_eq in E2; subst n; vm_compute in Hn; discriminate Hn|].
    split; [reflexivity|].
    destruct (str_eqb n xColor) eqn:E3; [apply str_eqb_eq in E3; subst n; vm_compute in Hn; discriminate Hn | reflexivity].
  - intros n te p H Hp. unfold entity_of, ex_sch in H. cbn [ts_entities alookup] in H.
    destruct (str_eqb xUser n).
    { inversion H; subst. destruct Hp as [<-|[]]. vm_compute. reflexivity. }
    destruct (str_eqb xTeam n); [|discriminate H]. inversion H; subst. destruct Hp.
Qed.

Lemma ex_acts_wf : acts_wf ex_sch ex_acts.
Proof.
  split.
  - intros u. exact (iff_refl _).
  - intros u ps rs c Hin. unfold ex_acts in Hin. cbn [In] in Hin.
    destruct Hin as [E|[E|[E|[]]]]; inversion E; subst.
    apply WT_rec. split; [unfold ex_ctx; cbn [map fst]; nodup_str | repeat constructor].
Qed.

Lemma ex_acts_decl : acts_decl ex_acts.
Proof.
  intros u ps rs c Hin. unfold ex_acts in Hin. cbn [In] in Hin.
  destruct Hin as [E|[E|[E|[]]]]; inversion E; subst. vm_compute. reflexivity.
Qed.

Lemma ex_enums_ok : enums_ok ex_sch ex_enums.
Proof.
  intros n H. unfold ex_enums in H. cbn [alookup] in H.
  destruct (str_eqb xColor n) eqn:E; [|congruence]. apply str_eqb_eq in E. subst n. vm_compute. reflexivity.
Qed.

Lemma ex_store_vals_wf : store_vals_wf ex_store.
Proof.
  unfold store_vals_wf, entity_vals_wf, ex_store.
  repeat (constructor; [split; [vm_compute; reflexivity | repeat constructor]|]). constructor.
Qed.

(* the end-to-end theorem, instantiated: no evaluation is performed to obtain it *)
Example ex_never_type_errors :
  match eval (req_env ex_store u_alice a_view u_t1 ex_reqctx) (policy_to_expr ex_pol) with
  | Ok v => exists b, v = VBool b
  | Err k => allowed_error k = true
  end.
Proof.
  apply (validated_and_conforming_never_type_errors_wf ex_sch ex_enums ex_acts ex_pol ex_store u_alice a_view u_t1 ex_reqctx
           ex_schema_wf ex_agraph_wf ex_acts_wf ex_schema_decl ex_acts_decl ex_enums_ok).
  - vm_compute. reflexivity.
  - exact ex_store_vals_wf.
  - vm_compute. reflexivity.
  - exact ex_policy_validates.
  - exact ex_entities_conform.
  - exact ex_request_conforms.
Qed.
(* and what the evaluator actually returns *)
Example ex_eval : eval (req_env ex_store u_alice a_view u_t1 ex_reqctx) (policy_to_expr ex_pol) = Ok (VBool true).
Proof. vm_compute. reflexivity. Qed.

Print Assumptions check_value_sound.
Print Assumptions check_value_complete.
Print Assumptions check_value_sound_needs_nodup.
Print Assumptions check_value_complete_needs_WT.
Print Assumptions action_closure_complete.
Print Assumptions action_closure_exact.
Print Assumptions check_action_entity_exact.
Print Assumptions check_entity_sound.
Print Assumptions check_entities_sound.
Print Assumptions check_request_sound.
Print Assumptions checks_env_ok.
Print Assumptions validated_and_conforming_never_type_errors.
Print Assumptions validated_and_conforming_never_type_errors_wf.
Print Assumptions check_entity_sound_needs_vals_ok.
Print Assumptions ex_never_type_errors.
