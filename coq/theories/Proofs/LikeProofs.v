(* Correctness of the greedy chunk matcher of types/pattern.go (model: Impl/Like.v)
   against the textbook semantics of wildcard patterns. *)
From Coq Require Import ZArith List Bool Lia.
Import ListNotations.
From Cedar Require Import Lang.Value Impl.Like.
Local Open Scope Z_scope.

(* ------------------------------------------------------------------ *)
(* Specification                                                       *)
(* ------------------------------------------------------------------ *)

Inductive pelem := PStar | PChar (c : Z).

(* specification: * matches any (possibly empty) sequence of bytes, a char matches itself *)
Fixpoint wmatch (p : list pelem) (s : str) : bool :=
  match p with
  | [] => match s with [] => true | _ :: _ => false end
  | PChar c :: p' =>
      match s with
      | [] => false
      | x :: s' => (c =? x) && wmatch p' s'
      end
  | PStar :: p' =>
      (* either the star matches the empty sequence, or it eats one byte of s *)
      (fix star (s : str) : bool :=
         wmatch p' s || match s with [] => false | _ :: s' => star s' end) s
  end.

Definition elems_of_raw (cs : list (option str)) : list pelem :=
  flat_map (fun c => match c with None => [PStar] | Some s => map PChar s end) cs.

(* the element list denoted by a compiled pattern *)
Definition expand (p : pattern) : list pelem :=
  flat_map (fun c : pcomp => let '(w, lit) := c in
                             (if w then [PStar] else []) ++ map PChar lit) p.

(* ------------------------------------------------------------------ *)
(* Basic facts about wmatch                                            *)
(* ------------------------------------------------------------------ *)

Lemma wmatch_star_unfold : forall q s,
  wmatch (PStar :: q) s =
  wmatch q s || match s with [] => false | _ :: s' => wmatch (PStar :: q) s' end.
Proof. intros q s. destruct s as [|x s']; reflexivity. Qed.

Lemma wmatch_star_all : forall s, wmatch [PStar] s = true.
Proof.
  induction s as [|x s IH].
  - reflexivity.
  - rewrite wmatch_star_unfold. rewrite IH. apply orb_true_r.
Qed.

Lemma wmatch_star_iff : forall q s,
  wmatch (PStar :: q) s = true <->
  exists u v, s = u ++ v /\ wmatch q v = true.
Proof.
  intros q s. split.
  - induction s as [|x s IH]; intros H; rewrite wmatch_star_unfold in H.
    + rewrite orb_false_r in H. exists [], []. split; [reflexivity|exact H].
    + apply orb_true_iff in H. destruct H as [H|H].
      * exists [], (x :: s). split; [reflexivity|exact H].
      * destruct (IH H) as [u [v [Hs Hv]]].
        exists (x :: u), v. split; [rewrite Hs; reflexivity|exact Hv].
  - intros [u [v [Hs Hv]]]. subst s.
    induction u as [|x u IH].
    + cbn [app]. rewrite wmatch_star_unfold. rewrite Hv. reflexivity.
    + cbn [app]. rewrite wmatch_star_unfold. rewrite IH. apply orb_true_r.
Qed.

Lemma match_chunk_spec : forall lit s t,
  match_chunk lit s = Some t <-> s = lit ++ t.
Proof.
  induction lit as [|c lit IH]; intros s t; cbn [match_chunk app].
  - split; intros H; [injection H as H; exact H | subst; reflexivity].
  - destruct s as [|x s].
    + split; intros H; discriminate H.
    + destruct (Z.eqb_spec c x) as [Heq|Hne].
      * subst x. rewrite IH. split; intros H.
        -- subst s. reflexivity.
        -- injection H as H. exact H.
      * split; intros H; [discriminate H|].
        injection H as H1 H2. exfalso. apply Hne. symmetry. exact H1.
Qed.

Lemma wmatch_chars : forall lit q s,
  wmatch (map PChar lit ++ q) s =
  match match_chunk lit s with Some t => wmatch q t | None => false end.
Proof.
  induction lit as [|c lit IH]; intros q s.
  - reflexivity.
  - cbn [map app wmatch match_chunk]. destruct s as [|x s].
    + reflexivity.
    + destruct (c =? x).
      * rewrite andb_true_l. apply IH.
      * reflexivity.
Qed.

Lemma wmatch_chars_iff : forall lit q s,
  wmatch (map PChar lit ++ q) s = true <->
  exists t, s = lit ++ t /\ wmatch q t = true.
Proof.
  intros lit q s. rewrite wmatch_chars. split.
  - destruct (match_chunk lit s) as [t|] eqn:E; intros H; [|discriminate H].
    exists t. split; [apply match_chunk_spec; exact E|exact H].
  - intros [t [Hs Ht]]. apply match_chunk_spec in Hs. rewrite Hs. exact Ht.
Qed.

(* ------------------------------------------------------------------ *)
(* Pattern equivalence; ** = *                                          *)
(* ------------------------------------------------------------------ *)

Definition peq (p q : list pelem) : Prop := forall s, wmatch p s = wmatch q s.

Lemma peq_refl : forall p, peq p p.
Proof. intros p s. reflexivity. Qed.

Lemma peq_trans : forall p q r, peq p q -> peq q r -> peq p r.
Proof. intros p q r H1 H2 s. rewrite H1. apply H2. Qed.

Lemma peq_cons : forall e p q, peq p q -> peq (e :: p) (e :: q).
Proof.
  intros e p q H. destruct e as [|c].
  - intros s. induction s as [|x s IH].
    + rewrite !wmatch_star_unfold. rewrite H. reflexivity.
    + rewrite (wmatch_star_unfold p), (wmatch_star_unfold q). rewrite H, IH. reflexivity.
  - intros s. cbn [wmatch]. destruct s as [|x s]; [reflexivity|]. rewrite H. reflexivity.
Qed.

Lemma peq_app_l : forall r p q, peq p q -> peq (r ++ p) (r ++ q).
Proof.
  induction r as [|e r IH]; intros p q H; cbn [app].
  - exact H.
  - apply peq_cons. apply IH. exact H.
Qed.

Lemma bool_eq_iff : forall a b : bool, (a = true <-> b = true) -> a = b.
Proof. intros a b H. destruct a, b; try reflexivity; destruct H as [H1 H2];
       [symmetry; apply H1; reflexivity | apply H2; reflexivity]. Qed.

Lemma peq_star_star : forall q, peq (PStar :: q) (PStar :: PStar :: q).
Proof.
  intros q s. apply bool_eq_iff. split; intros H.
  - apply wmatch_star_iff. exists [], s. split; [reflexivity|exact H].
  - apply wmatch_star_iff in H. destruct H as [u [v [Hs Hv]]].
    apply wmatch_star_iff in Hv. destruct Hv as [u' [v' [Hs' Hv']]].
    apply wmatch_star_iff. exists (u ++ u'), v'. split; [|exact Hv'].
    subst s v. apply app_assoc.
Qed.

(* ------------------------------------------------------------------ *)
(* Shape of compiled patterns                                          *)
(* ------------------------------------------------------------------ *)

(* every component is a wildcard, and only the last one may have an empty literal *)
Fixpoint tailok (p : pattern) : Prop :=
  match p with
  | [] => True
  | (w, l) :: p' => w = true /\ (p' = [] \/ l <> []) /\ tailok p'
  end.

(* as tailok, except that the first component may lack the wildcard *)
Definition wf (p : pattern) : Prop :=
  match p with
  | [] => True
  | (w, l) :: p' => (w = true -> p' = [] \/ l <> []) /\ tailok p'
  end.

Lemma snoc_not_nil : forall (A : Type) (q : list A) (x : A), q ++ [x] <> [].
Proof. intros A q x H. destruct q; discriminate H. Qed.

Lemma tailok_snoc_lit : forall q w l l',
  tailok (q ++ [(w, l)]) -> tailok (q ++ [(w, l')]).
Proof.
  induction q as [|[w0 l0] q IH]; intros w l l' H; cbn [app tailok] in *.
  - destruct H as [Hw _]. split; [exact Hw|]. split; [left; reflexivity|exact I].
  - destruct H as [Hw0 [Hne Ht]]. split; [exact Hw0|]. split.
    + destruct Hne as [Hne|Hne]; [exfalso; eapply snoc_not_nil; exact Hne|right; exact Hne].
    + eapply IH. exact Ht.
Qed.

Lemma tailok_push : forall q w l,
  tailok (q ++ [(w, l)]) -> (w = false \/ l <> []) ->
  tailok ((q ++ [(w, l)]) ++ [(true, [])]).
Proof.
  induction q as [|[w0 l0] q IH]; intros w l H Hc; cbn [app tailok] in *.
  - destruct H as [Hw _]. split; [exact Hw|]. split.
    + right. destruct Hc as [Hc|Hc]; [rewrite Hw in Hc; discriminate Hc|exact Hc].
    + split; [reflexivity|]. split; [left; reflexivity|exact I].
  - destruct H as [Hw0 [Hne Ht]]. split; [exact Hw0|]. split.
    + destruct Hne as [Hne|Hne]; [exfalso; eapply snoc_not_nil; exact Hne|right; exact Hne].
    + apply IH; assumption.
Qed.

Lemma wf_snoc_lit : forall q w l l',
  wf (q ++ [(w, l)]) -> wf (q ++ [(w, l')]).
Proof.
  intros q w l l' H. destruct q as [|[w0 l0] q]; cbn [app wf] in *.
  - split; [intros _; left; reflexivity|exact I].
  - destruct H as [Hne Ht]. split.
    + intros Hw0. destruct (Hne Hw0) as [Hn|Hn];
        [exfalso; eapply snoc_not_nil; exact Hn|right; exact Hn].
    + eapply tailok_snoc_lit. exact Ht.
Qed.

Lemma wf_push : forall q w l,
  wf (q ++ [(w, l)]) -> (w = false \/ l <> []) ->
  wf ((q ++ [(w, l)]) ++ [(true, [])]).
Proof.
  intros q w l H Hc. destruct q as [|[w0 l0] q]; cbn [app wf] in *.
  - split.
    + intros Hw. right. destruct Hc as [Hc|Hc]; [rewrite Hw in Hc; discriminate Hc|exact Hc].
    + cbn [tailok]. split; [reflexivity|]. split; [left; reflexivity|exact I].
  - destruct H as [Hne Ht]. split.
    + intros Hw0. destruct (Hne Hw0) as [Hn|Hn];
        [exfalso; eapply snoc_not_nil; exact Hn|right; exact Hn].
    + apply tailok_push; assumption.
Qed.

Lemma compile_rev_wf : forall cs acc,
  wf (rev acc) -> wf (rev (compile_rev cs acc)).
Proof.
  induction cs as [|c cs IH]; intros acc H; cbn [compile_rev].
  - exact H.
  - destruct c as [s|].
    + destruct acc as [|[w l] acc'].
      * apply IH. cbn. split; [intros Hf; discriminate Hf|exact I].
      * apply IH. cbn [rev] in *. eapply wf_snoc_lit. exact H.
    + destruct acc as [|[w l] acc'].
      * apply IH. cbn. split; [intros _; left; reflexivity|exact I].
      * destruct (negb w || negb (match l with [] => true | _ :: _ => false end)) eqn:E.
        -- apply IH. cbn [rev] in *. apply wf_push; [exact H|].
           destruct w; [right|left; reflexivity].
           destruct l; [discriminate E|intros Hl; discriminate Hl].
        -- apply IH. exact H.
Qed.

Lemma compile_pattern_wf : forall cs, wf (compile_pattern cs).
Proof. intros cs. unfold compile_pattern. apply compile_rev_wf. exact I. Qed.

Lemma expand_app : forall p q, expand (p ++ q) = expand p ++ expand q.
Proof. intros p q. unfold expand. apply flat_map_app. Qed.

Lemma compile_rev_expand : forall cs acc,
  peq (expand (rev (compile_rev cs acc))) (expand (rev acc) ++ elems_of_raw cs).
Proof.
  induction cs as [|c cs IH]; intros acc; cbn [compile_rev].
  - cbn [elems_of_raw flat_map]. rewrite app_nil_r. apply peq_refl.
  - destruct c as [s|].
    + destruct acc as [|[w l] acc'].
      * eapply peq_trans; [apply IH|].
        cbn. rewrite app_nil_r. apply peq_refl.
      * eapply peq_trans; [apply IH|].
        cbn [rev]. rewrite !expand_app. cbn [expand flat_map elems_of_raw].
        rewrite !app_nil_r. rewrite map_app. rewrite <- !app_assoc. apply peq_refl.
    + destruct acc as [|[w l] acc'].
      * eapply peq_trans; [apply IH|]. cbn. apply peq_refl.
      * destruct (negb w || negb (match l with [] => true | _ :: _ => false end)) eqn:E.
        -- eapply peq_trans; [apply IH|].
           cbn [rev]. rewrite !expand_app. cbn [expand flat_map elems_of_raw map].
           rewrite !app_nil_r. rewrite <- !app_assoc. apply peq_refl.
        -- destruct w; [|discriminate E]. destruct l as [|x l]; [|discriminate E].
           eapply peq_trans; [apply IH|].
           cbn [rev]. rewrite !expand_app. cbn [expand flat_map elems_of_raw map app].
           rewrite <- !app_assoc. apply peq_app_l. cbn [app].
           apply peq_star_star.
Qed.

Lemma compile_pattern_expand : forall cs s,
  wmatch (elems_of_raw cs) s = wmatch (expand (compile_pattern cs)) s.
Proof.
  intros cs s. unfold compile_pattern. symmetry.
  apply (compile_rev_expand cs [] s).
Qed.

(* ------------------------------------------------------------------ *)
(* The matcher on well-shaped patterns                                 *)
(* ------------------------------------------------------------------ *)

Lemma go_match_cons : forall w lit p' arg,
  go_match ((w, lit) :: p') arg =
  if w && is_nil lit then true else
  match match_chunk lit arg with
  | Some t => if is_nil t || negb (is_nil p') then go_match p' t
              else if w then match scan lit (is_nil p') arg with
                             | Some t => go_match p' t | None => false end
                   else false
  | None => if w then match scan lit (is_nil p') arg with
                      | Some t => go_match p' t | None => false end
            else false
  end.
Proof. intros w lit p' arg. reflexivity. Qed.

Lemma suffix_of_longer : forall (a b t t' : str),
  a ++ t = b ++ t' -> (length a <= length b)%nat -> exists z, t = z ++ t'.
Proof.
  induction a as [|x a IH]; intros b t t' H Hl.
  - exists b. exact H.
  - destruct b as [|y b]; [cbn in Hl; lia|].
    cbn [app] in H. injection H as _ H. cbn [length] in Hl.
    apply (IH b); [exact H|lia].
Qed.

(* Committing to an occurrence of lit is sound when a star follows. *)
Lemma absorb_key : forall lit r t,
  wmatch (PStar :: map PChar lit ++ PStar :: r) (lit ++ t) = true ->
  wmatch (PStar :: r) t = true.
Proof.
  intros lit r t H.
  apply wmatch_star_iff in H. destruct H as [u [v [Hs Hv]]].
  apply wmatch_chars_iff in Hv. destruct Hv as [t' [Hv Ht']].
  apply wmatch_star_iff in Ht'. destruct Ht' as [u' [v' [Ht' Hv']]].
  subst v t'.
  assert (Hz : exists z, t = z ++ v').
  { apply (suffix_of_longer lit (u ++ lit ++ u')).
    - rewrite Hs. rewrite <- !app_assoc. reflexivity.
    - rewrite !app_length. lia. }
  destruct Hz as [z Hz]. apply wmatch_star_iff. exists z, v'. split; assumption.
Qed.

(* wildcard component that is not the last one *)
Lemma go_nonlast : forall lit c1 p'' r,
  lit <> [] ->
  (forall t, go_match (c1 :: p'') t = wmatch (PStar :: r) t) ->
  forall s, go_match ((true, lit) :: c1 :: p'') s =
            wmatch (PStar :: map PChar lit ++ PStar :: r) s.
Proof.
  intros lit c1 p'' r Hlit HK.
  assert (Hnil : is_nil lit = false) by (destruct lit; [contradiction|reflexivity]).
  (* scanning x :: s from offset 1 is the same as matching s from offset 0 *)
  assert (scanK : forall x s,
             match scan lit false (x :: s) with
             | Some t => go_match (c1 :: p'') t | None => false end =
             go_match ((true, lit) :: c1 :: p'') s).
  { intros x s. rewrite go_match_cons, Hnil. cbn [andb is_nil negb scan].
    destruct (match_chunk lit s) as [t|]; [rewrite orb_true_r|]; reflexivity. }
  induction s as [|x s IH].
  - rewrite go_match_cons, Hnil. cbn [andb is_nil negb scan].
    rewrite wmatch_star_unfold, wmatch_chars, orb_false_r.
    destruct (match_chunk lit []) as [t|].
    + rewrite orb_true_r. apply HK.
    + reflexivity.
  - rewrite go_match_cons, Hnil. cbn [andb is_nil negb].
    rewrite scanK, IH.
    rewrite (wmatch_star_unfold _ (x :: s)), wmatch_chars.
    destruct (match_chunk lit (x :: s)) as [t|] eqn:E.
    + rewrite orb_true_r, HK.
      destruct (wmatch (PStar :: r) t) eqn:Et; [reflexivity|]. cbn [orb].
      (* a later occurrence cannot succeed if the leftmost one fails *)
      destruct (wmatch (PStar :: map PChar lit ++ PStar :: r) s) eqn:Es; [|reflexivity].
      exfalso.
      assert (Hs : wmatch (PStar :: map PChar lit ++ PStar :: r) (x :: s) = true).
      { rewrite (wmatch_star_unfold _ (x :: s)), Es. apply orb_true_r. }
      apply match_chunk_spec in E. rewrite E in Hs. apply absorb_key in Hs.
      rewrite Hs in Et. discriminate Et.
    + reflexivity.
Qed.

(* wildcard component that is the last one (literal non-empty) *)
Lemma go_last : forall lit,
  lit <> [] ->
  forall s, go_match [(true, lit)] s = wmatch (PStar :: map PChar lit ++ []) s.
Proof.
  intros lit Hlit.
  assert (Hnil : is_nil lit = false) by (destruct lit; [contradiction|reflexivity]).
  assert (scanL : forall x s,
             match scan lit true (x :: s) with
             | Some t => go_match [] t | None => false end =
             go_match [(true, lit)] s).
  { intros x s. rewrite go_match_cons, Hnil. cbn [andb is_nil negb scan].
    destruct (match_chunk lit s) as [t|]; [|reflexivity].
    destruct t; reflexivity. }
  induction s as [|x s IH].
  - rewrite go_match_cons, Hnil. cbn [andb is_nil negb scan].
    rewrite wmatch_star_unfold, wmatch_chars, orb_false_r.
    destruct (match_chunk lit []) as [t|]; [|reflexivity].
    destruct t; reflexivity.
  - rewrite go_match_cons, Hnil. cbn [andb is_nil negb].
    rewrite scanL, IH.
    rewrite (wmatch_star_unfold _ (x :: s)), wmatch_chars.
    destruct (match_chunk lit (x :: s)) as [t|]; [|reflexivity].
    destruct t; reflexivity.
Qed.

Lemma expand_cons : forall w lit p,
  expand ((w, lit) :: p) = (if w then [PStar] else []) ++ map PChar lit ++ expand p.
Proof. intros w lit p. cbn [expand flat_map]. rewrite <- app_assoc. reflexivity. Qed.

Lemma go_match_tail : forall p, tailok p ->
  forall s, go_match p s = wmatch (expand p) s.
Proof.
  induction p as [|[w lit] p' IH]; intros Hok s.
  - reflexivity.
  - cbn [tailok] in Hok. destruct Hok as [Hw [Hne Hok']]. subst w.
    rewrite expand_cons. cbn [app].
    destruct lit as [|c lit].
    + destruct Hne as [Hp|Hl]; [|contradiction]. subst p'.
      cbn. symmetry. apply wmatch_star_all.
    + destruct p' as [|[w1 l1] p''].
      * apply go_last. intros Hl; discriminate Hl.
      * assert (Hw1 : w1 = true) by (cbn [tailok] in Hok'; tauto). subst w1.
        rewrite expand_cons. cbn [app].
        apply go_nonlast; [intros Hl; discriminate Hl|].
        intros t. rewrite (IH Hok' t). rewrite expand_cons. reflexivity.
Qed.

Lemma go_match_wf : forall p, wf p ->
  forall s, go_match p s = wmatch (expand p) s.
Proof.
  intros p Hwf s. destruct p as [|[w lit] p'].
  - reflexivity.
  - cbn [wf] in Hwf. destruct Hwf as [Hne Hok]. destruct w.
    + apply go_match_tail. cbn [tailok]. split; [reflexivity|]. split; [auto|exact Hok].
    + rewrite expand_cons. cbn [app]. rewrite wmatch_chars.
      rewrite go_match_cons. cbn [andb].
      destruct (match_chunk lit s) as [t|]; [|reflexivity].
      destruct p' as [|c1 p''].
      * cbn [is_nil negb expand flat_map go_match wmatch]. rewrite orb_false_r.
        destruct t; reflexivity.
      * cbn [is_nil negb]. rewrite orb_true_r. apply go_match_tail. exact Hok.
Qed.

(* ------------------------------------------------------------------ *)
(* Headline theorem                                                    *)
(* ------------------------------------------------------------------ *)

Theorem like_spec : forall (cs : list (option str)) (s : str),
  go_match (compile_pattern cs) s = wmatch (elems_of_raw cs) s.
Proof.
  intros cs s. rewrite compile_pattern_expand.
  apply go_match_wf. apply compile_pattern_wf.
Qed.

(* a*b*c : 97 = 'a', 98 = 'b', 99 = 'c', 120 = 'x', 121 = 'y' *)
Example like_ex1 :
  go_match (compile_pattern [Some [97]; None; Some [98]; None; Some [99]])
           [97; 120; 120; 98; 121; 121; 99] = true.
Proof. vm_compute. reflexivity. Qed.

Example like_ex2 :
  go_match (compile_pattern [Some [97]; None; Some [98]; None; Some [99]])
           [97; 120; 120; 98; 121; 121] = false.
Proof. vm_compute. reflexivity. Qed.

Example like_ex1_spec :
  wmatch (elems_of_raw [Some [97]; None; Some [98]; None; Some [99]])
         [97; 120; 120; 98; 121; 121; 99] = true.
Proof. vm_compute. reflexivity. Qed.

Example like_ex2_spec :
  wmatch (elems_of_raw [Some [97]; None; Some [98]; None; Some [99]])
         [97; 120; 120; 98; 121; 121] = false.
Proof. vm_compute. reflexivity. Qed.

Print Assumptions like_spec.
Print Assumptions wmatch_star_all.
