(* Proofs/LexRender.v - the tokenizer reads back the printer's tokens, at BYTE level:
     spec_tokenize f (render items) = Some (Some ts)  with  map strip ts = toks items ++ [(TEOF, [])].

   1. cursor states described by the consumed prefix / unread rest of the source ([at_]); one character step ([cstep]);
   2. lexemes ([lexeme]: identifiers, reserved words, integers, string literals as sequences of [sunit]s, operators),
      the separation condition [sepb], the type the tokenizer reports ([retype]);
   3. one lemma per token class about [next_token] over the cursor (ntok_ident / _int / _op / _string / _eof);
   4. the generic, printer-independent theorems [lex_render_generic] / [lex_render_strict] for every item list satisfying
      [lexk] (every token is a lexeme, every blank is white space, no token merges with the byte that follows it);
   5. string literals: [quote_string], [quote_pattern] and quoted plain texts are string lexemes - full UTF-8, for ALL
      tables is_printable / is_gext (no table hypothesis is needed: scan_string accepts every raw rune that
      escape_rune can emit);
   6. the printer's item lists satisfy [lexk]: values, expressions (every constructor), policies, documents:
        lex_render_expr, lex_render_policy (+ _gen), lex_render_document (+ _gen, _ws).
      FINDING: the unconditional policy statement is false - annots_ok allows reserved words as annotation keys, which the
      printer lists as identifier tokens but the tokenizer reports as reserved-word tokens
      ([lex_render_policy_counterexample]).  Proved: the exact statement when no annotation key is reserved, and the general
      statement up to [retype];
   7. positions do not matter to the parser ([p_policies_map] and the [*_map] lemmas: parsing position-erased tokens gives the
      position-erased result), hence the end-to-end theorems [text_roundtrip_document] and (no side condition, reserved
      annotation keys included) [text_roundtrip_document_gen]: print to bytes, tokenize, parse = the policies, normalised;
   8. a sound boolean checker [lexkb] for [lexk] ([lex_render_checked]). *)
From Coq Require Import ZArith List Bool String Lia Arith.
Import ListNotations.
From Cedar Require Import Base.Int64 Base.Utf8 Base.Utf8Enc Lang.Value Impl.Like Lang.Expr Impl.Eval Impl.Text Impl.Decimal Impl.Duration
  Impl.Datetime Impl.Scanner Impl.Tokenizer Lang.Cursor Impl.Quote Impl.Parser Impl.Printer Lang.RoundTrip.
From Cedar Require Import Proofs.QuoteProofs Proofs.CursorProofs Proofs.ParserFuel.
From Cedar Require Proofs.ParserRoundTrip Proofs.DecimalProofs.
Local Open Scope Z_scope.
Local Open Scope list_scope.
Local Notation length := List.length.

Definition strip (t : token) : toktype * str := (t_type t, t_text t).

(* ------------------------------------------------------------------------------------------------------------- *)
(* 1. Cursor states                                                                                               *)
(* ------------------------------------------------------------------------------------------------------------- *)

(* the lookahead character (and its width) when [rest] is what remains of the source, lookahead included *)
Definition look (rest : str) : Z * nat := match rest with [] => (rune_eof, 0%nat) | b :: r => dec1 b r end.

(* reading the first character of [rest] does not raise the error flag *)
Definition ghead (rest : str) : Prop :=
  match rest with
  | [] => True
  | b :: r => fst (dec1 b r) <> 0 /\ (128 <=? b) && (fst (dec1 b r) =? rune_error) && Nat.eqb (snd (dec1 b r)) 1 = false
  end.

(* [at_ pre rest s ch]: the cursor [s] over [pre ++ rest] has consumed [pre] and the lookahead character [ch], which is
   the first character of [rest] (or EOF); no error so far *)
Definition at_ (pre rest : str) (s : cursor) (ch : Z) : Prop :=
  c_src s = pre ++ rest /\ c_err s = false /\ ch = fst (look rest) /\
  c_idx s = (length pre + snd (look rest))%nat /\ c_lastCharLen s = snd (look rest).

(* first byte of [l], or [c] when [l] is empty *)
Definition nextb (l : str) (c : Z) : Z := match l with [] => c | b :: _ => b end.

(* the rest starts with a non-NUL ASCII byte or is empty *)
Definition ahead (rest : str) : Prop := match rest with [] => True | b :: _ => 0 < b < 128 end.

Lemma look_ascii : forall b r, b < 128 -> look (b :: r) = (b, 1%nat).
Proof. intros b r H. cbn [look]. unfold dec1. destruct (Z.ltb_spec b 128); [reflexivity | lia]. Qed.

Lemma ghead_ascii : forall b r, 0 < b < 128 -> ghead (b :: r).
Proof.
  intros b r H. cbn [ghead]. unfold dec1. destruct (Z.ltb_spec b 128); [|lia]. cbn [fst snd].
  split; [lia|]. destruct (Z.leb_spec 128 b); [lia | reflexivity].
Qed.

Lemma ahead_ghead : forall rest, ahead rest -> ghead rest.
Proof. intros [|b r] H; [exact I | apply ghead_ascii; exact H]. Qed.

Lemma ahead_look : forall rest, ahead rest -> fst (look rest) = nextb rest rune_eof.
Proof. intros [|b r] H; [reflexivity|]. cbn [ahead] in H. rewrite look_ascii by lia. reflexivity. Qed.

Lemma look_rune : forall r tail, valid_rune r = true -> 128 <= r ->
  look (encode_rune r ++ tail) = (r, length (encode_rune r)) /\ ghead (encode_rune r ++ tail).
Proof.
  intros r tail Hv Hr.
  destruct (encode_rune_bytes r Hv) as [[H _] | [_ Hb]]; [lia|].
  destruct (encode_rune_length r Hv) as [Hl1 Hl2].
  pose proof (decode_encode_rune r tail Hv) as Hd.
  destruct (encode_rune r) as [|b0 bs] eqn:E; [cbn [length] in Hl1; lia|].
  assert (Hb0 : 128 <= b0) by (inversion Hb; assumption).
  assert (Hdec : dec1 b0 (bs ++ tail) = (r, length (b0 :: bs))).
  { unfold dec1. destruct (Z.ltb_spec b0 128); [lia|]. exact Hd. }
  cbn [app look ghead]. rewrite Hdec. cbn [fst snd]. split; [reflexivity|]. split; [lia|].
  destruct (Nat.eqb_spec (length (b0 :: bs)) 1) as [E1|E1]; [|rewrite andb_false_r; reflexivity].
  specialize (Hl2 ltac:(lia)). lia.
Qed.

Lemma skipn_pre : forall (pre u rest : str), skipn (length pre + length u) (pre ++ u ++ rest) = rest.
Proof. intros pre u rest. rewrite app_assoc, <- app_length. apply skipn_app_length. Qed.

(* one character *)
Lemma cstep : forall pre u rest s ch, at_ pre (u ++ rest) s ch -> snd (look (u ++ rest)) = length u -> ghead rest ->
  exists s', c_next s = (s', fst (look rest)) /\ at_ (pre ++ u) rest s' (fst (look rest)) /\ c_tok s' = c_tok s.
Proof.
  intros pre u rest s ch (Hsrc & Herr & Hch & Hidx & Hlen) Hw Hg.
  unfold c_next. rewrite Hsrc, Hidx, Hw, skipn_pre.
  destruct rest as [|b r].
  - eexists. split; [reflexivity|]. split; [|reflexivity].
    unfold at_. cbn [c_src c_err c_idx c_lastCharLen look fst snd].
    split; [rewrite app_assoc; reflexivity|]. split; [exact Herr|]. split; [reflexivity|].
    split; [rewrite app_length; lia | reflexivity].
  - cbn [ghead] in Hg. cbn [look].
    change (if b <? 128 then (b, 1%nat) else decode_rune (b :: r)) with (dec1 b r).
    destruct (dec1 b r) as [ch' w] eqn:Hd. cbn [fst snd] in Hg |- *. destruct Hg as [Hnz Hinv].
    rewrite Hinv. replace (ch' =? 0) with false by (symmetry; apply Z.eqb_neq; exact Hnz). cbn [orb].
    eexists. split; [reflexivity|]. split; [|reflexivity].
    unfold at_. cbn [c_src c_err c_idx c_lastCharLen look]. rewrite Hd. cbn [fst snd].
    split; [rewrite app_assoc; reflexivity|]. split; [exact Herr|]. split; [reflexivity|].
    split; [rewrite app_length; lia | reflexivity].
Qed.

(* one ASCII character *)
Lemma cstep1 : forall pre b rest s ch, at_ pre (b :: rest) s ch -> b < 128 -> ghead rest ->
  exists s', c_next s = (s', fst (look rest)) /\ at_ (pre ++ [b]) rest s' (fst (look rest)) /\ c_tok s' = c_tok s.
Proof.
  intros pre b rest s ch H Hb Hg. apply (cstep pre [b] rest s ch); [exact H | | exact Hg].
  cbn [app]. rewrite look_ascii by exact Hb. reflexivity.
Qed.

Lemma at_ch : forall pre rest s ch, at_ pre rest s ch -> ch = fst (look rest).
Proof. intros pre rest s ch (_ & _ & H & _). exact H. Qed.

Lemma at_ch_ascii : forall pre b rest s ch, at_ pre (b :: rest) s ch -> b < 128 -> ch = b.
Proof. intros pre b rest s ch H Hb. rewrite (at_ch _ _ _ _ H), look_ascii by exact Hb. reflexivity. Qed.

Lemma at_token_start : forall pre rest s ch, at_ pre rest s ch ->
  at_ pre rest (c_token_start s) ch /\ c_tok (c_token_start s) = Some (length pre).
Proof.
  intros pre rest s ch (Hsrc & Herr & Hch & Hidx & Hlen). split.
  - unfold at_. cbn [c_token_start c_src c_err c_idx c_lastCharLen]. repeat split; assumption.
  - cbn [c_token_start c_tok]. rewrite Hidx, Hlen. f_equal. lia.
Qed.

Lemma at_token_text : forall pre text rest s ch, at_ (pre ++ text) rest s ch -> c_tok s = Some (length pre) ->
  c_token_text s = text.
Proof.
  intros pre text rest s ch (Hsrc & Herr & Hch & Hidx & Hlen) Htok.
  unfold c_token_text. rewrite Htok, Hsrc, Hidx, Hlen, app_length.
  replace (length pre + length text + snd (look rest) - snd (look rest) - length pre)%nat with (length text) by lia.
  rewrite <- app_assoc, skipn_app_length. rewrite firstn_app, Nat.sub_diag, firstn_all. cbn [firstn]. apply app_nil_r.
Qed.

Lemma at_err : forall pre rest s ch, at_ pre rest s ch -> c_err s = false.
Proof. intros pre rest s ch (_ & H & _). exact H. Qed.

(* a run of ASCII characters satisfying [p], stopped by a character that does not *)
Lemma sw_run : forall (p : Z -> bool) run rest,
  Forall (fun b => 0 < b < 128 /\ p b = true) run -> p (fst (look rest)) = false -> ghead rest ->
  forall fuel pre s ch, at_ pre (run ++ rest) s ch -> (length run < fuel)%nat ->
  exists s', scan_while cursor nxt fuel p s ch = Some (s', fst (look rest)) /\
             at_ (pre ++ run) rest s' (fst (look rest)) /\ c_tok s' = c_tok s.
Proof.
  intros p run rest Hrun Hstop Hg. induction Hrun as [|b run [Hb Hp] Hrun IH]; intros fuel pre s ch Hat Hf.
  - destruct fuel as [|f]; [cbn [length] in Hf; lia|]. cbn [app] in Hat. pose proof (at_ch _ _ _ _ Hat) as ->.
    cbn [scan_while]. rewrite Hstop. exists s. rewrite app_nil_r. split; [reflexivity|]. split; [exact Hat | reflexivity].
  - destruct fuel as [|f]; [cbn [length] in Hf; lia|]. cbn [app] in Hat.
    pose proof (at_ch_ascii _ _ _ _ _ Hat ltac:(lia)) as ->.
    cbn [scan_while]. rewrite Hp. unfold nxt at 1.
    assert (Hg' : ghead (run ++ rest)).
    { destruct Hrun as [|b' run' [Hb' _] _]; [exact Hg | apply ghead_ascii; exact Hb']. }
    destruct (cstep1 _ _ _ _ _ Hat ltac:(lia) Hg') as (s1 & E1 & A1 & T1). rewrite E1.
    destruct (IH f _ _ _ A1 ltac:(cbn [length] in Hf; lia)) as (s' & E' & A' & T').
    exists s'. split; [exact E'|]. split; [rewrite <- app_assoc in A'; exact A' | congruence].
Qed.

(* ------------------------------------------------------------------------------------------------------------- *)
(* 2. Lexemes                                                                                                     *)
(* ------------------------------------------------------------------------------------------------------------- *)

(* the body of a string literal, as a sequence of units [scan_string] steps over *)
Definition esc_chars : list Z := [110; 114; 116; 92; 48; 39; 34; 42].

Inductive sunit : str -> Prop :=
| su_ascii : forall b, 0 < b < 128 -> b <> 34 -> b <> 10 -> b <> 92 -> sunit [b]
| su_rune : forall r, valid_rune r = true -> 128 <= r -> sunit (encode_rune r)
| su_esc : forall c, In c esc_chars -> sunit [92; c]
| su_u : forall hs, (1 <= length hs <= 6)%nat -> Forall (fun h => is_hex h = true) hs -> sunit ([92; 117; 123] ++ hs ++ [125])
| su_x : forall h1 h2, is_hex h1 = true -> is_hex h2 = true -> sunit [92; 120; h1; h2].

Inductive sbody : str -> Prop :=
| sb_nil : sbody []
| sb_cons : forall u r, sunit u -> sbody r -> sbody (u ++ r).

Definition ident_shape (t : str) : Prop :=
  match t with [] => False | c :: r => is_ident_rune c true = true /\ forallb (fun x => is_ident_rune x false) r = true end.

Definition op_texts : list str :=
  map s_of ["@"; "."; ","; ";"; "("; ")"; "{"; "}"; "["; "]"; "+"; "-"; "*"; ":"; "::"; "!"; "<"; ">"; "!="; "<="; ">="; "=="; "&&"; "||"]%string.

(* [text] is exactly one token of type [ty].  [strict]: an identifier token is not a reserved word (the tokenizer
   re-types those) *)
Definition lexeme (strict : bool) (ty : toktype) (text : str) : Prop :=
  match ty with
  | TIdent => ident_shape text /\ (strict = true -> is_reserved text = false)
  | TReserved => ident_shape text /\ is_reserved text = true
  | TInt => text <> [] /\ forallb is_num text = true
  | TString => exists body, text = 34 :: body ++ [34] /\ sbody body
  | TOperator => In text op_texts
  | TEOF | TUnknown => False
  end.

(* the character [c] after the token (EOF = -1) does not extend it *)
Definition sepb (ty : toktype) (text : str) (c : Z) : bool :=
  match ty with
  | TIdent | TReserved => negb (is_ident_rune c false)
  | TInt => negb (is_num c)
  | TString => true
  | TOperator => if str_eqb text [58] then negb (c =? 58)
                 else if str_eqb text [33] || str_eqb text [60] || str_eqb text [62] then negb (c =? 61) else true
  | TEOF | TUnknown => false
  end.

(* the type the tokenizer reports *)
Definition retype (tt : toktype * str) : toktype * str :=
  match fst tt with TIdent => if is_reserved (snd tt) then (TReserved, snd tt) else tt | _ => tt end.

Lemma ident_rune_range : forall c b, is_ident_rune c b = true ->
  c = 95 \/ 65 <= c <= 90 \/ 97 <= c <= 122 \/ (48 <= c <= 57 /\ b = false).
Proof.
  intros c b H. unfold is_ident_rune, is_letter, is_num in H.
  rewrite !orb_true_iff, !andb_true_iff, !Z.leb_le, Z.eqb_eq, negb_true_iff in H.
  destruct H as [[H|[H|H]]|[H Hb]]; [left; exact H | right; left; lia | right; right; left; lia | right; right; right; split; [lia | exact Hb]].
Qed.

Lemma is_num_range : forall c, is_num c = true -> 48 <= c <= 57.
Proof. intros c H. unfold is_num in H. rewrite andb_true_iff, !Z.leb_le in H. exact H. Qed.

Lemma not_ws : forall c, c <> 9 -> c <> 10 -> c <> 13 -> c <> 32 -> is_ws c = false.
Proof.
  intros c H1 H2 H3 H4. unfold is_ws.
  rewrite (proj2 (Z.eqb_neq c 9) H1), (proj2 (Z.eqb_neq c 10) H2), (proj2 (Z.eqb_neq c 13) H3), (proj2 (Z.eqb_neq c 32) H4).
  reflexivity.
Qed.

Lemma not_num : forall c, c < 48 \/ 57 < c -> is_num c = false.
Proof.
  intros c H. unfold is_num. destruct (Z.leb_spec 48 c); [|reflexivity]. destruct (Z.leb_spec c 57); [lia | reflexivity].
Qed.

Lemma not_ident : forall c b, c < 48 \/ 57 < c < 65 \/ 90 < c < 95 \/ c = 96 \/ 122 < c -> is_ident_rune c b = false.
Proof.
  intros c b H. unfold is_ident_rune, is_letter. rewrite not_num by lia.
  destruct (Z.eqb_spec c 95); [lia|].
  destruct (Z.leb_spec 65 c); destruct (Z.leb_spec c 90); destruct (Z.leb_spec 97 c); destruct (Z.leb_spec c 122);
    try lia; reflexivity.
Qed.

Lemma ident_rune_facts : forall c b, is_ident_rune c b = true ->
  0 < c < 128 /\ is_ws c = false /\ (c =? rune_eof) = false /\ (c =? 34) = false /\ (c =? 47) = false /\ (b = true -> is_num c = false).
Proof.
  intros c b H. apply ident_rune_range in H. unfold rune_eof.
  split; [lia|]. split; [apply not_ws; lia|]. split; [apply Z.eqb_neq; lia|]. split; [apply Z.eqb_neq; lia|].
  split; [apply Z.eqb_neq; lia|]. intros ->. apply not_num. lia.
Qed.

Lemma num_facts : forall c, is_num c = true ->
  0 < c < 128 /\ is_ws c = false /\ (c =? rune_eof) = false /\ is_ident_rune c true = false.
Proof.
  intros c H. pose proof (is_num_range c H) as R. unfold rune_eof.
  split; [lia|]. split; [apply not_ws; lia|]. split; [apply Z.eqb_neq; lia|].
  unfold is_ident_rune, is_letter. rewrite H. cbn [negb andb]. rewrite orb_false_r.
  destruct (Z.eqb_spec c 95); [lia|].
  destruct (Z.leb_spec 65 c); destruct (Z.leb_spec c 90); destruct (Z.leb_spec 97 c); destruct (Z.leb_spec c 122);
    try lia; reflexivity.
Qed.

(* ------------------------------------------------------------------------------------------------------------- *)
(* 3. next_token, one lemma per token class                                                                       *)
(* ------------------------------------------------------------------------------------------------------------- *)

Lemma sw_stop : forall (p : Z -> bool) f s ch, p ch = false -> scan_while cursor nxt (S f) p s ch = Some (s, ch).
Proof. intros p f s ch H. cbn [scan_while]. rewrite H. reflexivity. Qed.

Lemma ntok_skip : forall f s ch s0 ch0, scan_while cursor nxt (S f) is_ws s ch = Some (s0, ch0) -> is_ws ch0 = false ->
  ntok (S f) s ch = ntok (S f) s0 ch0.
Proof.
  intros f s ch s0 ch0 H H0. unfold ntok. cbn [next_token]. rewrite H.
  assert (H1 : scan_while cursor nxt (S f) is_ws s0 ch0 = Some (s0, ch0)) by (cbn [scan_while]; rewrite H0; reflexivity).
  rewrite H1. reflexivity.
Qed.

Lemma forallb_Forall_ident : forall r, forallb (fun x => is_ident_rune x false) r = true ->
  Forall (fun b => 0 < b < 128 /\ is_ident_rune b false = true) r.
Proof.
  intros r H. apply Forall_forall. intros x Hx. rewrite forallb_forall in H. specialize (H x Hx).
  split; [apply (ident_rune_facts x false H) | exact H].
Qed.

Lemma forallb_Forall_num : forall r, forallb is_num r = true -> Forall (fun b => 0 < b < 128 /\ is_num b = true) r.
Proof.
  intros r H. apply Forall_forall. intros x Hx. rewrite forallb_forall in H. specialize (H x Hx).
  split; [apply (num_facts x H) | exact H].
Qed.

Lemma ghead_run : forall (P : Z -> Prop) run rest, Forall (fun b => 0 < b < 128 /\ P b) run -> ghead rest -> ghead (run ++ rest).
Proof. intros P run rest H Hg. destruct H as [|b run' [Hb _] _]; [exact Hg | apply ghead_ascii; exact Hb]. Qed.

Lemma ntok_ident : forall c r rest pre s ch f,
  is_ident_rune c true = true -> forallb (fun x => is_ident_rune x false) r = true ->
  is_ident_rune (fst (look rest)) false = false -> ghead rest ->
  at_ pre ((c :: r) ++ rest) s ch -> (length r <= f)%nat ->
  exists t s', ntok (S f) s ch = Some (t, s', fst (look rest)) /\ strip t = retype (TIdent, c :: r) /\
               at_ (pre ++ c :: r) rest s' (fst (look rest)).
Proof.
  intros c r rest pre s ch f Hc Hr Hstop Hg Hat Hf.
  destruct (ident_rune_facts _ _ Hc) as (Hc128 & Hws & Heof & H34 & H47 & Hnum).
  cbn [app] in Hat. pose proof (at_ch_ascii _ _ _ _ _ Hat ltac:(lia)) as ->.
  destruct (at_token_start _ _ _ _ Hat) as (A1 & T1).
  pose proof (forallb_Forall_ident r Hr) as HR.
  unfold ntok. cbn [next_token]. rewrite (sw_stop is_ws) by exact Hws.
  destruct (c_token_position (c_token_start s)) as [[off line] col].
  rewrite Heof, Hc. unfold nxt at 1.
  destruct (cstep1 _ _ _ _ _ A1 ltac:(lia) (ghead_run _ _ _ HR Hg)) as (s2 & E2 & A2 & T2). rewrite E2.
  destruct (sw_run (fun x => is_ident_rune x false) r rest HR Hstop Hg (S f) _ _ _ A2 ltac:(lia)) as (s3 & E3 & A3 & T3).
  rewrite E3. rewrite <- app_assoc in A3. cbn [app] in A3.
  eexists _, _. split; [reflexivity|]. split; [|exact A3].
  unfold strip, retype. cbn [t_type t_text fst snd].
  rewrite (at_token_text pre (c :: r) rest s3 _ A3) by congruence.
  destruct (is_reserved (c :: r)); reflexivity.
Qed.

Lemma ntok_int : forall d r rest pre s ch f,
  forallb is_num (d :: r) = true -> is_num (fst (look rest)) = false -> ghead rest ->
  at_ pre ((d :: r) ++ rest) s ch -> (length r < f)%nat ->
  exists t s', ntok (S f) s ch = Some (t, s', fst (look rest)) /\ strip t = (TInt, d :: r) /\
               at_ (pre ++ d :: r) rest s' (fst (look rest)).
Proof.
  intros d r rest pre s ch f Hdr Hstop Hg Hat Hf.
  pose proof (forallb_Forall_num _ Hdr) as HR.
  cbn [forallb] in Hdr. apply andb_true_iff in Hdr. destruct Hdr as [Hd Hr].
  destruct (num_facts _ Hd) as (Hd128 & Hws & Heof & Hid).
  pose proof (at_ch_ascii _ _ _ _ _ Hat ltac:(lia)) as ->.
  destruct (at_token_start _ _ _ _ Hat) as (A1 & T1).
  unfold ntok. cbn [next_token]. rewrite (sw_stop is_ws) by exact Hws.
  destruct (c_token_position (c_token_start s)) as [[off line] col].
  rewrite Heof, Hid, Hd.
  destruct (sw_run is_num (d :: r) rest HR Hstop Hg (S f) _ _ _ A1 ltac:(cbn [length]; lia)) as (s3 & E3 & A3 & T3).
  rewrite E3.
  eexists _, _. split; [reflexivity|]. split; [|exact A3].
  unfold strip. cbn [t_type t_text].
  rewrite (at_token_text pre (d :: r) rest s3 _ A3) by congruence. reflexivity.
Qed.

Lemma ntok_eof : forall pre s ch f, at_ pre [] s ch ->
  exists t s', ntok (S f) s ch = Some (t, s', rune_eof) /\ strip t = (TEOF, []) /\ at_ pre [] s' rune_eof.
Proof.
  intros pre s ch f Hat. pose proof (at_ch _ _ _ _ Hat) as ->. cbn [look fst].
  destruct (at_token_start _ _ _ _ Hat) as (A1 & T1).
  unfold ntok. cbn [next_token]. rewrite (sw_stop is_ws) by reflexivity.
  destruct (c_token_position (c_token_start s)) as [[off line] col].
  change (rune_eof =? rune_eof) with true. cbv iota.
  eexists _, _. split; [reflexivity|]. split; [|exact A1].
  unfold strip. cbn [t_type t_text]. rewrite <- (app_nil_r pre) in A1.
  rewrite (at_token_text pre [] [] _ _ A1) by exact T1. reflexivity.
Qed.

(* ---- operators ---- *)
Definition op_ok1 (t : str) : bool :=
  match t with
  | [] => false
  | c0 :: tail => (0 <? c0) && (c0 <? 128) && negb (is_ws c0) && negb (c0 =? rune_eof) && negb (is_ident_rune c0 true)
                  && negb (is_num c0) && negb (c0 =? 34) && negb (c0 =? 47) && forallb (fun b => (0 <? b) && (b <? 128)) tail
  end.

Lemma op_texts_ok1 : forallb op_ok1 op_texts = true.
Proof. vm_compute. reflexivity. Qed.

Lemma op_first_facts : forall c0 tail, In (c0 :: tail) op_texts ->
  0 < c0 < 128 /\ is_ws c0 = false /\ (c0 =? rune_eof) = false /\ is_ident_rune c0 true = false /\ is_num c0 = false /\
  (c0 =? 34) = false /\ (c0 =? 47) = false.
Proof.
  intros c0 tail Hin. pose proof op_texts_ok1 as H. rewrite forallb_forall in H. specialize (H _ Hin).
  cbn [op_ok1] in H. rewrite !andb_true_iff, !negb_true_iff, !Z.ltb_lt in H.
  destruct H as ((((((((H1 & H2) & H3) & H4) & H5) & H6) & H7) & H8) & _). repeat split; assumption.
Qed.

Lemma sop_lex : forall text, In text op_texts -> forall c0 tail, text = c0 :: tail ->
  forall rest pre s2 ch2, sepb TOperator text (fst (look rest)) = true -> ghead rest ->
  at_ (pre ++ [c0]) (tail ++ rest) s2 ch2 ->
  exists s3, scan_operator cursor nxt s2 c0 ch2 = Some (TOperator, s3, fst (look rest)) /\
             at_ (pre ++ text) rest s3 (fst (look rest)) /\ c_tok s3 = c_tok s2.
Proof.
  intros text Hin. unfold op_texts in Hin. cbn [map In] in Hin.
  repeat (destruct Hin as [<- | Hin]); try (destruct Hin);
    intros c0 tail E; vm_compute in E; injection E as <- <-; intros rest pre s2 ch2 Hsep Hg Hat; cbn [app] in Hat;
    first
      [ (* two characters *)
        pose proof (at_ch_ascii _ _ _ _ _ Hat ltac:(lia)) as ->;
        destruct (cstep1 _ _ _ _ _ Hat ltac:(lia) Hg) as (s3 & E3 & A3 & T3); exists s3;
        split; [unfold scan_operator, nxt; rewrite E3; reflexivity | split; [rewrite <- app_assoc in A3; exact A3 | exact T3]]
      | (* one character *)
        pose proof (at_ch _ _ _ _ Hat) as ->; exists s2;
        split; [| split; [exact Hat | reflexivity]];
        first [ reflexivity
              | change (negb (fst (look rest) =? 58) = true) in Hsep; apply negb_true_iff in Hsep;
                unfold scan_operator; rewrite Hsep; reflexivity
              | change (negb (fst (look rest) =? 61) = true) in Hsep; apply negb_true_iff in Hsep;
                unfold scan_operator; rewrite Hsep; reflexivity ] ].
Qed.

Lemma ntok_op : forall text rest pre s ch f, In text op_texts ->
  sepb TOperator text (fst (look rest)) = true -> ghead rest -> at_ pre (text ++ rest) s ch ->
  exists t s', ntok (S f) s ch = Some (t, s', fst (look rest)) /\ strip t = (TOperator, text) /\
               at_ (pre ++ text) rest s' (fst (look rest)).
Proof.
  intros text rest pre s ch f Hin Hsep Hg Hat.
  destruct text as [|c0 tail]; [pose proof op_texts_ok1 as H; rewrite forallb_forall in H; specialize (H _ Hin); discriminate H|].
  destruct (op_first_facts _ _ Hin) as (Hc & Hws & Heof & Hid & Hnum & H34 & H47).
  assert (Htail : Forall (fun b => 0 < b < 128 /\ True) tail).
  { pose proof op_texts_ok1 as H. rewrite forallb_forall in H. specialize (H _ Hin). cbn [op_ok1] in H.
    apply andb_true_iff in H. destruct H as [_ H]. apply Forall_forall. intros x Hx. rewrite forallb_forall in H.
    specialize (H x Hx). rewrite andb_true_iff, !Z.ltb_lt in H. split; [exact H | exact I]. }
  cbn [app] in Hat. pose proof (at_ch_ascii _ _ _ _ _ Hat ltac:(lia)) as ->.
  destruct (at_token_start _ _ _ _ Hat) as (A1 & T1).
  unfold ntok. cbn [next_token]. rewrite (sw_stop is_ws) by exact Hws.
  destruct (c_token_position (c_token_start s)) as [[off line] col].
  rewrite Heof, Hid, Hnum, H34, H47. unfold nxt at 1.
  destruct (cstep1 _ _ _ _ _ A1 ltac:(lia) (ghead_run _ _ _ Htail Hg)) as (s2 & E2 & A2 & T2). rewrite E2.
  destruct (sop_lex _ Hin c0 tail eq_refl rest pre s2 _ Hsep Hg A2) as (s3 & E3 & A3 & T3). rewrite E3.
  eexists _, _. split; [reflexivity|]. split; [|exact A3].
  unfold strip. cbn [t_type t_text].
  rewrite (at_token_text pre (c0 :: tail) rest s3 _ A3) by congruence. reflexivity.
Qed.

(* ---- string literals ---- *)
Lemma is_hex_range : forall h, is_hex h = true -> 48 <= h <= 102.
Proof.
  intros h H. unfold is_hex, is_num in H. rewrite !orb_true_iff, !andb_true_iff, !Z.leb_le in H. lia.
Qed.

Lemma shex_run : forall hs rest maxd, Forall (fun h => is_hex h = true) hs -> ghead rest ->
  forall n count pre s ch, at_ pre (hs ++ rest) s ch -> (length hs <= n)%nat -> (count + length hs <= maxd)%nat ->
  (is_hex (fst (look rest)) = false \/ (count + length hs = maxd)%nat) ->
  exists s', scan_hex cursor nxt n maxd s ch count = Some (s', fst (look rest), (count + length hs)%nat) /\
             at_ (pre ++ hs) rest s' (fst (look rest)) /\ c_tok s' = c_tok s.
Proof.
  intros hs rest maxd Hhs Hg. induction Hhs as [|h hs Hh Hhs IH]; intros n count pre s ch Hat Hn Hm Hstop.
  - cbn [app length] in *. pose proof (at_ch _ _ _ _ Hat) as ->. rewrite Nat.add_0_r, app_nil_r.
    exists s. split; [|split; [exact Hat | reflexivity]].
    destruct n as [|n]; [reflexivity|]. cbn [scan_hex].
    replace (Nat.ltb count maxd && is_hex (fst (look rest))) with false; [reflexivity|].
    symmetry. destruct Hstop as [H|H]; [rewrite H; apply andb_false_r|].
    rewrite Nat.add_0_r in H. subst maxd. rewrite Nat.ltb_irrefl. reflexivity.
  - cbn [app length] in *. pose proof (is_hex_range h Hh) as Rh.
    pose proof (at_ch_ascii _ _ _ _ _ Hat ltac:(lia)) as ->.
    destruct n as [|n]; [lia|]. cbn [scan_hex]. rewrite Hh.
    replace (Nat.ltb count maxd) with true by (symmetry; apply Nat.ltb_lt; lia). cbn [andb]. unfold nxt at 1.
    assert (Hg' : ghead (hs ++ rest)).
    { destruct Hhs as [|h' hs' Hh' _]; [exact Hg|]. apply ghead_ascii. pose proof (is_hex_range h' Hh'). lia. }
    destruct (cstep1 _ _ _ _ _ Hat ltac:(lia) Hg') as (s1 & E1 & A1 & T1). rewrite E1.
    destruct (IH n (S count) _ _ _ A1 ltac:(lia) ltac:(lia) ltac:(destruct Hstop; [left; assumption | right; lia]))
      as (s' & E' & A' & T').
    exists s'. rewrite <- app_assoc in A'. cbn [app] in A'.
    replace (count + S (length hs))%nat with (S count + length hs)%nat by lia.
    split; [exact E'|]. split; [exact A' | congruence].
Qed.

Lemma sunit_ghead : forall u tail, sunit u -> ghead (u ++ tail).
Proof.
  intros u tail H. destruct H as [b Hb _ _ _ | r Hv Hr | c Hc | hs Hl Hh | h1 h2 H1 H2]; cbn [app];
    try (apply ghead_ascii; lia).
  apply (look_rune r tail Hv Hr).
Qed.

Lemma sbody_ghead : forall body rest, sbody body -> ghead (body ++ 34 :: rest).
Proof.
  intros body rest H. destruct H as [|u r Hu Hr]; [apply ghead_ascii; lia|].
  rewrite <- app_assoc. apply sunit_ghead. exact Hu.
Qed.

Lemma esc_char_facts : forall c, In c esc_chars -> 0 < c < 128 /\ existsb (Z.eqb c) esc_chars = true.
Proof.
  intros c H. split.
  - unfold esc_chars in H. cbn [In] in H. lia.
  - apply existsb_exists. exists c. split; [exact H | apply Z.eqb_refl].
Qed.

Definition sstr := scan_string cursor nxt c_set_err.

(* one unit of a string body *)
Lemma sstr_unit : forall u, sunit u -> forall tail pre s ch f, ghead tail -> at_ pre (u ++ tail) s ch ->
  exists s', sstr (S f) s ch = sstr f s' (fst (look tail)) /\ at_ (pre ++ u) tail s' (fst (look tail)) /\ c_tok s' = c_tok s.
Proof.
  intros u Hu tail pre s ch f Hg Hat. unfold sstr.
  destruct Hu as [b Hb H34 H10 H92 | r Hv Hr | c Hc | hs Hl Hh | h1 h2 H1 H2].
  - (* an ASCII character *)
    cbn [app] in Hat. pose proof (at_ch_ascii _ _ _ _ _ Hat ltac:(lia)) as ->.
    destruct (cstep1 _ _ _ _ _ Hat ltac:(lia) Hg) as (s1 & E1 & A1 & T1).
    exists s1. split; [|split; assumption].
    cbn [scan_string].
    rewrite (proj2 (Z.eqb_neq b 34) H34), (proj2 (Z.eqb_neq b 10) H10), (proj2 (Z.eqb_neq b 92) H92).
    replace (b <? 0) with false by (symmetry; apply Z.ltb_ge; lia). cbn [orb]. unfold nxt at 1. rewrite E1. reflexivity.
  - (* a multi-byte character *)
    destruct (look_rune r tail Hv Hr) as [Hl _].
    pose proof (at_ch _ _ _ _ Hat) as ->. rewrite Hl. cbn [fst].
    destruct (cstep _ _ _ _ _ Hat ltac:(rewrite Hl; reflexivity) Hg) as (s1 & E1 & A1 & T1).
    exists s1. split; [|split; assumption].
    cbn [scan_string].
    rewrite (proj2 (Z.eqb_neq r 34)), (proj2 (Z.eqb_neq r 10)), (proj2 (Z.eqb_neq r 92)) by lia.
    replace (r <? 0) with false by (symmetry; apply Z.ltb_ge; lia). cbn [orb]. unfold nxt at 1. rewrite E1. reflexivity.
  - (* a one-character escape *)
    destruct (esc_char_facts c Hc) as [Rc Ec].
    cbn [app] in Hat. pose proof (at_ch_ascii _ _ _ _ _ Hat ltac:(lia)) as ->.
    destruct (cstep1 _ _ _ _ _ Hat ltac:(lia) (ghead_ascii c tail Rc)) as (s1 & E1 & A1 & T1).
    rewrite (look_ascii c tail) in E1, A1 by lia. cbn [fst] in E1, A1.
    destruct (cstep1 _ _ _ _ _ A1 ltac:(lia) Hg) as (s2 & E2 & A2 & T2).
    exists s2. rewrite <- app_assoc in A2. cbn [app] in A2. split; [|split; [exact A2 | congruence]].
    cbn [scan_string]. change (92 =? 34) with false. change ((92 =? 10) || (92 <? 0)) with false. change (92 =? 92) with true.
    cbv iota. unfold scan_escape. unfold nxt at 1. rewrite E1. fold esc_chars. rewrite Ec. unfold nxt at 1. rewrite E2. reflexivity.
  - (* \u{h..h} *)
    repeat rewrite <- app_assoc in Hat. cbn [app] in Hat. pose proof (at_ch_ascii _ _ _ _ _ Hat ltac:(lia)) as ->.
    destruct (cstep1 _ _ _ _ _ Hat ltac:(lia) (ghead_ascii 117 _ ltac:(lia))) as (s1 & E1 & A1 & T1).
    rewrite look_ascii in E1, A1 by lia. cbn [fst] in E1, A1.
    destruct (cstep1 _ _ _ _ _ A1 ltac:(lia) (ghead_ascii 123 _ ltac:(lia))) as (s2 & E2 & A2 & T2).
    rewrite look_ascii in E2, A2 by lia. cbn [fst] in E2, A2.
    assert (Hg3 : ghead (hs ++ 125 :: tail)).
    { destruct Hh as [|h' hs' Hh' _]; [apply ghead_ascii; lia|]. apply ghead_ascii. pose proof (is_hex_range h' Hh'). lia. }
    destruct (cstep1 _ _ _ _ _ A2 ltac:(lia) Hg3) as (s3 & E3 & A3 & T3).
    destruct (shex_run hs (125 :: tail) 6 Hh (ghead_ascii 125 tail ltac:(lia)) 7 0 _ _ _ A3 ltac:(lia) ltac:(lia)
                ltac:(left; rewrite look_ascii by lia; reflexivity)) as (s4 & E4 & A4 & T4).
    rewrite look_ascii in E4, A4 by lia. cbn [fst] in E4, A4. cbn [Nat.add] in E4.
    destruct (cstep1 _ _ _ _ _ A4 ltac:(lia) Hg) as (s5 & E5 & A5 & T5).
    exists s5. split; [|split; [|congruence]].
    + cbn [scan_string]. change (92 =? 34) with false. change ((92 =? 10) || (92 <? 0)) with false. change (92 =? 92) with true.
      cbv iota. unfold scan_escape. unfold nxt at 1. rewrite E1.
      change (existsb (Z.eqb 117) [110; 114; 116; 92; 48; 39; 34; 42]) with false. change (117 =? 120) with false.
      change (117 =? 117) with true. cbv iota. unfold nxt at 1. rewrite E2. change (negb (123 =? 123)) with false. cbv iota.
      unfold nxt at 1. rewrite E3. rewrite E4.
      replace (Nat.ltb (length hs) 1) with false by (symmetry; apply Nat.ltb_ge; lia).
      change (negb (125 =? 125)) with false. cbv iota. unfold nxt at 1. rewrite E5. reflexivity.
    + repeat rewrite <- app_assoc in A5. cbn [app] in A5. exact A5.
  - (* \xhh *)
    pose proof (is_hex_range h1 H1) as R1. pose proof (is_hex_range h2 H2) as R2.
    cbn [app] in Hat. pose proof (at_ch_ascii _ _ _ _ _ Hat ltac:(lia)) as ->.
    destruct (cstep1 _ _ _ _ _ Hat ltac:(lia) (ghead_ascii 120 _ ltac:(lia))) as (s1 & E1 & A1 & T1).
    rewrite look_ascii in E1, A1 by lia. cbn [fst] in E1, A1.
    destruct (cstep1 _ _ _ _ _ A1 ltac:(lia) (ghead_ascii h1 _ ltac:(lia))) as (s2 & E2 & A2 & T2).
    rewrite look_ascii in E2, A2 by lia. cbn [fst] in E2, A2.
    destruct (shex_run [h1; h2] tail 2 ltac:(repeat constructor; assumption) Hg 3 0 _ _ _ A2 ltac:(cbn; lia) ltac:(cbn; lia)
                ltac:(right; reflexivity)) as (s3 & E3 & A3 & T3).
    cbn [Nat.add length] in E3.
    exists s3. split; [|split; [|congruence]].
    + cbn [scan_string]. change (92 =? 34) with false. change ((92 =? 10) || (92 <? 0)) with false. change (92 =? 92) with true.
      cbv iota. unfold scan_escape. unfold nxt at 1. rewrite E1.
      change (existsb (Z.eqb 120) [110; 114; 116; 92; 48; 39; 34; 42]) with false. change (120 =? 120) with true.
      cbv iota. unfold nxt at 1. rewrite E2. rewrite E3. reflexivity.
    + repeat rewrite <- app_assoc in A3. cbn [app] in A3. exact A3.
Qed.

Lemma sstr_body : forall body, sbody body -> forall rest fuel pre s ch, at_ pre (body ++ 34 :: rest) s ch ->
  (length body < fuel)%nat ->
  exists s', sstr fuel s ch = Some (s', 34) /\ at_ (pre ++ body) (34 :: rest) s' 34 /\ c_tok s' = c_tok s.
Proof.
  intros body H. induction H as [|u r Hu Hr IH]; intros rest fuel pre s ch Hat Hf.
  - cbn [app] in Hat. pose proof (at_ch_ascii _ _ _ _ _ Hat ltac:(lia)) as ->.
    destruct fuel as [|f]; [cbn [length] in Hf; lia|]. exists s. rewrite app_nil_r.
    split; [reflexivity | split; [exact Hat | reflexivity]].
  - destruct fuel as [|f]; [lia|]. rewrite <- app_assoc in Hat.
    destruct (sstr_unit u Hu _ _ _ _ f (sbody_ghead r rest Hr) Hat) as (s1 & E1 & A1 & T1).
    assert (Hu1 : (1 <= length u)%nat).
    { destruct Hu as [b _ _ _ _ | r0 Hv _ | c _ | hs _ _ | h1 h2 _ _]; cbn [length app]; try lia.
      apply (encode_rune_length r0 Hv). }
    rewrite app_length in Hf.
    destruct (IH rest f _ _ _ A1 ltac:(lia)) as (s' & E' & A' & T').
    exists s'. rewrite E1. split; [exact E'|]. rewrite <- app_assoc in A'. split; [exact A' | congruence].
Qed.

Lemma ntok_string : forall body rest pre s ch f, sbody body -> ghead rest ->
  at_ pre ((34 :: body ++ [34]) ++ rest) s ch -> (length body <= f)%nat ->
  exists t s', ntok (S f) s ch = Some (t, s', fst (look rest)) /\ strip t = (TString, 34 :: body ++ [34]) /\
               at_ (pre ++ 34 :: body ++ [34]) rest s' (fst (look rest)).
Proof.
  intros body rest pre s ch f Hb Hg Hat Hf.
  cbn [app] in Hat. rewrite <- app_assoc in Hat. cbn [app] in Hat.
  pose proof (at_ch_ascii _ _ _ _ _ Hat ltac:(lia)) as ->.
  destruct (at_token_start _ _ _ _ Hat) as (A1 & T1).
  unfold ntok. cbn [next_token]. rewrite (sw_stop is_ws) by reflexivity.
  destruct (c_token_position (c_token_start s)) as [[off line] col].
  change (34 =? rune_eof) with false. change (is_ident_rune 34 true) with false. change (is_num 34) with false.
  change (34 =? 34) with true. cbv iota. unfold nxt at 1.
  destruct (cstep1 _ _ _ _ _ A1 ltac:(lia) (sbody_ghead body rest Hb)) as (s2 & E2 & A2 & T2). rewrite E2.
  destruct (sstr_body body Hb rest (S f) _ _ _ A2 ltac:(lia)) as (s3 & E3 & A3 & T3).
  unfold sstr in E3. rewrite E3. unfold nxt at 1.
  destruct (cstep1 _ _ _ _ _ A3 ltac:(lia) Hg) as (s4 & E4 & A4 & T4). rewrite E4.
  repeat rewrite <- app_assoc in A4. cbn [app] in A4.
  eexists _, _. split; [reflexivity|]. split; [|exact A4].
  unfold strip. cbn [t_type t_text].
  rewrite (at_token_text pre (34 :: body ++ [34]) rest s4 _ A4) by congruence. reflexivity.
Qed.

(* ------------------------------------------------------------------------------------------------------------- *)
(* 4. The generic theorem                                                                                         *)
(* ------------------------------------------------------------------------------------------------------------- *)

Definition all_ws (t : str) : Prop := Forall (fun b => is_ws b = true) t.

(* [lexk strict l c]: every token item of [l] is a lexeme, every blank is white space, and no token merges with the byte that
   follows it in the rendering ([c] is the byte that follows the whole of [l]; EOF = -1) *)
Fixpoint lexk (strict : bool) (l : list item) (c : Z) : Prop :=
  match l with
  | [] => True
  | Sp t :: r => all_ws t /\ lexk strict r c
  | T ty t :: r => lexeme strict ty t /\ sepb ty t (nextb (render r) c) = true /\ lexk strict r c
  end.

Lemma is_ws_range : forall b, is_ws b = true -> b = 9 \/ b = 10 \/ b = 13 \/ b = 32.
Proof. intros b H. unfold is_ws in H. rewrite !orb_true_iff, !Z.eqb_eq in H. tauto. Qed.

Lemma lexeme_first : forall strict ty text, lexeme strict ty text ->
  exists b r, text = b :: r /\ 0 < b < 128 /\ is_ws b = false.
Proof.
  intros strict ty text H. destruct ty; cbn [lexeme] in H; try contradiction.
  - destruct H as [H _]. destruct text as [|c r]; [contradiction|]. destruct H as [Hc _].
    exists c, r. split; [reflexivity|]. split; apply (ident_rune_facts c true Hc).
  - destruct H as [H1 H2]. destruct text as [|c r]; [congruence|]. cbn [forallb] in H2. apply andb_true_iff in H2.
    destruct H2 as [Hc _]. exists c, r. split; [reflexivity|]. split; apply (num_facts c Hc).
  - destruct H as [H _]. destruct text as [|c r]; [contradiction|]. destruct H as [Hc _].
    exists c, r. split; [reflexivity|]. split; apply (ident_rune_facts c true Hc).
  - destruct H as (body & -> & _). exists 34, (body ++ [34]). split; [reflexivity|]. split; [lia | reflexivity].
  - destruct text as [|c0 tail].
    + pose proof op_texts_ok1 as H0. rewrite forallb_forall in H0. specialize (H0 _ H). discriminate H0.
    + exists c0, tail. split; [reflexivity|]. split; apply (op_first_facts _ _ H).
Qed.

Lemma render_cons_T : forall ty t r, render (T ty t :: r) = t ++ render r.
Proof. reflexivity. Qed.
Lemma render_cons_Sp : forall t r, render (Sp t :: r) = t ++ render r.
Proof. reflexivity. Qed.
Lemma render_app : forall a b, render (a ++ b) = render a ++ render b.
Proof. intros a b. unfold render. apply flat_map_app. Qed.

Lemma lexk_ahead : forall strict l c, lexk strict l c -> ahead (render l).
Proof.
  intros strict l c. induction l as [|[ty t|t] r IH]; intros H; [exact I | |].
  - destruct H as (H & _ & _). destruct (lexeme_first _ _ _ H) as (b & r' & -> & Hb & _). rewrite render_cons_T. exact Hb.
  - destruct H as (H & Hr). rewrite render_cons_Sp. destruct H as [|b t Hb _]; [exact (IH Hr)|].
    cbn [app ahead]. pose proof (is_ws_range b Hb). lia.
Qed.

Lemma ntok_lex : forall strict ty text ws rest pre s ch f, all_ws ws -> lexeme strict ty text ->
  sepb ty text (fst (look rest)) = true -> ghead rest -> at_ pre (ws ++ text ++ rest) s ch ->
  (length ws + length text <= f)%nat ->
  exists t s', ntok (S f) s ch = Some (t, s', fst (look rest)) /\ strip t = retype (ty, text) /\
               at_ (pre ++ ws ++ text) rest s' (fst (look rest)).
Proof.
  intros strict ty text ws rest pre s ch f Hws Hlex Hsep Hg Hat Hf.
  destruct (lexeme_first _ _ _ Hlex) as (b0 & r0 & E0 & Hb0 & Hws0).
  assert (HW : Forall (fun b => 0 < b < 128 /\ is_ws b = true) ws).
  { apply Forall_forall. intros x Hx. unfold all_ws in Hws. rewrite Forall_forall in Hws. specialize (Hws x Hx).
    split; [pose proof (is_ws_range x Hws); lia | exact Hws]. }
  assert (Hg1 : ghead (text ++ rest)) by (rewrite E0; apply ghead_ascii; exact Hb0).
  assert (Hl1 : is_ws (fst (look (text ++ rest))) = false).
  { rewrite E0. cbn [app]. rewrite look_ascii by lia. exact Hws0. }
  destruct (sw_run is_ws ws (text ++ rest) HW Hl1 Hg1 (S f) _ _ _ Hat ltac:(lia)) as (s0 & E & A0 & _).
  rewrite (ntok_skip _ _ _ _ _ E Hl1).
  assert (RES : forall t s', strip t = retype (ty, text) -> at_ ((pre ++ ws) ++ text) rest s' (fst (look rest)) ->
            strip t = retype (ty, text) /\ at_ (pre ++ ws ++ text) rest s' (fst (look rest))).
  { intros t s' H1 H2. rewrite <- app_assoc in H2. split; assumption. }
  destruct ty; cbn [lexeme] in Hlex; try contradiction.
  - (* identifier *)
    destruct Hlex as [Hsh _]. destruct text as [|c r]; [contradiction|]. destruct Hsh as [Hc Hr].
    cbn [sepb] in Hsep. apply negb_true_iff in Hsep.
    destruct (ntok_ident c r rest _ _ _ f Hc Hr Hsep Hg A0 ltac:(cbn [length] in Hf; lia)) as (t & s' & Et & St & At).
    exists t, s'. split; [exact Et|]. apply RES; assumption.
  - (* integer *)
    destruct Hlex as [Hne Hnum]. destruct text as [|d r]; [congruence|].
    cbn [sepb] in Hsep. apply negb_true_iff in Hsep.
    destruct (ntok_int d r rest _ _ _ f Hnum Hsep Hg A0 ltac:(cbn [length] in Hf; lia)) as (t & s' & Et & St & At).
    exists t, s'. split; [exact Et|]. apply RES; assumption.
  - (* reserved word *)
    destruct Hlex as [Hsh Hres]. destruct text as [|c r]; [contradiction|]. destruct Hsh as [Hc Hr].
    cbn [sepb] in Hsep. apply negb_true_iff in Hsep.
    destruct (ntok_ident c r rest _ _ _ f Hc Hr Hsep Hg A0 ltac:(cbn [length] in Hf; lia)) as (t & s' & Et & St & At).
    exists t, s'. split; [exact Et|]. apply RES; [|exact At].
    rewrite St. unfold retype. cbn [fst snd]. rewrite Hres. reflexivity.
  - (* string *)
    destruct Hlex as (body & -> & Hb).
    destruct (ntok_string body rest _ _ _ f Hb Hg A0 ltac:(cbn [length] in Hf; rewrite app_length in Hf; lia))
      as (t & s' & Et & St & At).
    exists t, s'. split; [exact Et|]. apply RES; assumption.
  - (* operator *)
    destruct (ntok_op text rest _ _ _ f Hlex Hsep Hg A0) as (t & s' & Et & St & At).
    exists t, s'. split; [exact Et|]. apply RES; assumption.
Qed.

Lemma retype_not_eof : forall strict ty text, lexeme strict ty text -> fst (retype (ty, text)) <> TEOF.
Proof.
  intros strict ty text H. unfold retype. cbn [fst snd]. destruct ty; cbn [lexeme] in H; try contradiction; try discriminate.
  destruct (is_reserved text); discriminate.
Qed.

Lemma toks_cons_T : forall ty t r, toks (T ty t :: r) = (ty, t) :: toks r.
Proof. reflexivity. Qed.
Lemma toks_cons_Sp : forall t r, toks (Sp t :: r) = toks r.
Proof. reflexivity. Qed.
Lemma toks_app : forall a b, toks (a ++ b) = toks a ++ toks b.
Proof. intros a b. unfold toks. apply flat_map_app. Qed.

Lemma tloop_lex : forall strict l ws pre s ch acc fuel, all_ws ws -> lexk strict l rune_eof ->
  at_ pre (ws ++ render l) s ch -> (length ws + length (render l) < fuel)%nat ->
  exists ts, tloop fuel s ch acc = Some (Some (rev acc ++ ts)) /\ map strip ts = map retype (toks l) ++ [(TEOF, [])].
Proof.
  intros strict l. induction l as [|[ty t|t] r IH]; intros ws pre s ch acc fuel Hws Hl Hat Hf.
  - (* end of input *)
    cbn [render flat_map] in Hat, Hf. destruct fuel as [|f]; [lia|].
    assert (HW : Forall (fun b => 0 < b < 128 /\ is_ws b = true) ws).
    { apply Forall_forall. intros x Hx. unfold all_ws in Hws. rewrite Forall_forall in Hws. specialize (Hws x Hx).
      split; [pose proof (is_ws_range x Hws); lia | exact Hws]. }
    destruct (sw_run is_ws ws [] HW eq_refl I (S f) _ _ _ Hat ltac:(lia)) as (s0 & E & A0 & _).
    destruct (ntok_eof _ _ _ f A0) as (t & s' & Et & St & At).
    exists [t]. split; [|cbn [map toks flat_map app]; rewrite St; reflexivity].
    unfold tloop. cbn [tokenize_loop]. fold ntok. rewrite (ntok_skip _ _ _ _ _ E eq_refl). rewrite Et.
    rewrite (at_err _ _ _ _ At). injection St as Hty _. rewrite Hty. reflexivity.
  - (* a token *)
    destruct Hl as (Hlex & Hsep & Hr). rewrite render_cons_T in Hat, Hf. rewrite app_length in Hf.
    destruct fuel as [|f]; [lia|].
    pose proof (lexk_ahead _ _ _ Hr) as Hah.
    rewrite <- (ahead_look _ Hah) in Hsep.
    destruct (ntok_lex strict ty t ws (render r) pre s ch f Hws Hlex Hsep (ahead_ghead _ Hah) Hat ltac:(lia))
      as (t0 & s' & Et & St & At).
    destruct (lexeme_first _ _ _ Hlex) as (b0 & r0 & E0 & _ & _).
    assert (Hlen : (1 <= length t)%nat) by (rewrite E0; cbn [length]; lia).
    destruct (IH [] _ _ _ (t0 :: acc) f (Forall_nil _) Hr At ltac:(cbn [length]; lia)) as (ts & Eloop & Ets).
    exists (t0 :: ts). split.
    + unfold tloop. cbn [tokenize_loop]. fold ntok. rewrite Et. rewrite (at_err _ _ _ _ At). fold tloop.
      cbn [rev] in Eloop. rewrite <- app_assoc in Eloop. cbn [app] in Eloop.
      assert (Hty : t_type t0 <> TEOF).
      { pose proof (retype_not_eof _ _ _ Hlex) as H. rewrite <- St in H. exact H. }
      destruct (t_type t0); [contradiction | exact Eloop ..].
    + rewrite toks_cons_T. cbn [map app]. rewrite St, Ets. reflexivity.
  - (* a blank *)
    destruct Hl as (Ht & Hr). rewrite render_cons_Sp in Hat, Hf. rewrite app_length in Hf. rewrite app_assoc in Hat.
    destruct (IH (ws ++ t) pre s ch acc fuel ltac:(apply Forall_app; split; assumption) Hr Hat
                ltac:(rewrite app_length; lia)) as (ts & E & Ets).
    exists ts. split; [exact E | rewrite toks_cons_Sp; exact Ets].
Qed.

Lemma at_init : forall src, ghead src -> at_ [] src (fst (c_next (c_init src))) (snd (c_next (c_init src))).
Proof.
  intros src Hg. unfold c_next, c_init. cbn [c_idx c_src skipn].
  destruct src as [|b r].
  - cbn [fst snd]. unfold at_. cbn [c_src c_err c_idx c_lastCharLen look fst snd app length]. repeat split.
  - cbn [ghead] in Hg. change (if b <? 128 then (b, 1%nat) else decode_rune (b :: r)) with (dec1 b r).
    destruct (dec1 b r) as [ch' w] eqn:Hd. cbn [fst snd] in Hg. destruct Hg as [Hnz Hinv].
    cbn [c_line c_col c_lastLineLen c_lastCharLen c_tok c_err].
    rewrite Hinv. replace (ch' =? 0) with false by (symmetry; apply Z.eqb_neq; exact Hnz). cbn [orb fst snd].
    unfold at_. cbn [c_src c_err c_idx c_lastCharLen look app length]. rewrite Hd. cbn [fst snd]. repeat split.
Qed.

Theorem lex_render_generic : forall strict l, lexk strict l rune_eof ->
  exists f0, forall f, (f0 <= f)%nat -> exists ts,
    spec_tokenize f (render l) = Some (Some ts) /\ map strip ts = map retype (toks l) ++ [(TEOF, [])].
Proof.
  intros strict l H. exists (S (length (render l))). intros f Hf.
  rewrite spec_tokenize_unfold.
  pose proof (at_init (render l) (ahead_ghead _ (lexk_ahead _ _ _ H))) as A.
  destruct (tloop_lex strict l [] [] _ _ [] f (Forall_nil _) H A ltac:(cbn [length]; lia)) as (ts & E & Ets).
  exists ts. split; [exact E | exact Ets].
Qed.

Lemma lexk_strict_retype : forall l c, lexk true l c -> map retype (toks l) = toks l.
Proof.
  induction l as [|[ty t|t] r IH]; intros c H; [reflexivity | |].
  - destruct H as (Hlex & _ & Hr). rewrite toks_cons_T. cbn [map]. rewrite (IH c Hr). f_equal.
    unfold retype. cbn [fst snd]. destruct ty; try reflexivity. destruct Hlex as [_ Hres]. rewrite (Hres eq_refl). reflexivity.
  - destruct H as (_ & Hr). rewrite toks_cons_Sp. exact (IH c Hr).
Qed.

Theorem lex_render_strict : forall l, lexk true l rune_eof ->
  exists f0, forall f, (f0 <= f)%nat -> exists ts,
    spec_tokenize f (render l) = Some (Some ts) /\ map strip ts = toks l ++ [(TEOF, [])].
Proof.
  intros l H. destruct (lex_render_generic true l H) as [f0 H0]. exists f0. intros f Hf.
  destruct (H0 f Hf) as (ts & E & Ets). exists ts. split; [exact E|]. rewrite (lexk_strict_retype l _ H) in Ets. exact Ets.
Qed.

(* ------------------------------------------------------------------------------------------------------------- *)
(* 5. String literals the printer emits are string lexemes                                                        *)
(* ------------------------------------------------------------------------------------------------------------- *)

Lemma sbody_app : forall a b, sbody a -> sbody b -> sbody (a ++ b).
Proof. intros a b Ha Hb. induction Ha as [|u r Hu Hr IH]; [exact Hb|]. rewrite <- app_assoc. constructor; assumption. Qed.

Lemma sbody_unit : forall u, sunit u -> sbody u.
Proof. intros u H. rewrite <- (app_nil_r u). constructor; [exact H | constructor]. Qed.

Lemma sbody_flat_map : forall (A : Type) (g : A -> str) l, (forall x, In x l -> sbody (g x)) -> sbody (flat_map g l).
Proof.
  intros A g l. induction l as [|x l IH]; intros H; cbn [flat_map]; [constructor|].
  apply sbody_app; [apply H; left; reflexivity | apply IH; intros y Hy; apply H; right; exact Hy].
Qed.

Lemma lowhex_is_hex : forall c, lowhex c -> is_hex c = true.
Proof.
  intros c H. unfold lowhex in H. unfold is_hex, is_num. rewrite !orb_true_iff, !andb_true_iff, !Z.leb_le. lia.
Qed.

Lemma in_esc : forall c, existsb (Z.eqb c) esc_chars = true -> In c esc_chars.
Proof. intros c H. apply existsb_exists in H. destruct H as (x & Hx & E). apply Z.eqb_eq in E. subst x. exact Hx. Qed.

Lemma plain_body : forall arg, Forall (fun c => 32 <= c < 127 /\ c <> 34 /\ c <> 92) arg -> sbody arg.
Proof.
  intros arg H. induction H as [|c arg Hc _ IH]; [constructor|].
  change (c :: arg) with ([c] ++ arg). constructor; [apply su_ascii; lia | exact IH].
Qed.

Lemma lexeme_plain : forall st arg, Forall (fun c => 32 <= c < 127 /\ c <> 34 /\ c <> 92) arg ->
  lexeme st TString ([34] ++ arg ++ [34]).
Proof. intros st arg H. exists arg. split; [reflexivity | apply plain_body; exact H]. Qed.

Lemma escape_stars_unit : forall u, sunit u -> sbody (escape_stars u).
Proof.
  intros u H. destruct H as [b Hb H34 H10 H92 | r Hv Hr | c Hc | hs Hl Hh | h1 h2 H1 H2].
  - unfold escape_stars. cbn [flat_map]. rewrite app_nil_r. destruct (Z.eqb_spec b 42) as [->|Hne].
    + apply sbody_unit, su_esc, in_esc. reflexivity.
    + apply sbody_unit, su_ascii; assumption.
  - rewrite escape_stars_id; [apply sbody_unit, su_rune; assumption|].
    destruct (encode_rune_bytes r Hv) as [[H _] | [_ Hb]]; [lia|].
    eapply Forall_impl; [|exact Hb]. intros x Hx. cbv beta in Hx. lia.
  - unfold escape_stars. cbn [flat_map]. change (92 =? 42) with false. cbv iota. rewrite app_nil_r. cbn [app].
    destruct (Z.eqb_spec c 42) as [->|Hne].
    + change [92; 92; 42] with ([92; 92] ++ [42] ++ []). constructor; [apply su_esc, in_esc; reflexivity|].
      constructor; [apply su_ascii; lia | constructor].
    + apply sbody_unit, su_esc. exact Hc.
  - rewrite escape_stars_id; [apply sbody_unit, su_u; assumption|].
    repeat (apply Forall_app; split); try (repeat constructor; lia).
    eapply Forall_impl; [|exact Hh]. intros x Hx. cbv beta in Hx. pose proof (is_hex_range x Hx). lia.
  - rewrite escape_stars_id; [apply sbody_unit, su_x; assumption|].
    pose proof (is_hex_range h1 H1). pose proof (is_hex_range h2 H2). repeat constructor; lia.
Qed.

Lemma byte_str_nonneg' : forall s, byte_str s = true -> nonneg s.
Proof.
  intros s H. unfold byte_str in H. rewrite forallb_forall in H. apply Forall_forall. intros x Hx.
  specialize (H x Hx). apply andb_true_iff in H. destruct H as [H _]. apply Z.leb_le in H. exact H.
Qed.

Lemma pat_tail_ok_all : forall r, pat_tail_ok r = true -> Forall (fun c : pcomp => str_ok (snd c) = true) r.
Proof.
  induction r as [|[w l] r IH]; intros H; [constructor|]. cbn [pat_tail_ok] in H.
  apply andb_true_iff in H. destruct H as [H Hr]. apply andb_true_iff in H. destruct H as [H _].
  apply andb_true_iff in H. destruct H as [_ Hl]. constructor; [exact Hl | exact (IH Hr)].
Qed.

Lemma pat_ok_all : forall p, pat_ok p = true -> Forall (fun c : pcomp => str_ok (snd c) = true) p.
Proof.
  intros [|[w l] r] H; [constructor|]. cbn [pat_ok] in H.
  apply andb_true_iff in H. destruct H as [H Hr]. apply andb_true_iff in H. destruct H as [Hl _].
  constructor; [exact Hl | exact (pat_tail_ok_all r Hr)].
Qed.

Section Strings.
  Variables is_printable is_gext : Z -> bool.

  Lemma escape_rune_unit : forall r b, valid_rune r = true -> sunit (escape_rune is_printable is_gext r b).
  Proof.
    intros r b Hv. pose proof (valid_rune_range r Hv) as Hr. unfold escape_rune.
    assert (HU : sunit (u_escape r)).
    { unfold u_escape. destruct (hex_lower_spec r ltac:(lia)) as (Hl & Hf & _). apply su_u; [exact Hl|].
      eapply Forall_impl; [|exact Hf]. intros x Hx. apply lowhex_is_hex. exact Hx. }
    destruct (Z.eqb_spec r 0); [apply su_esc, in_esc; reflexivity|].
    destruct (Z.eqb_spec r 9); [apply su_esc, in_esc; reflexivity|].
    destruct (Z.eqb_spec r 13); [apply su_esc, in_esc; reflexivity|].
    destruct (Z.eqb_spec r 10); [apply su_esc, in_esc; reflexivity|].
    destruct (Z.eqb_spec r 92); [apply su_esc, in_esc; reflexivity|].
    destruct (Z.eqb_spec r 34); [apply su_esc, in_esc; reflexivity|].
    destruct (Z.eqb_spec r 39); [apply su_esc, in_esc; reflexivity|].
    destruct (b && is_gext r); [exact HU|].
    destruct (is_printable r); [|exact HU].
    destruct (Z.ltb_spec r 128); [rewrite encode_rune_1 by lia; apply su_ascii; lia | apply su_rune; [exact Hv | lia]].
  Qed.

  Lemma escape_string_body : forall s, nonneg s -> valid_utf8 s = true -> sbody (escape_string is_printable is_gext s).
  Proof.
    intros s Hnn Hv. unfold escape_string, escape_runes. pose proof (runes_valid s Hnn Hv) as HV.
    destruct (runes s) as [|r rs]; [constructor|]. inversion HV as [|r' rs' Hr Hrs]; subst.
    apply sbody_app; [apply sbody_unit, escape_rune_unit; exact Hr|].
    apply sbody_flat_map. intros x Hx. apply sbody_unit, escape_rune_unit. rewrite Forall_forall in Hrs. apply Hrs. exact Hx.
  Qed.

  Lemma lexeme_quote_string : forall st s, str_ok2 s = true -> lexeme st TString (quote_string is_printable is_gext s).
  Proof.
    intros st s H. unfold str_ok2 in H. apply andb_true_iff in H. destruct H as [Hb Hv].
    exists (escape_string is_printable is_gext s). split; [reflexivity|].
    apply escape_string_body; [apply byte_str_nonneg'; exact Hb | exact Hv].
  Qed.

  Lemma lexeme_quote_pattern : forall st p, pat_ok2 p = true -> lexeme st TString (quote_pattern is_printable is_gext p).
  Proof.
    intros st p H. unfold pat_ok2 in H. apply andb_true_iff in H. destruct H as [Hb Hp].
    pose proof (pat_ok_all p Hp) as Hall.
    eexists. split; [reflexivity|].
    apply sbody_flat_map. intros [w l] Hin. cbn [fst snd].
    rewrite forallb_forall in Hb. specialize (Hb _ Hin). cbn [snd] in Hb.
    rewrite Forall_forall in Hall. specialize (Hall _ Hin). cbn [snd] in Hall.
    apply sbody_app; [destruct w; [apply sbody_unit, su_ascii; lia | constructor]|].
    unfold escape_char_all. rewrite escape_stars_flat_map.
    pose proof (runes_valid l (byte_str_nonneg' l Hb) Hall) as HV.
    apply sbody_flat_map. intros r Hr. apply escape_stars_unit, escape_rune_unit.
    rewrite Forall_forall in HV. apply HV. exact Hr.
  Qed.
End Strings.

(* ------------------------------------------------------------------------------------------------------------- *)
(* 6. The printer's item lists satisfy [lexk]                                                                     *)
(* ------------------------------------------------------------------------------------------------------------- *)

Lemma nextb_app : forall x y c, nextb (x ++ y) c = nextb x (nextb y c).
Proof. intros [|b x] y c; reflexivity. Qed.

Lemma lexk_app : forall st a b c, lexk st (a ++ b) c <-> lexk st a (nextb (render b) c) /\ lexk st b c.
Proof.
  intros st a b c. induction a as [|[ty t|t] r IH]; cbn [app lexk].
  - tauto.
  - rewrite render_app, nextb_app. tauto.
  - tauto.
Qed.

Lemma lexk_app_i : forall st a b c, lexk st a (nextb (render b) c) -> lexk st b c -> lexk st (a ++ b) c.
Proof. intros st a b c H1 H2. apply lexk_app. split; assumption. Qed.

Lemma lexk_T_i : forall st ty t r c, lexeme st ty t -> sepb ty t (nextb (render r) c) = true -> lexk st r c ->
  lexk st (T ty t :: r) c.
Proof. intros st ty t r c H1 H2 H3. cbn [lexk]. repeat split; assumption. Qed.

Lemma lexk_Sp_i : forall st t r c, all_ws t -> lexk st r c -> lexk st (Sp t :: r) c.
Proof. intros st t r c H1 H2. cbn [lexk]. split; assumption. Qed.

Lemma lexeme_weaken : forall st ty t, lexeme true ty t -> lexeme st ty t.
Proof. intros st ty t H. destruct ty; cbn [lexeme] in *; try exact H. destruct H as [H1 H2]. split; [exact H1 | intros _; apply H2; reflexivity]. Qed.

Lemma lexk_weaken : forall st l c, lexk true l c -> lexk st l c.
Proof.
  intros st l c. induction l as [|[ty t|t] r IH]; cbn [lexk]; [tauto | |].
  - intros (H1 & H2 & H3). split; [apply lexeme_weaken; exact H1 | split; [exact H2 | exact (IH H3)]].
  - intros (H1 & H2). split; [exact H1 | exact (IH H2)].
Qed.

(* the byte after an expression: anything that cannot continue an identifier or a number *)
Definition ctx_ok (c : Z) : Prop := is_ident_rune c false = false.

(* the rendering is not empty and does not start with ':' or '=' *)
Definition starts (l : list item) : Prop := exists b r, render l = b :: r /\ b <> 58 /\ b <> 61.

Definition good (l : list item) : Prop := (forall c, ctx_ok c -> lexk true l c) /\ starts l.

Lemma starts_app : forall a b, starts a -> starts (a ++ b).
Proof. intros a b (x & r & E & H). exists x, (r ++ render b). rewrite render_app, E. split; [reflexivity | exact H]. Qed.

Lemma starts_T : forall ty b t r, b <> 58 -> b <> 61 -> starts (T ty (b :: t) :: r).
Proof. intros ty b t r H1 H2. exists b, (t ++ render r). split; [reflexivity | split; assumption]. Qed.

(* explicit tokens *)
Definition ident_shapeb (t : str) : bool :=
  match t with [] => false | c :: r => is_ident_rune c true && forallb (fun x => is_ident_rune x false) r end.

Lemma ident_shapeb_ok : forall t, ident_shapeb t = true -> ident_shape t.
Proof. intros [|c r] H; [discriminate|]. cbn [ident_shapeb] in H. apply andb_true_iff in H. exact H. Qed.

Lemma lexeme_op : forall st s, existsb (str_eqb (s_of s)) op_texts = true -> lexeme st TOperator (s_of s).
Proof.
  intros st s H. cbn [lexeme]. apply existsb_exists in H. destruct H as (x & Hx & E). apply str_eqb_eq in E. rewrite E. exact Hx.
Qed.

Lemma lexeme_kw : forall st s, ident_shapeb (s_of s) && is_reserved (s_of s) = true -> lexeme st TReserved (s_of s).
Proof. intros st s H. apply andb_true_iff in H. destruct H as [H1 H2]. split; [apply ident_shapeb_ok; exact H1 | exact H2]. Qed.

Lemma lexeme_idt : forall st s, ident_shapeb (s_of s) && negb (is_reserved (s_of s)) = true -> lexeme st TIdent (s_of s).
Proof.
  intros st s H. apply andb_true_iff in H. destruct H as [H1 H2]. apply negb_true_iff in H2.
  split; [apply ident_shapeb_ok; exact H1 | intros _; exact H2].
Qed.

Lemma lexeme_can_ident : forall st k, can_ident k = true -> lexeme st TIdent k.
Proof.
  intros st k H. destruct (ParserRoundTrip.can_ident_inv k H) as (c & r & -> & Hres & Hc & Hr).
  split; [split; assumption | intros _; exact Hres].
Qed.

Lemma can_ident_first : forall k, can_ident k = true -> exists c r, k = c :: r /\ c <> 58 /\ c <> 61.
Proof.
  intros k H. destruct (ParserRoundTrip.can_ident_inv k H) as (c & r & -> & _ & Hc & _).
  exists c, r. split; [reflexivity|]. pose proof (ident_rune_range c true Hc). lia.
Qed.

Lemma sepb_ctx : forall ty t c, ctx_ok c -> c <> 58 -> c <> 61 -> ty <> TEOF -> ty <> TUnknown -> sepb ty t c = true.
Proof.
  intros ty t c Hc H58 H61 H1 H2. unfold ctx_ok in Hc.
  destruct ty; cbn [sepb]; try congruence; try (rewrite Hc; reflexivity).
  - unfold is_ident_rune in Hc. apply orb_false_iff in Hc. destruct Hc as [_ Hc]. cbn [negb] in Hc. rewrite andb_true_r in Hc.
    rewrite Hc. reflexivity.
  - rewrite (proj2 (Z.eqb_neq c 58) H58), (proj2 (Z.eqb_neq c 61) H61).
    destruct (str_eqb t [58]); [reflexivity|]. destruct (str_eqb t [33] || str_eqb t [60] || str_eqb t [62]); reflexivity.
Qed.

Lemma sepb_ident_ctx : forall t c, ctx_ok c -> sepb TIdent t c = true.
Proof. intros t c H. cbn [sepb]. unfold ctx_ok in H. rewrite H. reflexivity. Qed.
Lemma sepb_kw_ctx : forall t c, ctx_ok c -> sepb TReserved t c = true.
Proof. intros t c H. cbn [sepb]. unfold ctx_ok in H. rewrite H. reflexivity. Qed.
Lemma sepb_int_ctx : forall t c, ctx_ok c -> sepb TInt t c = true.
Proof.
  intros t c Hc. cbn [sepb]. unfold ctx_ok, is_ident_rune in Hc. apply orb_false_iff in Hc. destruct Hc as [_ Hc].
  cbn [negb] in Hc. rewrite andb_true_r in Hc. rewrite Hc. reflexivity.
Qed.

Lemma all_ws_sp : all_ws [32]. Proof. repeat constructor. Qed.
Lemma all_ws_nl : all_ws [10]. Proof. repeat constructor. Qed.
Lemma all_ws_indent : all_ws [10; 32; 32; 32; 32]. Proof. repeat constructor. Qed.

(* solving the side conditions about explicit tokens *)
Ltac lexm :=
  first [ apply lexeme_op; vm_compute; reflexivity
        | apply lexeme_kw; vm_compute; reflexivity
        | apply lexeme_idt; vm_compute; reflexivity
        | apply lexeme_can_ident; assumption
        | assumption ].

Ltac wsm := first [ exact all_ws_sp | exact all_ws_nl | exact all_ws_indent | assumption ].

(* decompose a goal [lexk st L c] along the explicit structure of L *)
Ltac lexk_step :=
  match goal with
  | |- lexk _ [] _ => exact I
  | |- lexk _ (T _ _ :: _) _ => apply lexk_T_i; [try lexm | try reflexivity | ]
  | |- lexk _ (Sp _ :: _) _ => apply lexk_Sp_i; [try wsm | ]
  | H : good ?X |- lexk true (?X ++ _) _ => apply lexk_app_i; [apply (proj1 H); try reflexivity | ]
  | H : good ?X |- lexk true ?X _ => apply (proj1 H); try reflexivity
  | |- lexk _ (_ ++ _) _ => apply lexk_app_i
  end.
Ltac lexk_go := repeat first [lexk_step | progress unfold op, kw, idt, sp, nl, indent].

Lemma lexk_commas : forall l, (forall x, In x l -> forall c, ctx_ok c -> lexk true x c) ->
  forall c, ctx_ok c -> lexk true (commas l) c.
Proof.
  induction l as [|x r IH]; intros H c Hc; [exact I|].
  destruct r as [|y r']; [cbn [commas]; apply H; [left; reflexivity | exact Hc]|].
  change (commas (x :: y :: r')) with (x ++ [op ","; sp] ++ commas (y :: r')).
  apply lexk_app_i; [apply H; [left; reflexivity | reflexivity]|].
  cbn [app]. lexk_go. apply IH; [intros z Hz; apply H; right; exact Hz | exact Hc].
Qed.

Lemma good_parens : forall l, (forall c, ctx_ok c -> lexk true l c) -> good (parens l).
Proof.
  intros l H. split.
  - intros c Hc. unfold parens. cbn [app]. lexk_go. apply H. reflexivity.
  - exists 40, (render l ++ [41]). unfold parens. rewrite !render_app. split; [reflexivity | split; discriminate].
Qed.

Lemma good_child : forall extra this e body, good body -> good (child extra this e body).
Proof. intros extra this e body H. unfold child. destruct (_ || _); [apply good_parens; exact (proj1 H) | exact H]. Qed.

Lemma path_items_of_lexk : forall cs, cs <> [] -> forallb can_ident cs = true ->
  (forall c, ctx_ok c -> lexk true (path_items_of cs) c) /\ starts (path_items_of cs).
Proof.
  induction cs as [|x r IH]; intros Hne H; [congruence|].
  cbn [forallb] in H. apply andb_true_iff in H. destruct H as [Hx Hr].
  destruct (can_ident_first x Hx) as (b & t & E & Hb1 & Hb2).
  destruct r as [|y r'].
  - cbn [path_items_of]. split.
    + intros c Hc. lexk_go. apply sepb_ident_ctx. exact Hc.
    + rewrite E. apply starts_T; assumption.
  - change (path_items_of (x :: y :: r')) with (T TIdent x :: op "::" :: path_items_of (y :: r')). split.
    + intros c Hc. lexk_go. apply (IH ltac:(discriminate) Hr). exact Hc.
    + rewrite E. apply starts_T; assumption.
Qed.

Lemma good_path : forall ty, path_ok ty = true -> good (path_items ty).
Proof.
  intros ty H. unfold path_items. apply path_items_of_lexk; [apply ParserRoundTrip.split_path_acc_ne | exact H].
Qed.

Lemma sepb_op_starts : forall t X c, starts X -> sepb TOperator t (nextb (render X) c) = true.
Proof.
  intros t X c (b & r & E & H58 & H61). rewrite E. cbn [nextb sepb].
  rewrite (proj2 (Z.eqb_neq b 58) H58), (proj2 (Z.eqb_neq b 61) H61).
  destruct (str_eqb t [58]); [reflexivity|]. destruct (str_eqb t [33] || str_eqb t [60] || str_eqb t [62]); reflexivity.
Qed.

Lemma print_nat_first : forall z, exists d r, print_nat z = d :: r /\ 48 <= d <= 57.
Proof.
  intros z. pose proof (ParserRoundTrip.print_nat_all_digits z) as H.
  destruct (print_nat z) as [|d r] eqn:E.
  - exfalso. revert E. unfold print_nat. apply DecimalProofs.digits_of_nonempty.
  - exists d, r. split; [reflexivity|]. inversion H as [|d' r' Hd _]; subst. apply is_num_range. exact Hd.
Qed.

Lemma lexeme_print_nat : forall st z, lexeme st TInt (print_nat z).
Proof.
  intros st z. destruct (print_nat_first z) as (d & r & E & _). split; [rewrite E; discriminate|].
  pose proof (ParserRoundTrip.print_nat_all_digits z) as H. apply forallb_forall. rewrite Forall_forall in H. exact H.
Qed.

Ltac starts_x := eexists _, _; split; [reflexivity | split; (let E := fresh "E" in intro E; vm_compute in E; discriminate E)].

Section Printer.
  Variables (is_printable is_gext : Z -> bool) (set_order : list value -> list nat) (print_ip : bool -> Z -> Z -> str) (extra : expr -> bool).
  Hypothesis print_ip_plain : forall v6 a p, Forall (fun c => 32 <= c < 127 /\ c <> 34 /\ c <> 92) (print_ip v6 a p).

  Notation EI := (expr_items is_printable is_gext set_order print_ip extra).
  Notation VI := (value_items is_printable is_gext set_order print_ip).
  Notation SI := (str_item is_printable is_gext).
  Notation eok := (expr_ok set_order).
  Notation vok := (value_ok set_order).

  Lemma starts_SI : forall k r, starts (SI k :: r).
  Proof. intros k r. unfold str_item, quote_string. cbn [app]. apply starts_T; discriminate. Qed.

  Lemma lexk_SI : forall k r c, str_ok2 k = true -> lexk true r c -> lexk true (SI k :: r) c.
  Proof.
    intros k r c Hk Hr. unfold str_item. apply lexk_T_i; [apply lexeme_quote_string; exact Hk | reflexivity | exact Hr].
  Qed.

  Lemma good_ext : forall fn arg, ident_shapeb (s_of fn) && negb (is_reserved (s_of fn)) = true ->
    Forall (fun c => 32 <= c < 127 /\ c <> 34 /\ c <> 92) arg -> good (ext_items fn arg).
  Proof.
    intros fn arg Hfn Harg. pose proof (lexeme_idt true fn Hfn) as Hl. pose proof (lexeme_plain true arg Harg) as Hs.
    unfold ext_items. split.
    - intros c Hc. lexk_go.
    - apply andb_true_iff in Hfn. destruct Hfn as [Hfn _]. unfold idt. destruct (s_of fn) as [|b t]; [discriminate|].
      cbn [ident_shapeb] in Hfn. apply andb_true_iff in Hfn. destruct Hfn as [Hb _].
      pose proof (ident_rune_range b true Hb). apply starts_T; lia.
  Qed.

  Lemma value_good : forall v, vok v = true -> good (VI v).
  Proof.
    induction v as [b | z | s | ty id | l IH | kvs IH | z | z | z | v6 a p] using value_ind'; intros Hok.
    - destruct b; cbn [value_items]; (split; [intros c Hc; lexk_go; apply sepb_kw_ctx; exact Hc | starts_x]).
    - cbn [value_items]. destruct (z <? 0).
      + split; [intros c Hc; lexk_go; [apply lexeme_print_nat | apply sepb_int_ctx; exact Hc] | starts_x].
      + split; [intros c Hc; lexk_go; [apply lexeme_print_nat | apply sepb_int_ctx; exact Hc]|].
        destruct (print_nat_first z) as (d & r & E & Hd). rewrite E. apply starts_T; lia.
    - cbn [value_items value_ok] in *. split; [intros c Hc; apply lexk_SI; [exact Hok | exact I] | apply starts_SI].
    - cbn [value_items value_ok] in *. apply andb_true_iff in Hok. destruct Hok as [Hty Hid].
      pose proof (good_path ty Hty) as Hp. split; [|apply starts_app; exact (proj2 Hp)].
      intros c Hc. lexk_go. apply lexk_SI; [exact Hid | exact I].
    - rewrite ParserRoundTrip.value_ok_set in Hok. apply andb_true_iff in Hok. destruct Hok as [_ Hall].
      cbn [value_items]. rewrite (ParserRoundTrip.value_set_items_map is_printable is_gext set_order print_ip).
      split; [|starts_x]. intros c Hc. cbn [app]. lexk_go.
      apply lexk_commas; [|reflexivity]. intros x Hx c' Hc'. apply in_map_iff in Hx. destruct Hx as (i & <- & _).
      destruct (nth_in_or_default i (map VI l) []) as [Hin | ->]; [|exact I].
      apply in_map_iff in Hin. destruct Hin as (v & <- & Hv).
      rewrite Forall_forall in IH. rewrite forallb_forall in Hall. apply (IH v Hv (Hall v Hv)). exact Hc'.
    - rewrite ParserRoundTrip.value_ok_record in Hok. apply andb_true_iff in Hok. destruct Hok as [Hok Hall].
      apply andb_true_iff in Hok. destruct Hok as [_ Hkeys].
      cbn [value_items]. rewrite (ParserRoundTrip.value_rec_items_map is_printable is_gext set_order print_ip).
      split; [|starts_x]. intros c Hc. cbn [app]. lexk_go.
      apply lexk_commas; [|reflexivity]. intros x Hx c' Hc'. apply in_map_iff in Hx. destruct Hx as ([k v] & <- & Hkv).
      cbn [fst snd]. rewrite Forall_forall in IH. rewrite forallb_forall in Hall, Hkeys.
      pose proof (IH _ Hkv (Hall _ Hkv)) as Hg. cbn [snd] in Hg. pose proof (Hkeys _ Hkv) as Hk. cbn [fst] in Hk.
      cbn [app]. apply lexk_SI; [exact Hk|]. unfold op. apply lexk_T_i; [lexm | apply sepb_op_starts; exact (proj2 Hg) |].
      apply (proj1 Hg). exact Hc'.
    - cbn [value_items]. apply good_ext; [vm_compute; reflexivity | apply ParserRoundTrip.print_decimal_plain].
    - cbn [value_items]. apply good_ext; [vm_compute; reflexivity | apply ParserRoundTrip.print_datetime_plain].
    - cbn [value_items]. apply good_ext; [vm_compute; reflexivity | apply ParserRoundTrip.print_duration_plain].
    - cbn [value_items]. apply good_ext; [vm_compute; reflexivity | apply print_ip_plain].
  Qed.

  Notation CH := (child extra).

  Lemma is_method_true : forall n ar, ext_lookup n = Some (ar, true) -> is_method n = true.
  Proof. intros n ar H. unfold is_method. rewrite H. reflexivity. Qed.
  Lemma is_method_false : forall n ar, ext_lookup n = Some (ar, false) -> is_method n = false.
  Proof. intros n ar H. unfold is_method. rewrite H. reflexivity. Qed.

  Ltac fin Hc := try (first [exact Hc | apply sepb_ident_ctx; exact Hc | apply sepb_kw_ctx; exact Hc | apply sepb_int_ctx; exact Hc]).

  Lemma good_infix : forall lp rp o a b ia ib, good ia -> good ib ->
    (exists ty t, o = T ty t /\ lexeme true ty t /\ sepb ty t 32 = true) ->
    good (infix extra lp rp o a b ia ib).
  Proof.
    intros lp rp o a b ia ib Ha Hb (ty & t & -> & Hl & Hs).
    pose proof (good_child extra lp a ia Ha) as Ga. pose proof (good_child extra rp b ib Hb) as Gb.
    unfold infix. split; [|apply starts_app; exact (proj2 Ga)].
    intros c Hc. lexk_go; first [exact Hs | exact Hc].
  Qed.

  Lemma good_method : forall a b (name : string), good (EI a) -> good (EI b) ->
    ident_shapeb (s_of name) && negb (is_reserved (s_of name)) = true ->
    good (CH PAccess a (EI a) ++ [op "."; idt name; op "("] ++ CH PAccess b (EI b) ++ [op ")"]).
  Proof.
    intros a b name Ha Hb Hn. pose proof (lexeme_idt true name Hn) as Hl.
    pose proof (good_child extra PAccess a _ Ha) as Ga. pose proof (good_child extra PAccess b _ Hb) as Gb.
    split; [|apply starts_app; exact (proj2 Ga)].
    intros c Hc. lexk_go.
  Qed.

  Lemma lexk_args : forall this es, Forall (fun e => eok e = true -> good (EI e)) es -> forallb eok es = true ->
    forall c, ctx_ok c -> lexk true (commas (map (fun x => CH this x (EI x)) es)) c.
  Proof.
    intros this es IH Hall. apply lexk_commas. intros x Hx c Hc. apply in_map_iff in Hx. destruct Hx as (e & <- & He).
    rewrite Forall_forall in IH. rewrite forallb_forall in Hall.
    apply (proj1 (good_child extra this e _ (IH e He (Hall e He)))). exact Hc.
  Qed.

  Ltac bin IHa IHb Hok :=
    cbn [expr_ok] in Hok; apply andb_true_iff in Hok;
    let Ha := fresh "Ha" in let Hb := fresh "Hb" in destruct Hok as [Ha Hb];
    cbn [expr_items]; apply good_infix;
    [exact (IHa Ha) | exact (IHb Hb) | eexists _, _; split; [reflexivity | split; [lexm | reflexivity]]].

  Ltac meth IHa IHb Hok :=
    cbn [expr_ok] in Hok; apply andb_true_iff in Hok;
    let Ha := fresh "Ha" in let Hb := fresh "Hb" in destruct Hok as [Ha Hb];
    cbn [expr_items]; apply good_method; [exact (IHa Ha) | exact (IHb Hb) | vm_compute; reflexivity].

  Lemma expr_good : forall e, eok e = true -> good (EI e).
  Proof.
    induction e as [v | x | a b IHa IHb | a b IHa IHb | a IHa | a IHa | a b IHa IHb | a b IHa IHb | a b IHa IHb
                    | a b IHa IHb | a b IHa IHb | a b IHa IHb | a b IHa IHb | a b IHa IHb | a b IHa IHb | a b IHa IHb
                    | a b IHa IHb | a b IHa IHb | a b IHa IHb | a IHa | a k IHa | a k IHa | a b IHa IHb | a b IHa IHb
                    | a p IHa | a ty IHa | a ty b IHa IHb | c0 t f IHc IHt IHf | es IH | kvs IH | n args IH | k]
      using expr_ind'; intros Hok.
    - (* ELit *) cbn [expr_items expr_ok] in *. apply value_good. exact Hok.
    - (* EVar *) cbn [expr_items]. destruct x; (split; [intros c Hc; unfold var_item; lexk_go; fin Hc | starts_x]).
    - (* EAnd *) bin IHa IHb Hok.
    - (* EOr *) bin IHa IHb Hok.
    - (* ENot *) cbn [expr_ok expr_items] in *. pose proof (good_child extra PUnary a _ (IHa Hok)) as Ga.
      split; [|starts_x]. intros c Hc. cbn [app]. unfold op. apply lexk_T_i; [lexm | apply sepb_op_starts; exact (proj2 Ga) |].
      apply (proj1 Ga). exact Hc.
    - (* ENeg *) cbn [expr_ok expr_items] in *. split; [|starts_x]. intros c Hc. cbn [app]. unfold op.
      apply lexk_T_i; [lexm | reflexivity |].
      destruct (starts_with_int a); apply (proj1 (good_child extra _ a _ (IHa Hok))); exact Hc.
    - (* EAdd *) bin IHa IHb Hok.
    - (* ESub *) bin IHa IHb Hok.
    - (* EMul *) bin IHa IHb Hok.
    - (* EEq *) bin IHa IHb Hok.
    - (* ENe *) bin IHa IHb Hok.
    - (* ELt *) bin IHa IHb Hok.
    - (* ELe *) bin IHa IHb Hok.
    - (* EGt *) bin IHa IHb Hok.
    - (* EGe *) bin IHa IHb Hok.
    - (* EIn *) bin IHa IHb Hok.
    - (* EContains *) meth IHa IHb Hok.
    - (* EContainsAll *) meth IHa IHb Hok.
    - (* EContainsAny *) meth IHa IHb Hok.
    - (* EIsEmpty *) cbn [expr_ok expr_items] in *. pose proof (good_child extra PAccess a _ (IHa Hok)) as Ga.
      split; [|apply starts_app; exact (proj2 Ga)]. intros c Hc. lexk_go.
    - (* EAccess *) cbn [expr_ok expr_items] in *. apply andb_true_iff in Hok. destruct Hok as [Ha Hk].
      pose proof (good_child extra PAccess a _ (IHa Ha)) as Ga.
      split; [|apply starts_app; exact (proj2 Ga)]. intros c Hc. unfold attr_items. destruct (can_ident k) eqn:Ek.
      + lexk_go. fin Hc.
      + lexk_go. apply lexk_SI; [exact Hk|]. lexk_go.
    - (* EHas *) cbn [expr_ok expr_items] in *. apply andb_true_iff in Hok. destruct Hok as [Ha Hk].
      pose proof (good_child extra PAdd a _ (IHa Ha)) as Ga.
      split; [|apply starts_app; exact (proj2 Ga)]. intros c Hc. destruct (can_ident k) eqn:Ek.
      + lexk_go. fin Hc.
      + lexk_go. apply lexk_SI; [exact Hk | exact I].
    - (* EGetTag *) meth IHa IHb Hok.
    - (* EHasTag *) meth IHa IHb Hok.
    - (* ELike *) cbn [expr_ok expr_items] in *. apply andb_true_iff in Hok. destruct Hok as [Ha Hp].
      pose proof (good_child extra PAdd a _ (IHa Ha)) as Ga. pose proof (lexeme_quote_pattern is_printable is_gext true p Hp) as Lp.
      split; [|apply starts_app; exact (proj2 Ga)]. intros c Hc. lexk_go.
    - (* EIs *) cbn [expr_ok expr_items] in *. apply andb_true_iff in Hok. destruct Hok as [Ha Hty].
      pose proof (good_child extra PAdd a _ (IHa Ha)) as Ga. pose proof (good_path ty Hty) as Gp.
      split; [|apply starts_app; exact (proj2 Ga)]. intros c Hc. lexk_go. exact Hc.
    - (* EIsIn *) cbn [expr_ok expr_items] in *. apply andb_true_iff in Hok. destruct Hok as [Hok Hb].
      apply andb_true_iff in Hok. destruct Hok as [Ha Hty].
      pose proof (good_child extra PAdd a _ (IHa Ha)) as Ga. pose proof (good_child extra PAdd b _ (IHb Hb)) as Gb.
      pose proof (good_path ty Hty) as Gp.
      split; [|apply starts_app; exact (proj2 Ga)]. intros c Hc. lexk_go. exact Hc.
    - (* EIf *) cbn [expr_ok expr_items] in *. apply andb_true_iff in Hok. destruct Hok as [Hok Hf].
      apply andb_true_iff in Hok. destruct Hok as [Hc0 Ht].
      pose proof (good_child extra PIf c0 _ (IHc Hc0)) as Gc. pose proof (good_child extra PIf t _ (IHt Ht)) as Gt.
      pose proof (good_child extra PIf f _ (IHf Hf)) as Gf.
      split; [|starts_x]. intros c Hc. cbn [app]. lexk_go. exact Hc.
    - (* ESet *) rewrite ParserRoundTrip.expr_ok_set in Hok. cbn [expr_items].
      rewrite (ParserRoundTrip.args_items_map is_printable is_gext set_order print_ip extra).
      split; [|starts_x]. intros c Hc. cbn [app]. lexk_go. apply (lexk_args PUnary es IH Hok). reflexivity.
    - (* ERecord *) rewrite ParserRoundTrip.expr_ok_record in Hok. apply andb_true_iff in Hok. destruct Hok as [Hok Hall].
      apply andb_true_iff in Hok. destruct Hok as [_ Hkeys]. cbn [expr_items].
      rewrite (ParserRoundTrip.rec_items_map is_printable is_gext set_order print_ip extra).
      split; [|starts_x]. intros c Hc. cbn [app]. lexk_go.
      apply lexk_commas; [|reflexivity]. intros x Hx c' Hc'. apply in_map_iff in Hx. destruct Hx as ([k v] & <- & Hkv).
      cbn [fst snd]. rewrite Forall_forall in IH. rewrite forallb_forall in Hall, Hkeys.
      pose proof (good_child extra PUnary v _ (IH _ Hkv (Hall _ Hkv))) as Hg. pose proof (Hkeys _ Hkv) as Hk. cbn [fst] in Hk.
      cbn [app]. apply lexk_SI; [exact Hk|]. unfold op. apply lexk_T_i; [lexm | apply sepb_op_starts; exact (proj2 Hg) |].
      apply (proj1 Hg). exact Hc'.
    - (* ECall *) rewrite ParserRoundTrip.expr_ok_call in Hok. cbn [expr_items].
      destruct (ext_lookup n) as [[ar [|]]|] eqn:El; [| |discriminate Hok].
      + rewrite (is_method_true n ar El). apply andb_true_iff in Hok. destruct Hok as [Hok Hall].
        apply andb_true_iff in Hok. destruct Hok as [Hok Hne]. apply andb_true_iff in Hok. destruct Hok as [_ Hn].
        destruct args as [|a rest]; [discriminate Hne|].
        cbn [forallb] in Hall. apply andb_true_iff in Hall. destruct Hall as [Ha Hrest].
        inversion IH as [|a' rest' IHa IHrest]; subst.
        rewrite (ParserRoundTrip.args_items_map is_printable is_gext set_order print_ip extra).
        pose proof (good_child extra PAccess a _ (IHa Ha)) as Ga.
        split; [|apply starts_app; exact (proj2 Ga)]. intros c Hc. lexk_go.
        apply (lexk_args PAccess rest IHrest Hrest). reflexivity.
      + rewrite (is_method_false n ar El). apply andb_true_iff in Hok. destruct Hok as [Hn Hall].
        rewrite (ParserRoundTrip.args_items_map is_printable is_gext set_order print_ip extra).
        unfold path_items. rewrite (ParserRoundTrip.split_path_ident n Hn). cbn [path_items_of].
        destruct (can_ident_first n Hn) as (b0 & t0 & E0 & Hb1 & Hb2).
        split; [|rewrite E0; cbn [app]; apply starts_T; assumption]. intros c Hc. cbn [app]. lexk_go.
        apply (lexk_args PAccess args IH Hall). reflexivity.
    - (* EPartialError *) discriminate Hok.
  Qed.
End Printer.

Lemma ctx_ok_eof : ctx_ok rune_eof.
Proof. reflexivity. Qed.

Lemma reserved_shape : forall k, is_reserved k = true -> ident_shape k.
Proof.
  intros k H. unfold is_reserved in H. apply existsb_exists in H. destruct H as (w & Hw & E).
  apply str_eqb_eq in E. subst k. unfold reserved in Hw. cbn [In] in Hw.
  repeat (destruct Hw as [<- | Hw]; [apply ident_shapeb_ok; vm_compute; reflexivity|]). destruct Hw.
Qed.

Lemma lexk_flat_map : forall (A : Type) st (g : A -> list item) l, (forall x, In x l -> forall c, lexk st (g x) c) ->
  forall c, lexk st (flat_map g l) c.
Proof.
  intros A st g l. induction l as [|x l IH]; intros H c; [exact I|]. cbn [flat_map].
  apply lexk_app_i; [apply H; left; reflexivity | apply IH; intros y Hy; apply H; right; exact Hy].
Qed.

Lemma forallb_map' : forall (A B : Type) (f : A -> B) (p : B -> bool) l, forallb p (map f l) = forallb (fun x => p (f x)) l.
Proof. intros A B f p l. induction l as [|x l IH]; [reflexivity|]. cbn [map forallb]. rewrite IH. reflexivity. Qed.

Ltac lexk_step2 :=
  match goal with
  | |- lexk _ [] _ => exact I
  | |- lexk _ (T _ _ :: _) _ => apply lexk_T_i; [try lexm | try reflexivity | ]
  | |- lexk _ (Sp _ :: _) _ => apply lexk_Sp_i; [try wsm | ]
  | H : good ?X |- lexk _ (?X ++ _) _ => apply lexk_app_i; [apply lexk_weaken; apply (proj1 H); try reflexivity | ]
  | H : good ?X |- lexk _ ?X _ => apply lexk_weaken; apply (proj1 H); try reflexivity
  | |- lexk _ (_ ++ _) _ => apply lexk_app_i
  end.
Ltac lexk_go2 := repeat first [lexk_step2 | progress unfold op, kw, idt, sp, nl, indent].

Section Policies.
  Variables (is_printable is_gext : Z -> bool) (set_order : list value -> list nat) (print_ip : bool -> Z -> Z -> str) (extra : expr -> bool).
  Hypothesis print_ip_plain : forall v6 a p, Forall (fun c => 32 <= c < 127 /\ c <> 34 /\ c <> 92) (print_ip v6 a p).

  Notation EIx := (expr_items is_printable is_gext set_order print_ip).
  Notation SI := (str_item is_printable is_gext).
  Notation SIx := (scope_items is_printable is_gext set_order print_ip).
  Notation PI := (policy_items is_printable is_gext set_order print_ip extra).
  Notation eok := (expr_ok set_order).

  Theorem lex_render_expr : forall e, expr_ok set_order e = true ->
    exists f0, forall f, (f0 <= f)%nat -> exists ts,
      spec_tokenize f (render (expr_items is_printable is_gext set_order print_ip extra e)) = Some (Some ts) /\
      map strip ts = toks (expr_items is_printable is_gext set_order print_ip extra e) ++ [(TEOF, [])].
  Proof.
    intros e Hok. apply lex_render_strict.
    apply (proj1 (expr_good is_printable is_gext set_order print_ip extra print_ip_plain e Hok)). exact ctx_ok_eof.
  Qed.

  Lemma uid_expr_ok : forall u : uid, uid_ok u = true -> eok (ELit (VEntity (fst u) (snd u))) = true.
  Proof. intros u H. exact H. Qed.

  Lemma scope_expr_ok : forall x s, scope_ok s = true ->
    match scope_expr x s with Some e => eok e = true | None => True end.
  Proof.
    intros x s H. destruct s as [|u|u|us|ty|ty u]; cbn [scope_expr scope_ok] in *.
    - exact I.
    - cbn [expr_ok]. exact H.
    - cbn [expr_ok]. exact H.
    - change (eok (EIn (EVar x) (ESet (map (fun u : uid => ELit (VEntity (fst u) (snd u))) us))))
        with (true && eok (ESet (map (fun u : uid => ELit (VEntity (fst u) (snd u))) us))).
      rewrite ParserRoundTrip.expr_ok_set, forallb_map'. exact H.
    - cbn [expr_ok]. exact H.
    - cbn [expr_ok]. apply andb_true_iff in H. destruct H as [H1 H2]. cbn [andb]. rewrite H1. exact H2.
  Qed.

  Lemma good_var_item : forall x, good [var_item x].
  Proof.
    intros x. destruct x; (split; [intros c Hc; unfold var_item; lexk_go; apply sepb_ident_ctx; exact Hc | starts_x]).
  Qed.

  Lemma good_scope : forall x s, scope_ok s = true -> good (SIx x s).
  Proof.
    intros x s H. unfold scope_items. pose proof (scope_expr_ok x s H) as He.
    destruct (scope_expr x s) as [e|]; [|apply good_var_item].
    apply (expr_good is_printable is_gext set_order print_ip no_extra print_ip_plain e He).
  Qed.

  Lemma principal_scope_ok_ok : forall s, principal_scope_ok s = true -> scope_ok s = true.
  Proof. intros s H. destruct s; try exact H. discriminate H. Qed.
  Lemma action_scope_ok_ok : forall s, action_scope_ok s = true -> scope_ok s = true.
  Proof. intros s H. destruct s; try exact H; discriminate H. Qed.

  Definition scope_part (p : policy) : list item :=
    match p_principal p, p_action p, p_resource p with
    | SAll, SAll, SAll => [op "("; sp; idt "principal"; op ","; sp; idt "action"; op ","; sp; idt "resource"; sp; op ")"]
    | sp_, sa, sr => [op "("; indent] ++ SIx VPrincipal sp_ ++ [op ","; indent] ++ SIx VAction sa
                     ++ [op ","; indent] ++ SIx VResource sr ++ [nl; op ")"]
    end.

  Lemma scope_part_cases : forall p,
    scope_part p = [op "("; sp; idt "principal"; op ","; sp; idt "action"; op ","; sp; idt "resource"; sp; op ")"] \/
    scope_part p = [op "("; indent] ++ SIx VPrincipal (p_principal p) ++ [op ","; indent] ++ SIx VAction (p_action p)
                     ++ [op ","; indent] ++ SIx VResource (p_resource p) ++ [nl; op ")"].
  Proof.
    intros p. unfold scope_part.
    destruct (p_principal p); [destruct (p_action p); [destruct (p_resource p); [left; reflexivity|..]|..]|..]; right; reflexivity.
  Qed.

  Lemma policy_items_eq : forall annots p,
    PI annots p =
    flat_map (fun kv : str * str => [op "@"; T TIdent (fst kv); op "("; SI (snd kv); op ")"; nl]) annots
    ++ [idt (if p_effect p then "permit" else "forbid"); sp] ++ scope_part p
    ++ flat_map (fun c : bool * expr => [nl; idt (if fst c then "when" else "unless"); sp; op "{"; sp] ++ EIx extra (snd c) ++ [sp; op "}"]) (p_conds p)
    ++ [op ";"].
  Proof. reflexivity. Qed.

  Lemma policy_lexk : forall st annots p c, policy_ok set_order annots p = true ->
    (st = true -> forallb (fun kv : str * str => negb (is_reserved (fst kv))) annots = true) ->
    lexk st (PI annots p) c.
  Proof.
    intros st annots p c Hok Hst. rewrite policy_items_eq.
    unfold policy_ok in Hok. apply andb_true_iff in Hok. destruct Hok as [Hok Hconds]. apply andb_true_iff in Hok. destruct Hok as [Hok Hs3].
    apply andb_true_iff in Hok. destruct Hok as [Hok Hs2]. apply andb_true_iff in Hok. destruct Hok as [Han Hs1].
    unfold annots_ok in Han. apply andb_true_iff in Han. destruct Han as [_ Hvals].
    apply lexk_app_i.
    { (* annotations *)
      apply lexk_flat_map. intros [k v] Hkv c'. cbn [fst snd].
      rewrite forallb_forall in Hvals. specialize (Hvals _ Hkv). cbn [fst snd] in Hvals.
      apply andb_true_iff in Hvals. destruct Hvals as [Hk Hv].
      assert (Lk : lexeme st TIdent k).
      { split.
        - apply orb_true_iff in Hk. destruct Hk as [Hk | Hk]; [|apply reserved_shape; exact Hk].
          destruct (ParserRoundTrip.can_ident_inv k Hk) as (c0 & r0 & -> & _ & H1 & H2). split; assumption.
        - intros E. specialize (Hst E). rewrite forallb_forall in Hst. specialize (Hst _ Hkv). cbn [fst] in Hst.
          apply negb_true_iff in Hst. exact Hst. }
      pose proof (lexeme_quote_string is_printable is_gext st v Hv) as Lv.
      unfold str_item. lexk_go2. }
    apply lexk_app_i.
    { destruct (p_effect p); lexk_go2. }
    apply lexk_app_i.
    { (* scopes *)
      destruct (scope_part_cases p) as [-> | ->]; [lexk_go2|].
      pose proof (good_scope VPrincipal _ (principal_scope_ok_ok _ Hs1)) as G1.
      pose proof (good_scope VAction _ (action_scope_ok_ok _ Hs2)) as G2.
      pose proof (good_scope VResource _ (principal_scope_ok_ok _ Hs3)) as G3.
      cbn [app]. lexk_go2. }
    apply lexk_app_i; [|lexk_go2].
    (* conditions *)
    apply lexk_flat_map. intros [b e] Hbe c'. cbn [fst snd].
    rewrite forallb_forall in Hconds. specialize (Hconds _ Hbe). cbn [snd] in Hconds.
    pose proof (expr_good is_printable is_gext set_order print_ip extra print_ip_plain e Hconds) as Ge.
    cbn [app]. destruct b; lexk_go2.
  Qed.

  (* Without a side condition the exact statement is FALSE: annots_ok allows reserved words as annotation keys; the printer
     lists such a key as an identifier token while the tokenizer reports a reserved-word token (see
     [lex_render_policy_counterexample] below).  Exact statement under the side condition "no annotation key is a reserved
     word"; the general statement is [lex_render_policy_gen]: equal up to [retype]. *)
  Theorem lex_render_policy : forall annots p, policy_ok set_order annots p = true ->
    forallb (fun kv : str * str => negb (is_reserved (fst kv))) annots = true ->
    exists f0, forall f, (f0 <= f)%nat -> exists ts,
      spec_tokenize f (render (policy_items is_printable is_gext set_order print_ip extra annots p)) = Some (Some ts) /\
      map strip ts = toks (policy_items is_printable is_gext set_order print_ip extra annots p) ++ [(TEOF, [])].
  Proof.
    intros annots p Hok Hres. apply lex_render_strict. apply policy_lexk; [exact Hok | intros _; exact Hres].
  Qed.

  Theorem lex_render_policy_gen : forall annots p, policy_ok set_order annots p = true ->
    exists f0, forall f, (f0 <= f)%nat -> exists ts,
      spec_tokenize f (render (policy_items is_printable is_gext set_order print_ip extra annots p)) = Some (Some ts) /\
      map strip ts = map retype (toks (policy_items is_printable is_gext set_order print_ip extra annots p)) ++ [(TEOF, [])].
  Proof.
    intros annots p Hok. apply (lex_render_generic false). apply policy_lexk; [exact Hok | discriminate].
  Qed.

  (* ---- documents: policies joined by a white-space separator (possibly empty), with optional leading / trailing white space ---- *)
  Fixpoint doc_items (sep : str) (ps : list (list (str * str) * policy)) : list item :=
    match ps with
    | [] => []
    | ap :: r => PI (fst ap) (snd ap) ++ match r with [] => [] | _ => Sp sep :: doc_items sep r end
    end.

  Lemma doc_items_toks : forall sep ps,
    toks (doc_items sep ps) = flat_map (fun ap => toks (PI (fst ap) (snd ap))) ps.
  Proof.
    intros sep. induction ps as [|ap r IH]; [reflexivity|]. cbn [doc_items flat_map]. rewrite toks_app. f_equal.
    destruct r as [|ap' r']; [reflexivity|]. rewrite toks_cons_Sp. exact IH.
  Qed.

  Lemma doc_lexk : forall st sep ps c, all_ws sep ->
    Forall (fun ap => policy_ok set_order (fst ap) (snd ap) = true) ps ->
    (st = true -> Forall (fun ap => forallb (fun kv : str * str => negb (is_reserved (fst kv))) (fst ap) = true) ps) ->
    lexk st (doc_items sep ps) c.
  Proof.
    intros st sep ps c Hsep Hok Hst. induction Hok as [|ap r Hap Hr IH]; [exact I|].
    cbn [doc_items]. apply lexk_app_i.
    - apply policy_lexk; [exact Hap|]. intros E. specialize (Hst E). inversion Hst; assumption.
    - destruct r as [|ap' r']; [exact I|]. apply lexk_Sp_i; [exact Hsep|]. apply IH.
      intros E. specialize (Hst E). inversion Hst; assumption.
  Qed.

  Theorem lex_render_document : forall sep ps, all_ws sep ->
    Forall (fun ap => policy_ok set_order (fst ap) (snd ap) = true) ps ->
    Forall (fun ap => forallb (fun kv : str * str => negb (is_reserved (fst kv))) (fst ap) = true) ps ->
    exists f0, forall f, (f0 <= f)%nat -> exists ts,
      spec_tokenize f (render (doc_items sep ps)) = Some (Some ts) /\
      map strip ts = flat_map (fun ap => toks (policy_items is_printable is_gext set_order print_ip extra (fst ap) (snd ap))) ps
                     ++ [(TEOF, [])].
  Proof.
    intros sep ps Hsep Hok Hres. rewrite <- (doc_items_toks sep). apply lex_render_strict.
    apply doc_lexk; [exact Hsep | exact Hok | intros _; exact Hres].
  Qed.

  Theorem lex_render_document_gen : forall sep ps, all_ws sep ->
    Forall (fun ap => policy_ok set_order (fst ap) (snd ap) = true) ps ->
    exists f0, forall f, (f0 <= f)%nat -> exists ts,
      spec_tokenize f (render (doc_items sep ps)) = Some (Some ts) /\
      map strip ts = map retype (flat_map (fun ap => toks (policy_items is_printable is_gext set_order print_ip extra (fst ap) (snd ap))) ps)
                     ++ [(TEOF, [])].
  Proof.
    intros sep ps Hsep Hok. rewrite <- (doc_items_toks sep). apply (lex_render_generic false).
    apply doc_lexk; [exact Hsep | exact Hok | discriminate].
  Qed.

  (* the same with white space before the first and after the last policy *)
  Theorem lex_render_document_ws : forall lead sep trail ps, all_ws lead -> all_ws sep -> all_ws trail ->
    Forall (fun ap => policy_ok set_order (fst ap) (snd ap) = true) ps ->
    Forall (fun ap => forallb (fun kv : str * str => negb (is_reserved (fst kv))) (fst ap) = true) ps ->
    exists f0, forall f, (f0 <= f)%nat -> exists ts,
      spec_tokenize f (lead ++ render (doc_items sep ps) ++ trail) = Some (Some ts) /\
      map strip ts = flat_map (fun ap => toks (policy_items is_printable is_gext set_order print_ip extra (fst ap) (snd ap))) ps
                     ++ [(TEOF, [])].
  Proof.
    intros lead sep trail ps Hlead Hsep Htrail Hok Hres. rewrite <- (doc_items_toks sep).
    assert (L : lexk true (Sp lead :: doc_items sep ps ++ [Sp trail]) rune_eof).
    { apply lexk_Sp_i; [exact Hlead|]. apply lexk_app_i; [|apply lexk_Sp_i; [exact Htrail | exact I]].
      apply doc_lexk; [exact Hsep | exact Hok | intros _; exact Hres]. }
    destruct (lex_render_strict _ L) as [f0 H0]. exists f0. intros f Hf. destruct (H0 f Hf) as (ts & E & Ets).
    exists ts. rewrite render_cons_Sp, render_app in E. cbn [render flat_map] in E. rewrite app_nil_r in E.
    split; [exact E|]. rewrite toks_cons_Sp, toks_app in Ets. cbn [toks flat_map] in Ets. rewrite app_nil_r in Ets. exact Ets.
  Qed.
End Policies.

(* the counterexample to the unconditional policy statement: the annotation key "if" *)
Definition cex_policy : policy := {| p_effect := true; p_principal := SAll; p_action := SAll; p_resource := SAll; p_conds := [] |}.
Definition cex_items : list item :=
  policy_items (fun _ => true) (fun _ => false) (fun l => seq 0 (length l)) (fun _ _ _ => []) (fun _ => false) [(s_of "if", s_of "x")] cex_policy.

Example lex_render_policy_counterexample :
  policy_ok (fun l => seq 0 (length l)) [(s_of "if", s_of "x")] cex_policy = true /\
  exists ts, spec_tokenize 100 (render cex_items) = Some (Some ts) /\
    nth 1 (map strip ts) (TEOF, []) = (TReserved, s_of "if") /\ nth 1 (toks cex_items) (TEOF, []) = (TIdent, s_of "if").
Proof.
  split; [vm_compute; reflexivity|]. eexists. split; [vm_compute; reflexivity|]. split; vm_compute; reflexivity.
Qed.

(* ------------------------------------------------------------------------------------------------------------- *)
(* 7. Positions do not matter to the parser                                                                       *)
(* ------------------------------------------------------------------------------------------------------------- *)
(* a token with its position erased *)
Definition nrm (t : token) : token := mk (strip t).

Lemma peek_map : forall ts, peek (map nrm ts) = nrm (peek ts).
Proof. intros [|t ts]; reflexivity. Qed.
Lemma adv_map : forall ts, adv (map nrm ts) = map nrm (adv ts).
Proof. intros [|a [|b r]]; reflexivity. Qed.
Lemma tx_nrm : forall t s, tx (nrm t) s = tx t s.
Proof. reflexivity. Qed.
Lemma is_ident_nrm : forall t, is_ident (nrm t) = is_ident t.
Proof. reflexivity. Qed.
Lemma is_int_nrm : forall t, is_int (nrm t) = is_int t.
Proof. reflexivity. Qed.
Lemma is_string_nrm : forall t, is_string (nrm t) = is_string t.
Proof. reflexivity. Qed.
Lemma is_reserved_nrm : forall t, is_reserved_tok (nrm t) = is_reserved_tok t.
Proof. reflexivity. Qed.
Lemma t_text_nrm : forall t, t_text (nrm t) = t_text t.
Proof. reflexivity. Qed.
Lemma t_type_nrm : forall t, t_type (nrm t) = t_type t.
Proof. reflexivity. Qed.
Lemma relop_nrm : forall t, relop (nrm t) = relop t.
Proof. reflexivity. Qed.
Lemma exact_map : forall ts s, exact (map nrm ts) s = option_map (map nrm) (exact ts s).
Proof. intros ts s. unfold exact. rewrite peek_map, tx_nrm, adv_map. destruct (tx (peek ts) s); reflexivity. Qed.

Definition emap {A : Type} (x : pres A) : pres A :=
  match x with POk a r => POk a (map nrm r) | PErr => PErr | PFuel => PFuel end.

Definition umap (x : list bool * list token) : list bool * list token := (fst x, map nrm (snd x)).

Lemma unary_ops_map : forall f ts acc, unary_ops f (map nrm ts) acc = option_map umap (unary_ops f ts acc).
Proof.
  induction f as [|f IH]; intros ts acc; [reflexivity|]. cbn [unary_ops]. cbv zeta.
  rewrite peek_map, !tx_nrm, adv_map, !IH.
  destruct (tx (peek ts) "-"); [reflexivity|]. destruct (tx (peek ts) "!"); reflexivity.
Qed.

Ltac par_rw :=
  repeat first
    [ rewrite peek_map | rewrite adv_map | rewrite tx_nrm | rewrite is_ident_nrm | rewrite is_int_nrm | rewrite is_string_nrm
    | rewrite is_reserved_nrm | rewrite t_text_nrm | rewrite t_type_nrm | rewrite relop_nrm | rewrite exact_map
    | rewrite map_length | rewrite unary_ops_map ].

Ltac par_ih := idtac.

Ltac par_norm ih := repeat (progress (cbn [emap option_map umap fst snd]; par_rw; ih)).

Ltac par_with ih :=
  repeat (par_norm ih;
    match goal with
    | |- ?x = ?x => reflexivity
    | |- context [match ?c with _ => _ end] => is_var c; destruct c
    | |- context [if ?c then _ else _] => destruct c
    | |- context [emap ?c] =>
        lazymatch c with
        | (match _ with _ => _ end) => fail
        | (if _ then _ else _) => fail
        | POk _ _ => fail | PErr => fail | PFuel => fail
        | _ => destruct c
        end
    | |- context [option_map _ ?c] => destruct c
    | |- context [match ?c with _ => _ end] =>
        lazymatch c with
        | emap _ => fail
        | option_map _ _ => fail
        | _ => destruct c
        end
    end);
  par_norm ih; try reflexivity.

Lemma entity_rest_map : forall f ty ts, entity_rest f ty (map nrm ts) = emap (entity_rest f ty ts).
Proof.
  induction f as [|f IH]; intros ty ts; [reflexivity|]. cbn [entity_rest]. cbv zeta.
  par_with ltac:(rewrite ?IH).
Qed.

Lemma p_entity_map : forall f ts, p_entity f (map nrm ts) = emap (p_entity f ts).
Proof. intros f ts. unfold p_entity. cbv zeta. par_with ltac:(rewrite ?entity_rest_map). Qed.

Lemma path_rest_map : forall f ty ts, path_rest f ty (map nrm ts) = emap (path_rest f ty ts).
Proof.
  induction f as [|f IH]; intros ty ts; [reflexivity|]. cbn [path_rest]. cbv zeta.
  par_with ltac:(rewrite ?IH).
Qed.

Lemma p_path_map : forall f ts, p_path f (map nrm ts) = emap (p_path f ts).
Proof. intros f ts. unfold p_path. cbv zeta. par_with ltac:(rewrite ?path_rest_map). Qed.

Lemma p_entlist_map : forall f ts acc, p_entlist f (map nrm ts) acc = emap (p_entlist f ts acc).
Proof.
  induction f as [|f IH]; intros ts acc; [reflexivity|]. cbn [p_entlist].
  par_with ltac:(rewrite ?IH, ?p_entity_map).
Qed.

Lemma p_scope_pr_map : forall f ts, p_scope_pr f (map nrm ts) = emap (p_scope_pr f ts).
Proof. intros f ts. unfold p_scope_pr. cbv zeta. par_with ltac:(rewrite ?p_entity_map, ?p_path_map). Qed.

Lemma p_scope_action_map : forall f ts, p_scope_action f (map nrm ts) = emap (p_scope_action f ts).
Proof. intros f ts. unfold p_scope_action. cbv zeta. par_with ltac:(rewrite ?p_entity_map, ?p_entlist_map). Qed.
Lemma expr_block_map : forall f,
  (forall ts, p_expression f (map nrm ts) = emap (p_expression f ts)) /\
  (forall ts, p_or f (map nrm ts) = emap (p_or f ts)) /\
  (forall l ts, p_or_loop f l (map nrm ts) = emap (p_or_loop f l ts)) /\
  (forall ts, p_and f (map nrm ts) = emap (p_and f ts)) /\
  (forall l ts, p_and_loop f l (map nrm ts) = emap (p_and_loop f l ts)) /\
  (forall ts, p_relation f (map nrm ts) = emap (p_relation f ts)) /\
  (forall res cur ts, p_has_chain f res cur (map nrm ts) = emap (p_has_chain f res cur ts)) /\
  (forall ts, p_add f (map nrm ts) = emap (p_add f ts)) /\
  (forall l ts, p_add_loop f l (map nrm ts) = emap (p_add_loop f l ts)) /\
  (forall ts, p_mult f (map nrm ts) = emap (p_mult f ts)) /\
  (forall l ts, p_mult_loop f l (map nrm ts) = emap (p_mult_loop f l ts)) /\
  (forall ts, p_unary f (map nrm ts) = emap (p_unary f ts)) /\
  (forall ts, p_member f (map nrm ts) = emap (p_member f ts)) /\
  (forall l ts, p_access_loop f l (map nrm ts) = emap (p_access_loop f l ts)) /\
  (forall ts, p_primary f (map nrm ts) = emap (p_primary f ts)) /\
  (forall pre ts, p_entity_or_extfun f pre (map nrm ts) = emap (p_entity_or_extfun f pre ts)) /\
  (forall close ts acc, p_expressions f close (map nrm ts) acc = emap (p_expressions f close ts acc)) /\
  (forall ts acc, p_record f (map nrm ts) acc = emap (p_record f ts acc)).
Proof.
  induction f as [|f IH].
  - repeat match goal with |- _ /\ _ => split end; intros; reflexivity.
  - destruct IH as (IH1 & IH2 & IH3 & IH4 & IH5 & IH6 & IH7 & IH8 & IH9 & IH10 & IH11 & IH12 & IH13 & IH14 & IH15 & IH16 & IH17 & IH18).
    pose proof (p_path_map f) as Hpath.
    assert (IHS : True) by exact I.
    split; [intros; rewrite !p_expression_S; cbv zeta; par_with ltac:(rewrite ?IH1, ?IH2, ?IH3, ?IH4, ?IH5, ?IH6, ?IH7, ?IH8, ?IH9, ?IH10, ?IH11, ?IH12, ?IH13, ?IH14, ?IH15, ?IH16, ?IH17, ?IH18, ?Hpath)|].
    split; [intros; rewrite !p_or_S; cbv zeta; par_with ltac:(rewrite ?IH1, ?IH2, ?IH3, ?IH4, ?IH5, ?IH6, ?IH7, ?IH8, ?IH9, ?IH10, ?IH11, ?IH12, ?IH13, ?IH14, ?IH15, ?IH16, ?IH17, ?IH18, ?Hpath)|].
    split; [intros; rewrite !p_or_loop_S; cbv zeta; par_with ltac:(rewrite ?IH1, ?IH2, ?IH3, ?IH4, ?IH5, ?IH6, ?IH7, ?IH8, ?IH9, ?IH10, ?IH11, ?IH12, ?IH13, ?IH14, ?IH15, ?IH16, ?IH17, ?IH18, ?Hpath)|].
    split; [intros; rewrite !p_and_S; cbv zeta; par_with ltac:(rewrite ?IH1, ?IH2, ?IH3, ?IH4, ?IH5, ?IH6, ?IH7, ?IH8, ?IH9, ?IH10, ?IH11, ?IH12, ?IH13, ?IH14, ?IH15, ?IH16, ?IH17, ?IH18, ?Hpath)|].
    split; [intros; rewrite !p_and_loop_S; cbv zeta; par_with ltac:(rewrite ?IH1, ?IH2, ?IH3, ?IH4, ?IH5, ?IH6, ?IH7, ?IH8, ?IH9, ?IH10, ?IH11, ?IH12, ?IH13, ?IH14, ?IH15, ?IH16, ?IH17, ?IH18, ?Hpath)|].
    split; [intros; rewrite !p_relation_S; cbv zeta; par_with ltac:(rewrite ?IH1, ?IH2, ?IH3, ?IH4, ?IH5, ?IH6, ?IH7, ?IH8, ?IH9, ?IH10, ?IH11, ?IH12, ?IH13, ?IH14, ?IH15, ?IH16, ?IH17, ?IH18, ?Hpath)|].
    split; [intros; rewrite !p_has_chain_S; cbv zeta; par_with ltac:(rewrite ?IH1, ?IH2, ?IH3, ?IH4, ?IH5, ?IH6, ?IH7, ?IH8, ?IH9, ?IH10, ?IH11, ?IH12, ?IH13, ?IH14, ?IH15, ?IH16, ?IH17, ?IH18, ?Hpath)|].
    split; [intros; rewrite !p_add_S; cbv zeta; par_with ltac:(rewrite ?IH1, ?IH2, ?IH3, ?IH4, ?IH5, ?IH6, ?IH7, ?IH8, ?IH9, ?IH10, ?IH11, ?IH12, ?IH13, ?IH14, ?IH15, ?IH16, ?IH17, ?IH18, ?Hpath)|].
    split; [intros; rewrite !p_add_loop_S; cbv zeta; par_with ltac:(rewrite ?IH1, ?IH2, ?IH3, ?IH4, ?IH5, ?IH6, ?IH7, ?IH8, ?IH9, ?IH10, ?IH11, ?IH12, ?IH13, ?IH14, ?IH15, ?IH16, ?IH17, ?IH18, ?Hpath)|].
    split; [intros; rewrite !p_mult_S; cbv zeta; par_with ltac:(rewrite ?IH1, ?IH2, ?IH3, ?IH4, ?IH5, ?IH6, ?IH7, ?IH8, ?IH9, ?IH10, ?IH11, ?IH12, ?IH13, ?IH14, ?IH15, ?IH16, ?IH17, ?IH18, ?Hpath)|].
    split; [intros; rewrite !p_mult_loop_S; cbv zeta; par_with ltac:(rewrite ?IH1, ?IH2, ?IH3, ?IH4, ?IH5, ?IH6, ?IH7, ?IH8, ?IH9, ?IH10, ?IH11, ?IH12, ?IH13, ?IH14, ?IH15, ?IH16, ?IH17, ?IH18, ?Hpath)|].
    split; [intros; rewrite !p_unary_S; cbv zeta; par_with ltac:(rewrite ?IH1, ?IH2, ?IH3, ?IH4, ?IH5, ?IH6, ?IH7, ?IH8, ?IH9, ?IH10, ?IH11, ?IH12, ?IH13, ?IH14, ?IH15, ?IH16, ?IH17, ?IH18, ?Hpath)|].
    split; [intros; rewrite !p_member_S; cbv zeta; par_with ltac:(rewrite ?IH1, ?IH2, ?IH3, ?IH4, ?IH5, ?IH6, ?IH7, ?IH8, ?IH9, ?IH10, ?IH11, ?IH12, ?IH13, ?IH14, ?IH15, ?IH16, ?IH17, ?IH18, ?Hpath)|].
    split; [intros; rewrite !p_access_loop_S; cbv zeta; par_with ltac:(rewrite ?IH1, ?IH2, ?IH3, ?IH4, ?IH5, ?IH6, ?IH7, ?IH8, ?IH9, ?IH10, ?IH11, ?IH12, ?IH13, ?IH14, ?IH15, ?IH16, ?IH17, ?IH18, ?Hpath)|].
    split; [intros; rewrite !p_primary_S; cbv zeta; par_with ltac:(rewrite ?IH1, ?IH2, ?IH3, ?IH4, ?IH5, ?IH6, ?IH7, ?IH8, ?IH9, ?IH10, ?IH11, ?IH12, ?IH13, ?IH14, ?IH15, ?IH16, ?IH17, ?IH18, ?Hpath)|].
    split; [intros; rewrite !p_entity_or_extfun_S; cbv zeta; par_with ltac:(rewrite ?IH1, ?IH2, ?IH3, ?IH4, ?IH5, ?IH6, ?IH7, ?IH8, ?IH9, ?IH10, ?IH11, ?IH12, ?IH13, ?IH14, ?IH15, ?IH16, ?IH17, ?IH18, ?Hpath)|].
    split; [intros; rewrite !p_expressions_S; cbv zeta; par_with ltac:(rewrite ?IH1, ?IH2, ?IH3, ?IH4, ?IH5, ?IH6, ?IH7, ?IH8, ?IH9, ?IH10, ?IH11, ?IH12, ?IH13, ?IH14, ?IH15, ?IH16, ?IH17, ?IH18, ?Hpath)|].
    intros; rewrite !p_record_S; cbv zeta; par_with ltac:(rewrite ?IH1, ?IH2, ?IH3, ?IH4, ?IH5, ?IH6, ?IH7, ?IH8, ?IH9, ?IH10, ?IH11, ?IH12, ?IH13, ?IH14, ?IH15, ?IH16, ?IH17, ?IH18, ?Hpath).
Qed.

Lemma p_expression_map : forall f ts, p_expression f (map nrm ts) = emap (p_expression f ts).
Proof. intros f. apply (expr_block_map f). Qed.

Lemma p_annotations_map : forall f ts acc, p_annotations f (map nrm ts) acc = emap (p_annotations f ts acc).
Proof.
  induction f as [|f IH]; intros ts acc; [reflexivity|]. cbn [p_annotations]. cbv zeta.
  par_with ltac:(rewrite ?IH).
Qed.

Lemma p_conditions_map : forall f ts acc, p_conditions f (map nrm ts) acc = emap (p_conditions f ts acc).
Proof.
  induction f as [|f IH]; intros ts acc; [reflexivity|]. cbn [p_conditions]. cbv zeta.
  par_with ltac:(rewrite ?IH, ?p_expression_map).
Qed.

(* a parsed policy with its position erased *)
Definition zp (pp : ppolicy) : ppolicy := {| pp_annots := pp_annots pp; pp_pos := (0, 0, 0); pp_policy := pp_policy pp |}.
Definition emap_p (x : pres ppolicy) : pres ppolicy :=
  match x with POk a r => POk (zp a) (map nrm r) | PErr => PErr | PFuel => PFuel end.
Definition emap_l (x : pres (list ppolicy)) : pres (list ppolicy) :=
  match x with POk a r => POk (map zp a) (map nrm r) | PErr => PErr | PFuel => PFuel end.

Lemma p_policy_map : forall f ts, p_policy f (map nrm ts) = emap_p (p_policy f ts).
Proof.
  intros f ts. unfold p_policy, bind, bexact. cbv zeta.
  repeat (par_norm ltac:(rewrite ?p_annotations_map, ?p_scope_pr_map, ?p_scope_action_map, ?p_conditions_map);
    match goal with
    | |- ?x = ?x => reflexivity
    | |- context [match ?c with _ => _ end] => is_var c; destruct c
    | |- context [if ?c then _ else _] => destruct c
    | |- context [emap ?c] =>
        lazymatch c with
        | (match _ with _ => _ end) => fail
        | (if _ then _ else _) => fail
        | POk _ _ => fail | PErr => fail | PFuel => fail
        | _ => destruct c
        end
    | |- context [option_map _ ?c] => destruct c
    end); cbn [emap emap_p option_map]; try reflexivity.
Qed.

Lemma p_policies_map : forall f ts acc, p_policies f (map nrm ts) (map zp acc) = emap_l (p_policies f ts acc).
Proof.
  induction f as [|f IH]; intros ts acc; [reflexivity|]. cbn [p_policies]. rewrite peek_map, t_type_nrm.
  assert (H : bind (p_policy (S f) (map nrm ts)) (fun p r => p_policies f r (map zp acc ++ [p]))
              = emap_l (bind (p_policy (S f) ts) (fun p r => p_policies f r (acc ++ [p])))).
  { rewrite p_policy_map. unfold bind. destruct (p_policy (S f) ts) as [a r| |]; cbn [emap_p emap_l]; [|reflexivity..].
    rewrite <- IH, map_app. reflexivity. }
  destruct (t_type (peek ts)); first [reflexivity | exact H].
Qed.

Lemma map_mk_flat_map : forall (A : Type) (g : A -> list (toktype * str)) l,
  map mk (flat_map g l) = flat_map (fun x => map mk (g x)) l.
Proof. intros A g l. induction l as [|x l IH]; [reflexivity|]. cbn [flat_map]. rewrite map_app, IH. reflexivity. Qed.

Section TextRoundTrip.
  Variables (is_printable is_gext : Z -> bool) (set_order : list value -> list nat) (print_ip : bool -> Z -> Z -> str) (extra : expr -> bool).
  Hypothesis print_ip_plain : forall v6 a p, Forall (fun c => 32 <= c < 127 /\ c <> 34 /\ c <> 92) (print_ip v6 a p).

  (* print to bytes, tokenize the bytes, parse the tokens: the policies come back (up to the text normal form), whatever the
     white-space separator.  Side condition: no annotation key is a reserved word (see lex_render_policy). *)
  Theorem text_roundtrip_document : forall sep ps, all_ws sep ->
    Forall (fun ap => policy_ok set_order (fst ap) (snd ap) = true) ps ->
    Forall (fun ap => forallb (fun kv : str * str => negb (is_reserved (fst kv))) (fst ap) = true) ps ->
    exists f0, forall f, (f0 <= f)%nat -> exists ts,
      spec_tokenize f (render (doc_items is_printable is_gext set_order print_ip extra sep ps)) = Some (Some ts) /\
      exists res last, p_policies f ts [] = POk res [last] /\ t_type last = TEOF /\
        map (fun pp => (pp_annots pp, pp_policy pp)) res = map (fun ap => (fst ap, norm_policy set_order print_ip (snd ap))) ps.
  Proof.
    intros sep ps Hsep Hok Hres.
    destruct (lex_render_document is_printable is_gext set_order print_ip extra print_ip_plain sep ps Hsep Hok Hres) as [f1 H1].
    destruct (ParserRoundTrip.parse_print_policies is_printable is_gext set_order print_ip extra print_ip_plain ps Hok) as [f2 H2].
    exists (f1 + f2)%nat. intros f Hf. destruct (H1 f ltac:(lia)) as (ts & Etok & Ets). exists ts. split; [exact Etok|].
    specialize (H2 f ltac:(lia)).
    assert (Hn : map nrm ts = ParserRoundTrip.doc_toks is_printable is_gext set_order print_ip extra ps).
    { unfold nrm. rewrite <- (map_map strip mk), Ets, map_app, map_mk_flat_map. reflexivity. }
    pose proof (p_policies_map f ts []) as Hp. cbn [map] in Hp. rewrite Hn, H2 in Hp.
    destruct (p_policies f ts []) as [res rest| |]; cbn [emap_l] in Hp; try discriminate Hp.
    injection Hp as Hres' Hrest.
    destruct rest as [|last [|x rest']]; try discriminate Hrest.
    exists res, last. split; [reflexivity|]. split.
    - assert (Hl : nrm last = eof_token) by (cbn [map] in Hrest; congruence). apply (f_equal t_type) in Hl. exact Hl.
    - apply (f_equal (map (fun pp => (pp_annots pp, pp_policy pp)))) in Hres'. rewrite !map_map in Hres'.
      cbn [zp pp_annots pp_policy ParserRoundTrip.doc_result] in Hres'. symmetry. exact Hres'.
  Qed.
End TextRoundTrip.

(* ---- the same without the side condition: reserved words as annotation keys ---- *)
(* the continuation of p_policy after the annotations *)
Definition pcont (fuel : nat) (first : token) (annots : list (str * str)) (r0 : list token) : pres ppolicy :=
  let t := peek r0 in
  let eff := if tx t "permit" then Some true else if tx t "forbid" then Some false else None in
  match eff with
  | None => PErr
  | Some effect =>
    bexact (adv r0) "(" (fun r1 =>
    bexact r1 "principal" (fun r2 =>
    bind (p_scope_pr fuel r2) (fun sp r3 =>
    bexact r3 "," (fun r4 =>
    bexact r4 "action" (fun r5 =>
    bind (p_scope_action fuel r5) (fun sa r6 =>
    bexact r6 "," (fun r7 =>
    bexact r7 "resource" (fun r8 =>
    bind (p_scope_pr fuel r8) (fun sr r9 =>
    let r10 := if tx (peek r9) "," then adv r9 else r9 in
    bexact r10 ")" (fun r11 =>
    bind (p_conditions fuel r11 []) (fun conds r12 =>
    bexact r12 ";" (fun r13 =>
    POk {| pp_annots := annots; pp_pos := (t_off first, t_line first, t_col first);
           pp_policy := {| p_effect := effect; p_principal := sp; p_action := sa; p_resource := sr; p_conds := conds |} |} r13))))))))))))
  end.

Lemma p_policy_cont : forall f ts, p_policy f ts = bind (p_annotations f ts []) (pcont f (peek ts)).
Proof. reflexivity. Qed.

Definition set_ann (first : token) (a : list (str * str)) (x : pres ppolicy) : pres ppolicy :=
  match x with
  | POk pp r => POk {| pp_annots := a; pp_pos := (t_off first, t_line first, t_col first); pp_policy := pp_policy pp |} r
  | PErr => PErr | PFuel => PFuel
  end.

Lemma pcont_annots : forall f first first' a r0, pcont f first a r0 = set_ann first a (pcont f first' [] r0).
Proof.
  intros f first first' a r0. unfold pcont, bind, bexact. cbv zeta.
  repeat match goal with
         | |- context [if ?c then _ else _] => destruct c
         | |- context [match ?c with _ => _ end] =>
             lazymatch c with
             | (match _ with _ => _ end) => fail
             | (if _ then _ else _) => fail
             | _ => destruct c
             end
         end; reflexivity.
Qed.

Lemma p_annotations_none : forall f R acc, tx (peek R) "@" = false -> p_annotations (S f) R acc = POk acc R.
Proof. intros f R acc H. cbn [p_annotations]. rewrite H. reflexivity. Qed.

Section TextRoundTripGen.
  Variables (is_printable is_gext : Z -> bool) (set_order : list value -> list nat) (print_ip : bool -> Z -> Z -> str) (extra : expr -> bool).
  Hypothesis print_ip_plain : forall v6 a p, Forall (fun c => 32 <= c < 127 /\ c <> 34 /\ c <> 92) (print_ip v6 a p).

  Notation PI := (policy_items is_printable is_gext set_order print_ip extra).
  Notation QS := (quote_string is_printable is_gext).

  Definition key_tok (k : str) : token := mk (retype (TIdent, k)).
  Definition ann_toks (kv : str * str) : list token :=
    [mk (TOperator, s_of "@"); key_tok (fst kv); mk (TOperator, s_of "("); mk (TString, QS (snd kv)); mk (TOperator, s_of ")")].
  Definition AT' (annots : list (str * str)) : list token := flat_map ann_toks annots.

  Lemma policy_items_split : forall annots p,
    PI annots p = flat_map (fun kv : str * str => [op "@"; T TIdent (fst kv); op "("; str_item is_printable is_gext (snd kv); op ")"; nl]) annots
                  ++ PI [] p.
  Proof. reflexivity. Qed.

  Lemma policy_ok_nil : forall annots p, policy_ok set_order annots p = true -> policy_ok set_order [] p = true.
  Proof.
    intros annots p H. unfold policy_ok in *.
    apply andb_true_iff in H. destruct H as [H H5]. apply andb_true_iff in H. destruct H as [H H4].
    apply andb_true_iff in H. destruct H as [H H3]. apply andb_true_iff in H. destruct H as [_ H2].
    rewrite H2, H3, H4, H5. reflexivity.
  Qed.

  Lemma retoks_annots : forall annots,
    map mk (map retype (toks (flat_map (fun kv : str * str =>
       [op "@"; T TIdent (fst kv); op "("; str_item is_printable is_gext (snd kv); op ")"; nl]) annots))) = AT' annots.
  Proof.
    induction annots as [|kv annots IH]; [reflexivity|]. cbn [flat_map]. rewrite toks_app, !map_app, IH. reflexivity.
  Qed.

  Lemma retoks_policy : forall annots p, policy_ok set_order annots p = true ->
    map mk (map retype (toks (PI annots p))) = AT' annots ++ toks_of (PI [] p).
  Proof.
    intros annots p Hok. rewrite policy_items_split, toks_app, !map_app, retoks_annots. f_equal.
    unfold toks_of. f_equal. apply (lexk_strict_retype _ rune_eof).
    apply (policy_lexk is_printable is_gext set_order print_ip extra print_ip_plain true [] p rune_eof (policy_ok_nil _ _ Hok)).
    intros _. reflexivity.
  Qed.

  Lemma adv_cons2 : forall (a b : token) l, adv (a :: b :: l) = b :: l.
  Proof. reflexivity. Qed.

  Lemma annots_parse : forall annots acc seen R, R <> [] -> tx (peek R) "@" = false ->
    forallb (fun kv : str * str => str_ok2 (snd kv)) annots = true ->
    ParserRoundTrip.fresh_keys (map fst annots) seen = true ->
    (forall k, existsb (fun kv : str * str => str_eqb (fst kv) k) acc = existsb (str_eqb k) seen) ->
    exists f0, forall f, (f0 <= f)%nat -> p_annotations f (AT' annots ++ R) acc = POk (acc ++ annots) R.
  Proof.
    induction annots as [|[k v] annots IH]; intros acc seen R HR Hat Hv Hf Hinv.
    - exists 1%nat. intros f Hf0. destruct f as [|f]; [lia|]. cbn [AT' flat_map app]. rewrite app_nil_r.
      apply p_annotations_none. exact Hat.
    - cbn [forallb snd] in Hv. apply andb_true_iff in Hv. destruct Hv as [Hv1 Hv2].
      cbn [map fst ParserRoundTrip.fresh_keys] in Hf. apply andb_true_iff in Hf. destruct Hf as [Hf1 Hf2].
      apply negb_true_iff in Hf1.
      assert (Hinv' : forall k0, existsb (fun kv : str * str => str_eqb (fst kv) k0) (acc ++ [(k, v)]) = existsb (str_eqb k0) (k :: seen)).
      { intros k0. rewrite existsb_app. cbn [existsb fst]. rewrite Hinv.
        rewrite orb_false_r, orb_comm, (ParserRoundTrip.str_eqb_sym k k0). reflexivity. }
      destruct (IH (acc ++ [(k, v)]) (k :: seen) R HR Hat Hv2 Hf2 Hinv') as [f0 H0].
      exists (S f0). intros f Hf0. destruct f as [|f]; [lia|].
      assert (HL : exists x L, AT' annots ++ R = x :: L).
      { destruct (AT' annots ++ R) as [|x L] eqn:E; [|exists x, L; reflexivity].
        apply app_eq_nil in E. destruct E as [_ E]. contradiction. }
      destruct HL as (x & L & EL).
      cbn [AT' flat_map]. fold (AT' annots). unfold ann_toks. cbn [fst snd]. rewrite <- app_assoc. cbn [app]. rewrite EL.
      cbn [p_annotations]. cbv zeta.
      change (tx (peek (mk (TOperator, s_of "@") :: key_tok k :: mk (TOperator, s_of "(") :: mk (TString, QS v) :: mk (TOperator, s_of ")") :: x :: L)) "@") with true.
      cbn [negb]. rewrite !adv_cons2.
      change (peek (key_tok k :: mk (TOperator, s_of "(") :: mk (TString, QS v) :: mk (TOperator, s_of ")") :: x :: L)) with (key_tok k).
      assert (Hk : is_ident (key_tok k) || is_reserved_tok (key_tok k) = true).
      { unfold key_tok, retype. cbn [fst snd]. destruct (is_reserved k); reflexivity. }
      rewrite Hk. cbn [negb].
      change (exact (mk (TOperator, s_of "(") :: mk (TString, QS v) :: mk (TOperator, s_of ")") :: x :: L) "(")
        with (Some (mk (TString, QS v) :: mk (TOperator, s_of ")") :: x :: L)).
      assert (Ekt : t_text (key_tok k) = k).
      { unfold key_tok, retype. cbn [fst snd]. destruct (is_reserved k); reflexivity. }
      rewrite Ekt, Hinv, Hf1.
      change (peek (mk (TString, QS v) :: mk (TOperator, s_of ")") :: x :: L)) with (mk (TString, QS v)).
      change (is_string (mk (TString, QS v))) with true. cbn [negb].
      change (t_text (mk (TString, QS v))) with (QS v).
      rewrite (ParserRoundTrip.sv_quote is_printable is_gext v Hv1). rewrite adv_cons2.
      change (exact (mk (TOperator, s_of ")") :: x :: L) ")") with (Some (x :: L)).
      rewrite <- EL. rewrite H0 by lia. rewrite <- app_assoc. reflexivity.
  Qed.

  Lemma R_head : forall p rest, exists h tl,
    toks_of (PI [] p) ++ rest = mk h :: tl /\ tx (mk h) "@" = false /\ (t_type (mk h) = TIdent).
  Proof.
    intros p rest. rewrite ParserRoundTrip.policy_toks. unfold ParserRoundTrip.PT. cbn [ParserRoundTrip.AT map flat_map app].
    destruct (p_effect p); eexists _, _; (split; [reflexivity | split; reflexivity]).
  Qed.

  Lemma policy_parse' : forall annots p rest, policy_ok set_order annots p = true -> rest <> [] ->
    exists f0, forall f, (f0 <= f)%nat ->
      p_policy f (AT' annots ++ toks_of (PI [] p) ++ rest)
      = POk {| pp_annots := annots; pp_pos := (0, 0, 0); pp_policy := norm_policy set_order print_ip p |} rest.
  Proof.
    intros annots p rest Hok Hrest.
    destruct (ParserRoundTrip.parse_print_policy is_printable is_gext set_order print_ip extra print_ip_plain [] p rest
                (policy_ok_nil _ _ Hok) Hrest) as [f1 H1].
    destruct (R_head p rest) as (h & tl & ER & Hat & Hty).
    set (R := toks_of (PI [] p) ++ rest) in *.
    assert (HR : R <> []) by (rewrite ER; discriminate).
    unfold policy_ok in Hok. apply andb_true_iff in Hok. destruct Hok as [Hok _]. apply andb_true_iff in Hok. destruct Hok as [Hok _].
    apply andb_true_iff in Hok. destruct Hok as [Hok _]. apply andb_true_iff in Hok. destruct Hok as [Han _].
    unfold annots_ok in Han. apply andb_true_iff in Han. destruct Han as [Hdist Hvals].
    assert (Hv : forallb (fun kv : str * str => str_ok2 (snd kv)) annots = true).
    { apply forallb_forall. intros kv Hkv. rewrite forallb_forall in Hvals. specialize (Hvals kv Hkv).
      apply andb_true_iff in Hvals. apply Hvals. }
    rewrite ParserRoundTrip.distinct_keys_fresh in Hdist.
    destruct (annots_parse annots [] [] R HR ltac:(rewrite ER; exact Hat) Hv Hdist ltac:(intros k; reflexivity)) as [f2 H2].
    exists (S (f1 + f2)). intros f Hf. destruct f as [|f]; [lia|].
    rewrite p_policy_cont, H2 by lia. cbn [bind app].
    rewrite (pcont_annots (S f) _ (peek R) annots R).
    specialize (H1 (S f) ltac:(lia)). rewrite p_policy_cont in H1.
    rewrite p_annotations_none in H1 by (rewrite ER; exact Hat). cbn [bind] in H1. rewrite H1. cbn [set_ann pp_policy].
    assert (Hpos : forall first, first = peek (AT' annots ++ R) -> (t_off first, t_line first, t_col first) = (0, 0, 0)).
    { intros first ->. destruct annots as [|kv annots]; [cbn [AT' flat_map app]; rewrite ER; reflexivity | reflexivity]. }
    rewrite (Hpos _ eq_refl). reflexivity.
  Qed.

  Definition dtoks' (ps : list (list (str * str) * policy)) : list token :=
    flat_map (fun ap => AT' (fst ap) ++ toks_of (PI [] (snd ap))) ps ++ [eof_token].

  Lemma policies_parse' : forall ps acc, Forall (fun ap => policy_ok set_order (fst ap) (snd ap) = true) ps ->
    exists f0, forall f, (f0 <= f)%nat ->
      p_policies f (dtoks' ps) acc
      = POk (acc ++ map (ParserRoundTrip.doc_result set_order print_ip) ps) [eof_token].
  Proof.
    induction ps as [|[an p] ps IH]; intros acc Hok.
    - exists 1%nat. intros f Hf. destruct f as [|f]; [lia|]. cbn [map]. rewrite app_nil_r. reflexivity.
    - inversion Hok as [|ap ps' Hp Hps]; subst. cbn [fst snd] in Hp.
      assert (Hne : dtoks' ps <> []).
      { unfold dtoks'. intros E. apply app_eq_nil in E. destruct E as [_ E]. discriminate E. }
      destruct (policy_parse' an p (dtoks' ps) Hp Hne) as [f1 H1].
      destruct (IH (acc ++ [ParserRoundTrip.doc_result set_order print_ip (an, p)]) Hps) as [f2 H2].
      exists (S (f1 + f2)). intros f Hf. destruct f as [|f]; [lia|].
      assert (E : dtoks' ((an, p) :: ps) = AT' an ++ toks_of (PI [] p) ++ dtoks' ps).
      { unfold dtoks'. cbn [flat_map fst snd]. rewrite <- !app_assoc. reflexivity. }
      rewrite E. cbn [p_policies].
      assert (Hhd : t_type (peek (AT' an ++ toks_of (PI [] p) ++ dtoks' ps)) = TOperator
                    \/ t_type (peek (AT' an ++ toks_of (PI [] p) ++ dtoks' ps)) = TIdent).
      { destruct an as [|kv an]; [right | left; reflexivity].
        cbn [AT' flat_map app]. destruct (R_head p (dtoks' ps)) as (h & tl & -> & _ & Hty). exact Hty. }
      unfold bind. rewrite H1 by lia. cbn [map]. rewrite <- app_assoc in H2. cbn [app] in H2.
      destruct Hhd as [-> | ->]; apply H2; lia.
  Qed.

  (* print to bytes, tokenize, parse: the policies come back up to the text normal form - for every policy_ok input *)
  Theorem text_roundtrip_document_gen : forall sep ps, all_ws sep ->
    Forall (fun ap => policy_ok set_order (fst ap) (snd ap) = true) ps ->
    exists f0, forall f, (f0 <= f)%nat -> exists ts,
      spec_tokenize f (render (doc_items is_printable is_gext set_order print_ip extra sep ps)) = Some (Some ts) /\
      exists res last, p_policies f ts [] = POk res [last] /\ t_type last = TEOF /\
        map (fun pp => (pp_annots pp, pp_policy pp)) res = map (fun ap => (fst ap, norm_policy set_order print_ip (snd ap))) ps.
  Proof.
    intros sep ps Hsep Hok.
    destruct (lex_render_document_gen is_printable is_gext set_order print_ip extra print_ip_plain sep ps Hsep Hok) as [f1 H1].
    destruct (policies_parse' ps [] Hok) as [f2 H2].
    exists (f1 + f2)%nat. intros f Hf. destruct (H1 f ltac:(lia)) as (ts & Etok & Ets). exists ts. split; [exact Etok|].
    specialize (H2 f ltac:(lia)).
    assert (Hn : map nrm ts = dtoks' ps).
    { unfold nrm. rewrite <- (map_map strip mk), Ets, map_app. unfold dtoks'. f_equal.
      clear -Hok print_ip_plain. induction Hok as [|ap ps Hap _ IH]; [reflexivity|].
      cbn [flat_map]. rewrite !map_app, IH. f_equal. apply retoks_policy. exact Hap. }
    pose proof (p_policies_map f ts []) as Hp. cbn [map] in Hp. rewrite Hn, H2 in Hp. cbn [app] in Hp.
    destruct (p_policies f ts []) as [res rest| |]; cbn [emap_l] in Hp; try discriminate Hp.
    injection Hp as Hres' Hrest.
    destruct rest as [|last [|x rest']]; try discriminate Hrest.
    exists res, last. split; [reflexivity|]. split.
    - assert (Hl : nrm last = eof_token) by (cbn [map] in Hrest; congruence). apply (f_equal t_type) in Hl. exact Hl.
    - apply (f_equal (map (fun pp => (pp_annots pp, pp_policy pp)))) in Hres'. rewrite !map_map in Hres'.
      cbn [zp pp_annots pp_policy ParserRoundTrip.doc_result] in Hres'. symmetry. exact Hres'.
  Qed.
End TextRoundTripGen.

(* ------------------------------------------------------------------------------------------------------------- *)
(* 8. A boolean checker for [lexk] (sound): lets a test evaluate lexability of any concrete rendering              *)
(* ------------------------------------------------------------------------------------------------------------- *)
Fixpoint span_hex (s : str) : str * str :=
  match s with
  | [] => ([], [])
  | h :: r => if is_hex h then (h :: fst (span_hex r), snd (span_hex r)) else ([], s)
  end.

Lemma span_hex_spec : forall s, s = fst (span_hex s) ++ snd (span_hex s) /\ Forall (fun h => is_hex h = true) (fst (span_hex s)).
Proof.
  induction s as [|h r [IH1 IH2]]; [split; [reflexivity | constructor]|].
  cbn [span_hex]. destruct (is_hex h) eqn:E; cbn [fst snd app].
  - split; [f_equal; exact IH1 | constructor; assumption].
  - split; [reflexivity | constructor].
Qed.

Fixpoint sbodyb (fuel : nat) (s : str) : bool :=
  match fuel with
  | O => false
  | S f =>
    match s with
    | [] => true
    | b :: r =>
      if b =? 92 then
        match r with
        | [] => false
        | c :: r' =>
          if existsb (Z.eqb c) esc_chars then sbodyb f r'
          else if c =? 117 then
            match r' with
            | [] => false
            | c2 :: r2 =>
              (c2 =? 123) && Nat.leb 1 (length (fst (span_hex r2))) && Nat.leb (length (fst (span_hex r2))) 6 &&
              match snd (span_hex r2) with
              | [] => false
              | c4 :: r4 => (c4 =? 125) && sbodyb f r4
              end
            end
          else if c =? 120 then
            match r' with
            | h1 :: h2 :: r2 => is_hex h1 && is_hex h2 && sbodyb f r2
            | _ => false
            end
          else false
        end
      else if b <? 128 then (0 <? b) && negb (b =? 34) && negb (b =? 10) && sbodyb f r
      else negb ((fst (decode_rune s) =? rune_error) && Nat.leb (snd (decode_rune s)) 1) && sbodyb f (skipn (snd (decode_rune s)) s)
    end
  end.

Lemma sbodyb_sound : forall fuel s, nonneg s -> sbodyb fuel s = true -> sbody s.
Proof.
  induction fuel as [|f IH]; intros s Hnn H; [discriminate H|].
  destruct s as [|b r]; [constructor|]. cbn [sbodyb] in H.
  assert (Hr : nonneg r) by (inversion Hnn; assumption).
  destruct (Z.eqb_spec b 92) as [->|Hb92].
  - destruct r as [|c r']; [discriminate H|].
    assert (Hr' : nonneg r') by (inversion Hr; assumption).
    destruct (existsb (Z.eqb c) esc_chars) eqn:Ec.
    { change (92 :: c :: r') with ([92; c] ++ r'). constructor; [apply su_esc, in_esc; exact Ec | apply IH; assumption]. }
    destruct (Z.eqb_spec c 117) as [->|Hc117].
    { destruct r' as [|c2 r2]; [discriminate H|].
      destruct (span_hex_spec r2) as [Es Hh]. destruct (span_hex r2) as [hs r3]. cbn [fst snd] in *.
      apply andb_true_iff in H. destruct H as [H H4]. apply andb_true_iff in H. destruct H as [H H3].
      apply andb_true_iff in H. destruct H as [H1 H2]. apply Z.eqb_eq in H1. subst c2.
      apply Nat.leb_le in H2. apply Nat.leb_le in H3.
      destruct r3 as [|c4 r4]; [discriminate H4|]. apply andb_true_iff in H4. destruct H4 as [H5 H6].
      apply Z.eqb_eq in H5. subst c4. subst r2.
      assert (Hr4 : nonneg r4).
      { inversion Hr' as [|x y _ Hy]; subst. apply nonneg_app_r in Hy. inversion Hy; assumption. }
      replace (92 :: 117 :: 123 :: hs ++ 125 :: r4) with (([92; 117; 123] ++ hs ++ [125]) ++ r4)
        by (repeat rewrite <- app_assoc; reflexivity).
      constructor; [apply su_u; [lia | exact Hh] | apply IH; assumption]. }
    destruct (Z.eqb_spec c 120) as [->|Hc120]; [|discriminate H].
    destruct r' as [|h1 [|h2 r2]]; try discriminate H.
    apply andb_true_iff in H. destruct H as [H H3]. apply andb_true_iff in H. destruct H as [H1 H2].
    change (92 :: 120 :: h1 :: h2 :: r2) with ([92; 120; h1; h2] ++ r2).
    constructor; [apply su_x; assumption | apply IH; [|exact H3]].
    inversion Hr' as [|x y _ Hy]; subst. inversion Hy; assumption.
  - destruct (Z.ltb_spec b 128) as [Hb|Hb].
    + apply andb_true_iff in H. destruct H as [H H4]. apply andb_true_iff in H. destruct H as [H H3].
      apply andb_true_iff in H. destruct H as [H1 H2]. apply Z.ltb_lt in H1. apply negb_true_iff in H2, H3.
      apply Z.eqb_neq in H2, H3.
      change (b :: r) with ([b] ++ r). constructor; [apply su_ascii; [lia | assumption..] | apply IH; assumption].
    + apply andb_true_iff in H. destruct H as [H1 H2]. apply negb_true_iff in H1.
      destruct (decode_rune (b :: r)) as [ch w] eqn:Hd. cbn [fst snd] in *.
      destruct (decode_rune_inv _ _ _ Hnn Hd H1) as (Hv & rest & Es & Hw).
      rewrite Es, Hw, skipn_app_length in H2. rewrite Es.
      assert (Hch : 128 <= ch).
      { destruct (encode_rune_bytes ch Hv) as [[Hlt E1] | [Hge _]]; [|exact Hge].
        rewrite E1 in Es. cbn [app] in Es. injection Es as Eb _. lia. }
      constructor; [apply su_rune; assumption | apply IH; [|exact H2]].
      rewrite Es in Hnn. exact (nonneg_app_r _ _ Hnn).
Qed.

Definition lexemeb (strict : bool) (ty : toktype) (text : str) : bool :=
  match ty with
  | TIdent => ident_shapeb text && (negb strict || negb (is_reserved text))
  | TReserved => ident_shapeb text && is_reserved text
  | TInt => negb (match text with [] => true | _ => false end) && forallb is_num text
  | TString =>
      match text with
      | q :: r =>
        match rev r with
        | q' :: body_rev =>
            (q =? 34) && (q' =? 34) && forallb (fun b => 0 <=? b) (rev body_rev)
            && sbodyb (S (length body_rev)) (rev body_rev)
        | [] => false
        end
      | [] => false
      end
  | TOperator => existsb (str_eqb text) op_texts
  | TEOF | TUnknown => false
  end.

Lemma lexemeb_sound : forall st ty text, lexemeb st ty text = true -> lexeme st ty text.
Proof.
  intros st ty text H. destruct ty; cbn [lexemeb lexeme] in *; try discriminate H.
  - apply andb_true_iff in H. destruct H as [H1 H2]. split; [apply ident_shapeb_ok; exact H1|].
    intros ->. cbn [negb orb] in H2. apply negb_true_iff in H2. exact H2.
  - apply andb_true_iff in H. destruct H as [H1 H2]. split; [|exact H2]. destruct text; [discriminate H1 | discriminate].
  - apply andb_true_iff in H. destruct H as [H1 H2]. split; [apply ident_shapeb_ok; exact H1 | exact H2].
  - destruct text as [|q r]; [discriminate H|]. destruct (rev r) as [|q' body_rev] eqn:Er; [discriminate H|].
    apply andb_true_iff in H. destruct H as [H H4]. apply andb_true_iff in H. destruct H as [H H3].
    apply andb_true_iff in H. destruct H as [H1 H2]. apply Z.eqb_eq in H1, H2. subst q q'.
    exists (rev body_rev). split.
    + f_equal. rewrite <- (rev_involutive r), Er. reflexivity.
    + apply (sbodyb_sound _ _ ltac:(apply Forall_forall; intros x Hx; rewrite forallb_forall in H3; apply Z.leb_le, H3, Hx) H4).
  - apply existsb_exists in H. destruct H as (x & Hx & E). apply str_eqb_eq in E. subst x. exact Hx.
Qed.

Fixpoint lexkb (strict : bool) (l : list item) (c : Z) : bool :=
  match l with
  | [] => true
  | Sp t :: r => forallb is_ws t && lexkb strict r c
  | T ty t :: r => lexemeb strict ty t && sepb ty t (nextb (render r) c) && lexkb strict r c
  end.

Lemma lexkb_sound : forall st l c, lexkb st l c = true -> lexk st l c.
Proof.
  intros st l c. induction l as [|[ty t|t] r IH]; intros H; [exact I | |]; cbn [lexkb lexk] in *.
  - apply andb_true_iff in H. destruct H as [H H3]. apply andb_true_iff in H. destruct H as [H1 H2].
    split; [apply lexemeb_sound; exact H1 | split; [exact H2 | exact (IH H3)]].
  - apply andb_true_iff in H. destruct H as [H1 H2]. split; [|exact (IH H2)].
    apply Forall_forall. intros x Hx. rewrite forallb_forall in H1. exact (H1 x Hx).
Qed.

(* any item list that passes the check lexes back to its own tokens *)
Theorem lex_render_checked : forall l, lexkb true l rune_eof = true ->
  exists f0, forall f, (f0 <= f)%nat -> exists ts,
    spec_tokenize f (render l) = Some (Some ts) /\ map strip ts = toks l ++ [(TEOF, [])].
Proof. intros l H. apply lex_render_strict, lexkb_sound. exact H. Qed.

(* the checker accepts a typical rendering (non-ASCII text, escapes, every operator class) *)
Example lexkb_example :
  lexkb true (expr_items (fun r => negb (r =? 7)) (fun _ => false) (fun l => seq 0 (length l)) (fun _ _ _ => []) (fun _ => false)
     (EAnd (EEq (EAccess (EVar VPrincipal) (s_of "name")) (ELit (VString [206; 187; 7; 34; 10; 120])))
           (ELt (ENeg (ELit (VLong 3))) (ELit (VLong (-5)))))) rune_eof = true.
Proof. vm_compute. reflexivity. Qed.

Print Assumptions lex_render_generic.
Print Assumptions lex_render_strict.
Print Assumptions lex_render_expr.
Print Assumptions lex_render_policy.
Print Assumptions lex_render_policy_gen.
Print Assumptions lex_render_document.
Print Assumptions lex_render_document_gen.
Print Assumptions lex_render_document_ws.
Print Assumptions lex_render_policy_counterexample.
Print Assumptions text_roundtrip_document.
Print Assumptions text_roundtrip_document_gen.
Print Assumptions lex_render_checked.
