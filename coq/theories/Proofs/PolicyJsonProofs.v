(* Round trip of the JSON (EST) codec of policies (Impl/PolicyJson.v) on JSON trees:
     decode (encode p) = p  up to the normal form [normj] the JSON format itself imposes
     (decimal / ip literal VALUES are written as extension calls; record-literal entries and annotations are a map: sorted by key,
      the last of several equal keys wins; the empty like-pattern is written as one empty literal component).
   - decode_encode_expr    : expressions (hypothesis expr_okj)
   - dec_enc_policy        : whole policies with annotations (hypothesis policy_okj)
   - normj_idempotent, okj_normj, second_roundtrip : the normal form is a fixed point; the second round trip is the identity
   - eval_normj            : the normal form evaluates like the original expression (hypothesis sem_okj: decimal / ip literals print
                             to a text that parses back)
   - dec_enc_pattern, compile_pattern_canon : patterns round-trip iff they are in NewPattern's normal form (pat_canon), which every
                             pattern built by compile_pattern is
   - pj_ex_*               : computed witnesses that each hypothesis is needed
   Section hypotheses: ip_roundtrip (net/netip's printer is not modelled) and ord_id (literal sets keep their member order). *)
From Coq Require Import ZArith List Bool Lia Arith String Permutation.
Import ListNotations.
From Cedar Require Import Base.Int64 Base.Json Lang.Value Generated.Tables Impl.Like Lang.Expr Impl.Eval Impl.Decimal Impl.IPAddr Impl.ValueJson
  Impl.Parser Impl.PolicyJson.
From Cedar Require Import Proofs.ValueProofs Proofs.DecimalProofs Proofs.ValueJsonProofs.
Local Open Scope Z_scope.

(* ------------------------------------------------------------------------------------------ *)
(* Generic helpers                                                                             *)
(* ------------------------------------------------------------------------------------------ *)

Lemma pj_fix_map {A B} (F : A -> B) (l : list A) :
  (fix go (a : list A) : list B := match a with [] => [] | x :: r => F x :: go r end) l = map F l.
Proof. induction l as [|x l IH]; [reflexivity|]. cbn [map]. rewrite <- IH. reflexivity. Qed.

Definition is_obj (j : json) : bool := match j with JObj _ => true | _ => false end.

(* mapping the values of an association list *)
Definition mapv {A B} (g : A -> B) (l : list (str * A)) : list (str * B) := map (fun kv => (fst kv, g (snd kv))) l.

Lemma mapv_cons {A B} (g : A -> B) kv l : mapv g (kv :: l) = (fst kv, g (snd kv)) :: mapv g l.
Proof. reflexivity. Qed.

Lemma mapv_mapv {A B C} (g : A -> B) (h : B -> C) l : mapv h (mapv g l) = mapv (fun x => h (g x)) l.
Proof. unfold mapv. rewrite map_map. reflexivity. Qed.

Lemma mapv_ext_Forall {A B} (g h : A -> B) l :
  Forall (fun kv => g (snd kv) = h (snd kv)) l -> mapv g l = mapv h l.
Proof.
  intros HF. induction HF as [|kv l Hkv _ IH]; [reflexivity|]. rewrite !mapv_cons, Hkv, IH. reflexivity.
Qed.

Lemma mapv_keys {A B} (g : A -> B) l : map fst (mapv g l) = map fst l.
Proof. unfold mapv. rewrite map_map. reflexivity. Qed.

Lemma pj_fix_mapv {A B} (F : A -> B) (l : list (str * A)) :
  (fix gokv (a : list (str * A)) : list (str * B) := match a with [] => [] | (key, x) :: r => (key, F x) :: gokv r end) l = mapv F l.
Proof. induction l as [|[key x] l IH]; [reflexivity|]. rewrite mapv_cons. cbn [fst snd]. rewrite <- IH. reflexivity. Qed.

Lemma rec_insert_mapv {A B} (g : A -> B) key v l : rec_insert key (g v) (mapv g l) = mapv g (rec_insert key v l).
Proof.
  induction l as [|[k' v'] l IH]; [reflexivity|].
  rewrite mapv_cons. cbn [fst snd rec_insert].
  destruct (str_ltb key k'); [reflexivity|]. destruct (str_eqb key k'); [reflexivity|].
  rewrite IH. reflexivity.
Qed.

Lemma rec_of_list_mapv {A B} (g : A -> B) l : rec_of_list (mapv g l) = mapv g (rec_of_list l).
Proof.
  unfold rec_of_list.
  assert (H : forall acc, fold_left (fun acc kv => rec_insert (fst kv) (snd kv) acc) (mapv g l) (mapv g acc) =
                          mapv g (fold_left (fun acc kv => rec_insert (fst kv) (snd kv) acc) l acc)).
  { induction l as [|kv l IH]; intros acc; [reflexivity|].
    rewrite mapv_cons. cbn [fold_left fst snd]. rewrite rec_insert_mapv. apply IH. }
  apply (H []).
Qed.

Lemma rec_of_list_idem {A} (l : list (str * A)) : rec_of_list (rec_of_list l) = rec_of_list l.
Proof. apply vj_rec_of_list_sorted_id. apply rec_of_list_sorted_gen. Qed.

(* ---- depth of a JSON tree ---- *)

Lemma jdepth_arr_in x l : In x l -> (jdepth x < jdepth (JArr l))%nat.
Proof.
  cbn [jdepth]. induction l as [|y l IH]; intros H; [destruct H|].
  cbn [fold_right]. destruct H as [->|H]; [lia|]. specialize (IH H). lia.
Qed.

Lemma jdepth_obj_in kv l : In kv l -> (jdepth (snd kv) < jdepth (JObj l))%nat.
Proof.
  cbn [jdepth]. induction l as [|[k' y] l IH]; intros H; [destruct H|].
  destruct H as [<-|H]; [cbn [snd]; lia|]. specialize (IH H). lia.
Qed.

Lemma jdepth_pos j : (1 <= jdepth j)%nat.
Proof. destruct j; cbn [jdepth]; lia. Qed.

Lemma jdepth_obj1 key v : jdepth (obj1 key v) = S (jdepth v).
Proof. unfold obj1. cbn [jdepth]. lia. Qed.

Lemma jdepth_una key a : jdepth (una key a) = S (S (jdepth a)).
Proof. unfold una. rewrite jdepth_obj1. cbn [jdepth]. lia. Qed.

Lemma jdepth_bin key a b : jdepth (bin key a b) = S (S (Nat.max (jdepth a) (jdepth b))).
Proof. unfold bin. rewrite jdepth_obj1. cbn [jdepth]. lia. Qed.

Lemma jdepth_obj2 k1 a k2 b : jdepth (JObj [(k1, a); (k2, b)]) = S (Nat.max (jdepth a) (jdepth b)).
Proof. cbn [jdepth]. lia. Qed.

Lemma jdepth_obj3 k1 a k2 b k3 c : jdepth (JObj [(k1, a); (k2, b); (k3, c)]) = S (Nat.max (jdepth a) (Nat.max (jdepth b) (jdepth c))).
Proof. cbn [jdepth]. lia. Qed.

(* ---- repeated keys: a fuel-free version of any_dups ---- *)

Fixpoint jdups (j : json) : bool :=
  match j with
  | JArr l => (fix go (l : list json) : bool := match l with [] => false | x :: r => jdups x || go r end) l
  | JObj l => has_dups l || (fix go (l : list (str * json)) : bool := match l with [] => false | (_, x) :: r => jdups x || go r end) l
  | _ => false
  end.

Lemma jdups_arr l : jdups (JArr l) = existsb jdups l.
Proof. cbn [jdups]. induction l as [|x l IH]; [reflexivity|]. cbn [existsb]. rewrite IH. reflexivity. Qed.

Lemma jdups_obj l : jdups (JObj l) = has_dups l || existsb (fun kv => jdups (snd kv)) l.
Proof.
  cbn [jdups]. f_equal. induction l as [|[k' x] l IH]; [reflexivity|]. cbn [existsb snd]. rewrite IH. reflexivity.
Qed.

Lemma jdups_str s : jdups (JStr s) = false.
Proof. reflexivity. Qed.

Arguments jdups : simpl never.

Lemma any_dups_jdups : forall f j, (jdepth j <= f)%nat -> any_dups f j = jdups j.
Proof.
  induction f as [|f IH]; intros j Hj.
  - pose proof (jdepth_pos j). lia.
  - destruct j as [| | | | |l|l]; try reflexivity.
    + rewrite jdups_arr. cbn [any_dups].
      assert (H : forall x, In x l -> (jdepth x <= f)%nat).
      { intros x Hx. pose proof (jdepth_arr_in x l Hx). lia. }
      clear Hj. induction l as [|x l IHl]; [reflexivity|]. cbn [existsb].
      rewrite IH by (apply H; left; reflexivity). rewrite IHl; [reflexivity|].
      intros y Hy. apply H. right. exact Hy.
    + rewrite jdups_obj. cbn [any_dups]. f_equal.
      assert (H : forall kv, In kv l -> (jdepth (snd kv) <= f)%nat).
      { intros kv Hkv. pose proof (jdepth_obj_in kv l Hkv). lia. }
      clear Hj. induction l as [|x l IHl]; [reflexivity|]. cbn [existsb].
      rewrite IH by (apply H; left; reflexivity). rewrite IHl; [reflexivity|].
      intros y Hy. apply H. right. exact Hy.
Qed.

Fixpoint hd_go (l : list (str * json)) (seen : list str) : bool :=
  match l with [] => false | (key, _) :: r => existsb (str_eqb key) seen || hd_go r (key :: seen) end.

Lemma has_dups_go l : has_dups l = hd_go l [].
Proof. reflexivity. Qed.

Lemma hd_go_sorted : forall l seen, keys_sorted l = true ->
  (forall s kv, In s seen -> In kv l -> str_eqb (fst kv) s = false) -> hd_go l seen = false.
Proof.
  induction l as [|[key v] l IH]; intros seen Hs Hseen; [reflexivity|].
  cbn [hd_go]. apply orb_false_iff. split.
  - destruct (existsb (str_eqb key) seen) eqn:E; [|reflexivity].
    apply existsb_exists in E. destruct E as (s & Hin & Heq).
    pose proof (Hseen s (key, v) Hin (or_introl eq_refl)) as X. cbn [fst] in X. congruence.
  - pose proof (vj_sorted_all_lt _ _ _ Hs) as HF. rewrite Forall_forall in HF.
    apply keys_sorted_cons in Hs. destruct Hs as [_ Hs].
    apply IH; [exact Hs|]. intros s kv [<-|Hin] Hkv.
    + specialize (HF kv Hkv). apply str_eqb_neq. intros E. rewrite E, str_ltb_irrefl in HF. discriminate.
    + apply (Hseen s kv Hin). right. exact Hkv.
Qed.

Lemma has_dups_sorted l : keys_sorted l = true -> has_dups l = false.
Proof. intros Hs. rewrite has_dups_go. apply hd_go_sorted; [exact Hs|]. intros s kv []. Qed.

Lemma has_dups_single key v : has_dups [(key, v)] = false.
Proof. reflexivity. Qed.

Lemma existsb_false_Forall {A} (f : A -> bool) l : Forall (fun x => f x = false) l -> existsb f l = false.
Proof. intros HF. induction HF as [|x l Hx _ IH]; [reflexivity|]. cbn [existsb]. rewrite Hx, IH. reflexivity. Qed.

Lemma jdups_obj1 key v : jdups (obj1 key v) = jdups v.
Proof. unfold obj1. rewrite jdups_obj, has_dups_single. cbn [existsb snd orb]. apply orb_false_r. Qed.

Lemma jdups_obj2 k1 a k2 b : str_eqb k2 k1 = false -> jdups (JObj [(k1, a); (k2, b)]) = jdups a || jdups b.
Proof.
  intros H. rewrite jdups_obj. unfold has_dups. cbn [existsb snd orb]. rewrite H.
  destruct (jdups a), (jdups b); reflexivity.
Qed.

Lemma jdups_obj3 k1 a k2 b k3 c : str_eqb k2 k1 = false -> str_eqb k3 k2 = false -> str_eqb k3 k1 = false ->
  jdups (JObj [(k1, a); (k2, b); (k3, c)]) = jdups a || jdups b || jdups c.
Proof.
  intros H1 H2 H3. rewrite jdups_obj. unfold has_dups. cbn [existsb snd orb]. rewrite H1, H2, H3.
  destruct (jdups a), (jdups b), (jdups c); reflexivity.
Qed.

Lemma jdups_una key a : jdups (una key a) = jdups a.
Proof. unfold una. rewrite jdups_obj1. apply (jdups_obj1 "arg"). Qed.

Lemma jdups_bin key a b : jdups (bin key a b) = jdups a || jdups b.
Proof. unfold bin. rewrite jdups_obj1. apply jdups_obj2. reflexivity. Qed.

Lemma pj_map_ext_Forall {A B} (g h : A -> B) l : Forall (fun x => g x = h x) l -> map g l = map h l.
Proof. intros HF. induction HF as [|x l Hx _ IH]; [reflexivity|]. cbn [map]. rewrite Hx, IH. reflexivity. Qed.

(* ---- dall ---- *)

Lemma dall_map_ok {A B} (F : A -> dres B) (G : A -> B) l :
  Forall (fun x => F x = DOk (G x)) l -> dall (map F l) = DOk (map G l).
Proof.
  intros HF. induction HF as [|x l Hx _ IH]; [reflexivity|].
  cbn [map dall]. rewrite Hx, IH. reflexivity.
Qed.

(* ------------------------------------------------------------------------------------------ *)
(* Extension names are not typed keys                                                          *)
(* ------------------------------------------------------------------------------------------ *)

Lemma ext_names_ok :
  forallb (fun e : string * (Z * bool) =>
             negb (known_exact (s_of (fst e))) && negb (known_fold (s_of (fst e))) && negb (exotic (s_of (fst e)))) ext_table = true.
Proof. vm_compute. reflexivity. Qed.

Lemma ext_lookup_name name x : ext_lookup name = Some x ->
  known_exact name = false /\ known_fold name = false /\ exotic name = false.
Proof.
  unfold ext_lookup. destruct (find _ ext_table) as [e|] eqn:E; [|discriminate]. intros _.
  apply find_some in E. destruct E as [Hin Heq]. apply str_eqb_eq in Heq. subst name.
  pose proof ext_names_ok as H. rewrite forallb_forall in H. specialize (H e Hin).
  rewrite !andb_true_iff, !negb_true_iff in H. tauto.
Qed.

(* ------------------------------------------------------------------------------------------ *)
(* One decoding step on each shape the encoder emits (sub-trees abstract)                      *)
(* ------------------------------------------------------------------------------------------ *)

Definition una_table : list (string * (expr -> expr)) := [("!", ENot); ("neg", ENeg); ("isEmpty", EIsEmpty)]%string.

Definition bin_table : list (string * (expr -> expr -> expr)) :=
  [("==", EEq); ("!=", ENe); ("in", EIn); ("<", ELt); ("<=", ELe); (">", EGt); (">=", EGe); ("&&", EAnd); ("||", EOr);
   ("+", EAdd); ("-", ESub); ("*", EMul); ("contains", EContains); ("containsAll", EContainsAll); ("containsAny", EContainsAny);
   ("getTag", EGetTag); ("hasTag", EHasTag)]%string.

Lemma dec_value_step f v :
  dec_expr (S f) (obj1 "Value" v) = match decode_value v with Some x => DOk (ELit x) | None => DErr end.
Proof. destruct v; reflexivity. Qed.

Lemma dec_var_step f s :
  dec_expr (S f) (obj1 "Var" (JStr s)) = match var_of s with Some x => DOk (EVar x) | None => DErr end.
Proof. reflexivity. Qed.

Lemma dec_una_step f key ctor a : In (key, ctor) una_table -> is_obj a = true ->
  dec_expr (S f) (una key a) = dbind (dec_expr f a) (fun x => DOk (ctor x)).
Proof.
  intros H Ha. destruct a; try discriminate.
  repeat (destruct H as [E|H]; [inversion E; subst; reflexivity|]). destruct H.
Qed.

Lemma dec_bin_step f key ctor a b : In (key, ctor) bin_table -> is_obj a = true -> is_obj b = true ->
  dec_expr (S f) (bin key a b) = dbind (dec_expr f a) (fun x => dbind (dec_expr f b) (fun y => DOk (ctor x y))).
Proof.
  intros H Ha Hb. destruct a; try discriminate. destruct b; try discriminate.
  repeat (destruct H as [E|H]; [inversion E; subst; reflexivity|]). destruct H.
Qed.

Lemma dec_access_step f a s : is_obj a = true ->
  dec_expr (S f) (obj1 "." (JObj [(k "left", a); (k "attr", JStr s)])) = dbind (dec_expr f a) (fun x => DOk (EAccess x s)).
Proof. intros Ha. destruct a; try discriminate. reflexivity. Qed.

Lemma dec_has_step f a s : is_obj a = true ->
  dec_expr (S f) (obj1 "has" (JObj [(k "left", a); (k "attr", JStr s)])) = dbind (dec_expr f a) (fun x => DOk (EHas x s)).
Proof. intros Ha. destruct a; try discriminate. reflexivity. Qed.

Lemma dec_like_step f a p : is_obj a = true ->
  dec_expr (S f) (obj1 "like" (JObj [(k "left", a); (k "pattern", p)])) =
  dbind (dec_expr f a) (fun x => dbind (dec_pattern p) (fun pat => DOk (ELike x pat))).
Proof. intros Ha. destruct a; try discriminate. reflexivity. Qed.

Lemma dec_is_step f a ty : is_obj a = true ->
  dec_expr (S f) (obj1 "is" (JObj [(k "left", a); (k "entity_type", JStr ty)])) = dbind (dec_expr f a) (fun x => DOk (EIs x ty)).
Proof. intros Ha. destruct a; try discriminate. reflexivity. Qed.

Lemma dec_isin_step f a ty b : is_obj a = true -> is_obj b = true ->
  dec_expr (S f) (obj1 "is" (JObj [(k "left", a); (k "entity_type", JStr ty); (k "in", b)])) =
  dbind (dec_expr f a) (fun x => dbind (dec_expr f b) (fun y => DOk (EIsIn x ty y))).
Proof. intros Ha Hb. destruct a; try discriminate. destruct b; try discriminate. reflexivity. Qed.

Lemma dec_if_step f a b c : is_obj a = true -> is_obj b = true -> is_obj c = true ->
  dec_expr (S f) (obj1 "if-then-else" (JObj [(k "if", a); (k "then", b); (k "else", c)])) =
  dbind (dec_expr f a) (fun x => dbind (dec_expr f b) (fun y => dbind (dec_expr f c) (fun z => DOk (EIf x y z)))).
Proof.
  intros Ha Hb Hc. destruct a; try discriminate. destruct b; try discriminate. destruct c; try discriminate. reflexivity.
Qed.

Lemma dec_set_step f args :
  dec_expr (S f) (obj1 "Set" (JArr args)) = dbind (dall (map (dec_expr f) args)) (fun es => DOk (ESet es)).
Proof. pose proof (pj_fix_map (dec_expr f) args) as E. rewrite <- E. reflexivity. Qed.

Definition dec_fields (f : nat) (l : list (str * json)) : list (dres (str * expr)) :=
  map (fun kv : str * json => match snd kv with JNull => DErr | x => dbind (dec_expr f x) (fun e => DOk (fst kv, e)) end) l.

Lemma dec_record_step f m :
  dec_expr (S f) (obj1 "Record" (JObj m)) = dbind (dall (dec_fields f (rec_of_list m))) (fun kvs => DOk (ERecord kvs)).
Proof.
  assert (E : forall l, (fix go (a : list (str * json)) : list (dres (str * expr)) :=
                 match a with
                 | [] => []
                 | (key', JNull) :: r => DErr :: go r
                 | (key', x) :: r => dbind (dec_expr f x) (fun e => DOk (key', e)) :: go r
                 end) l = dec_fields f l).
  { induction l as [|[key' x] l IH]; [reflexivity|]. unfold dec_fields. cbn [map fst snd]. fold (dec_fields f l).
    rewrite <- IH. destruct x; reflexivity. }
  rewrite <- E. reflexivity.
Qed.

Lemma dec_call_step f name args : known_exact name = false -> known_fold name = false -> exotic name = false ->
  dec_expr (S f) (JObj [(name, JArr args)]) =
  dbind (dall (map (dec_expr f) args)) (fun es =>
    match ext_lookup name with
    | None => DErr
    | Some (_, true) => match es with [] => DErr | _ => DOk (ECall name es) end
    | Some (_, false) => DOk (ECall name es)
    end).
Proof.
  intros H1 H2 H3. pose proof (pj_fix_map (dec_expr f) args) as E. rewrite <- E.
  cbn [dec_expr List.length Nat.ltb Nat.leb forallb existsb fst snd].
  rewrite H1, H2, H3. reflexivity.
Qed.

(* ------------------------------------------------------------------------------------------ *)
(* Patterns                                                                                    *)
(* ------------------------------------------------------------------------------------------ *)

(* components after the first: all of them start with a wildcard, and only the last one may have an empty literal *)
Fixpoint pat_tail_ok (p : pattern) : bool :=
  match p with
  | [] => true
  | (w, l) :: r => w && (negb (is_nil l) || is_nil r) && pat_tail_ok r
  end.

(* the image of compile_pattern (NewPattern's merging), plus the empty pattern *)
Definition pat_canon (p : pattern) : bool :=
  match p with
  | [] => true
  | (false, _) :: r => pat_tail_ok r
  | (true, _) :: _ => pat_tail_ok p
  end.

(* the empty pattern is written as [{"Literal":""}], which reads back as the one-component pattern with an empty literal *)
Definition norm_pat (p : pattern) : pattern := match p with [] => [(false, [])] | _ => p end.

Definition pj_comp (c : json) : option (option str) :=
  match c with
  | JStr s => if str_eqb s (k "Wildcard") then Some None else None
  | JObj [(key, JStr lit)] => if str_eqb key (k "Literal") then Some (Some lit) else None
  | _ => None
  end.

Definition rawc (c : pcomp) : list (option str) :=
  (if fst c then [None] else []) ++ (if negb (fst c) || negb (is_nil (snd c)) then [Some (snd c)] else []).

Definition encc (c : pcomp) : list json :=
  (if fst c then [JStr (k "Wildcard")] else []) ++
  (if negb (fst c) || negb (is_nil (snd c)) then [obj1 "Literal" (JStr (snd c))] else []).

Lemma dec_pattern_arr l : l <> [] ->
  dec_pattern (JArr l) = match all_some (map pj_comp l) with Some cs => DOk (compile_pattern cs) | None => DErr end.
Proof. intros H. destruct l; [contradiction | reflexivity]. Qed.

Lemma enc_pattern_cons c p : enc_pattern (c :: p) = JArr (flat_map encc (c :: p)).
Proof. reflexivity. Qed.

Lemma all_some_app {A} (a : list (option A)) b x y :
  all_some a = Some x -> all_some b = Some y -> all_some (a ++ b) = Some (x ++ y).
Proof.
  revert x. induction a as [|[v|] a IH]; intros x Ha Hb; cbn [all_some app] in *.
  - injection Ha as <-. exact Hb.
  - destruct (all_some a) as [x'|]; [|discriminate]. cbn [option_map] in Ha. injection Ha as <-.
    rewrite (IH x' eq_refl Hb). reflexivity.
  - discriminate.
Qed.

Lemma comp_encc p : all_some (map pj_comp (flat_map encc p)) = Some (flat_map rawc p).
Proof.
  induction p as [|[w l] p IH]; [reflexivity|].
  cbn [flat_map]. rewrite map_app. apply all_some_app; [|exact IH].
  destruct w, l; reflexivity.
Qed.

Lemma flat_map_encc_nonnil c p : flat_map encc (c :: p) <> [].
Proof. destruct c as [[|] l]; cbn [flat_map encc fst snd negb orb app]; discriminate. Qed.

Lemma compile_tail : forall r acc w l, pat_tail_ok r = true -> negb w || negb (is_nil l) = true ->
  compile_rev (flat_map rawc r) ((w, l) :: acc) = rev r ++ (w, l) :: acc.
Proof.
  induction r as [|[w' l'] r IH]; intros acc w l Hr Hwl; [reflexivity|].
  cbn [pat_tail_ok] in Hr. rewrite !andb_true_iff in Hr. destruct Hr as [[Hw' Hl'] Hr]. subst w'.
  cbn [flat_map rawc fst snd negb orb app compile_rev]. unfold is_nil in Hwl. rewrite Hwl.
  destruct l' as [|c l'].
  - destruct r; [|discriminate]. reflexivity.
  - cbn [is_nil negb app compile_rev flat_map]. rewrite IH; [|exact Hr|reflexivity].
    cbn [rev]. rewrite <- app_assoc. reflexivity.
Qed.

Lemma compile_canon c p : pat_canon (c :: p) = true -> compile_pattern (flat_map rawc (c :: p)) = c :: p.
Proof.
  unfold compile_pattern. destruct c as [[|] l]; cbn [pat_canon]; intros H.
  - cbn [pat_tail_ok andb] in H. rewrite !andb_true_iff in H. destruct H as [Hl Hp].
    cbn [flat_map rawc fst snd negb orb app compile_rev].
    destruct l as [|x l].
    + destruct p; [|discriminate]. reflexivity.
    + cbn [is_nil negb app compile_rev]. rewrite compile_tail; [|exact Hp|reflexivity].
      rewrite rev_app_distr, rev_involutive. reflexivity.
  - cbn [flat_map rawc fst snd negb orb app compile_rev].
    rewrite compile_tail; [|exact H|reflexivity].
    rewrite rev_app_distr, rev_involutive. reflexivity.
Qed.

Theorem dec_enc_pattern p : pat_canon p = true -> dec_pattern (enc_pattern p) = DOk (norm_pat p).
Proof.
  destruct p as [|c p]; intros H; [reflexivity|].
  rewrite enc_pattern_cons, dec_pattern_arr by apply flat_map_encc_nonnil.
  rewrite comp_encc, compile_canon by exact H. reflexivity.
Qed.

Lemma norm_pat_match p s : go_match (norm_pat p) s = go_match p s.
Proof. destruct p; [|reflexivity]. destruct s; reflexivity. Qed.

Lemma norm_pat_idem p : norm_pat (norm_pat p) = norm_pat p.
Proof. destruct p; reflexivity. Qed.

Lemma norm_pat_canon p : pat_canon p = true -> pat_canon (norm_pat p) = true.
Proof. destruct p; [reflexivity|]. intros H; exact H. Qed.

(* ---- pat_canon is exactly the image of NewPattern: every compiled pattern satisfies it ---- *)

Definition inner_ok (c : pcomp) : bool := fst c && negb (is_nil (snd c)).
Definition first_ok (c : pcomp) : bool := negb (fst c) || negb (is_nil (snd c)).

(* invariant of compile_rev's accumulator (the pattern built so far, reversed) *)
Definition racc_ok (acc : list pcomp) : bool :=
  match acc with
  | [] => true
  | c :: acc' => match rev acc' with [] => true | c1 :: mid => fst c && first_ok c1 && forallb inner_ok mid end
  end.

Lemma pat_tail_ok_snoc p c : pat_tail_ok (p ++ [c]) = forallb inner_ok p && fst c.
Proof.
  induction p as [|[w l] p IH].
  - destruct c as [w l]. cbn [app pat_tail_ok forallb fst is_nil]. rewrite orb_true_r, !andb_true_r. reflexivity.
  - cbn [app pat_tail_ok forallb]. rewrite IH. unfold inner_ok at 1. cbn [fst snd].
    replace (is_nil (p ++ [c])) with false by (destruct p; reflexivity). rewrite orb_false_r, andb_assoc. reflexivity.
Qed.

Lemma racc_ok_canon acc : racc_ok acc = true -> pat_canon (rev acc) = true.
Proof.
  destruct acc as [|c acc']; [reflexivity|]. cbn [racc_ok rev].
  destruct (rev acc') as [|[w1 l1] mid].
  - intros _. destruct c as [[|] l]; cbn [app pat_canon pat_tail_ok is_nil]; [rewrite orb_true_r|]; reflexivity.
  - rewrite !andb_true_iff. intros [[Hc H1] Hmid]. cbn [app pat_canon]. destruct w1.
    + cbn [pat_tail_ok andb]. rewrite pat_tail_ok_snoc, Hmid, Hc.
      unfold first_ok in H1. cbn [fst snd negb orb] in H1. rewrite H1. reflexivity.
    + rewrite pat_tail_ok_snoc, Hmid, Hc. reflexivity.
Qed.

Lemma racc_ok_push c acc : racc_ok (c :: acc) = true -> first_ok c = true -> racc_ok ((true, []) :: c :: acc) = true.
Proof.
  cbn [racc_ok rev]. intros H Hc. destruct (rev acc) as [|c1 mid]; cbn [app].
  - cbn [fst forallb andb]. rewrite Hc. reflexivity.
  - rewrite !andb_true_iff in H. destruct H as [[Hw H1] Hmid]. cbn [fst andb]. rewrite H1, forallb_app, Hmid.
    cbn [forallb andb]. unfold inner_ok. rewrite Hw. unfold first_ok in Hc. rewrite Hw in Hc. cbn [negb orb] in Hc.
    rewrite Hc. reflexivity.
Qed.

Lemma compile_rev_ok : forall cs acc, racc_ok acc = true -> racc_ok (compile_rev cs acc) = true.
Proof.
  induction cs as [|[s|] cs IH]; intros acc H; cbn [compile_rev]; [exact H| |].
  - destruct acc as [|[w l] acc']; apply IH; [reflexivity|]. exact H.
  - destruct acc as [|[w l] acc']; [apply IH; reflexivity|].
    destruct (negb w || negb match l with [] => true | _ :: _ => false end) eqn:E; apply IH; [|exact H].
    apply racc_ok_push; [exact H|exact E].
Qed.

Theorem compile_pattern_canon cs : pat_canon (compile_pattern cs) = true.
Proof. unfold compile_pattern. apply racc_ok_canon, compile_rev_ok. reflexivity. Qed.

(* hence pat_canon is also necessary: whatever dec_pattern returns satisfies it *)
Lemma dec_pattern_canon j p : dec_pattern j = DOk p -> pat_canon p = true.
Proof.
  destruct j as [| | | | |l|l]; try discriminate. destruct l as [|x l]; [discriminate|].
  rewrite dec_pattern_arr by discriminate.
  destruct (all_some (map pj_comp (x :: l))) as [cs|]; [|discriminate].
  intros H. injection H as <-. apply compile_pattern_canon.
Qed.

Corollary pat_canon_necessary p : dec_pattern (enc_pattern p) = DOk p -> pat_canon p = true.
Proof. apply dec_pattern_canon. Qed.

(* ------------------------------------------------------------------------------------------ *)
(* Scopes and the policy envelope (sub-trees abstract)                                         *)
(* ------------------------------------------------------------------------------------------ *)

Lemma dec_enc_uid u : dec_uid (enc_uid u) = DOk u.
Proof. destruct u as [t i]. reflexivity. Qed.

Lemma jdups_enc_uid u : jdups (enc_uid u) = false.
Proof. reflexivity. Qed.

Lemma dec_scope_entities l :
  dec_scope true (JObj [(k "op", JStr (k "in")); (k "entities", JArr l)]) = dbind (dall (map dec_uid l)) (fun es => DOk (SInSet es)).
Proof. reflexivity. Qed.

Definition scope_okj (action : bool) (s : scope) : bool :=
  match s with
  | SInSet _ => action
  | SIs _ | SIsIn _ _ => negb action
  | _ => true
  end.

Lemma dec_enc_scope action s : scope_okj action s = true -> dec_scope action (enc_scope s) = DOk s.
Proof.
  destruct s as [|u|u|us|ty|ty u]; destruct action; try discriminate; intros _;
    try reflexivity; try (destruct u; reflexivity).
  - destruct us as [|u us]; [reflexivity|].
    change (enc_scope (SInSet (u :: us))) with (JObj [(k "op", JStr (k "in")); (k "entities", JArr (map enc_uid (u :: us)))]).
    rewrite dec_scope_entities, map_map, (dall_map_ok _ (fun x => x)).
    + rewrite map_id. reflexivity.
    + apply Forall_forall. intros x _. apply dec_enc_uid.
  - destruct ty; reflexivity.
  - destruct ty, u; reflexivity.
Qed.

Lemma jdups_enc_scope s : jdups (enc_scope s) = false.
Proof.
  destruct s as [|u|u|us|ty|ty u]; try reflexivity.
  - destruct us as [|u us]; [reflexivity|].
    change (enc_scope (SInSet (u :: us))) with (JObj [(k "op", JStr (k "in")); (k "entities", JArr (map enc_uid (u :: us)))]).
    rewrite jdups_obj2 by reflexivity. rewrite jdups_arr. cbn [jdups_str orb].
    apply existsb_false_Forall. apply Forall_forall. intros j Hj. apply in_map_iff in Hj.
    destruct Hj as (x & <- & _). reflexivity.
  - destruct ty; reflexivity.
  - destruct ty; reflexivity.
Qed.

Lemma enc_scope_is_obj s : is_obj (enc_scope s) = true.
Proof. destruct s; reflexivity. Qed.

(* the document shape enc_policy emits *)
Definition pol_json (oa : option (list (str * json))) (eff : bool) (jp ja jr : json) (oc : option (list json)) : json :=
  JObj ((match oa with None => [] | Some am => [(k "annotations", JObj am)] end)
        ++ [(k "effect", JStr (if eff then k "permit" else k "forbid")); (k "principal", jp); (k "action", ja); (k "resource", jr)]
        ++ (match oc with None => [] | Some cs => [(k "conditions", JArr cs)] end)).

Definition annot_dec (kv : str * json) : dres (str * str) :=
  match snd kv with JStr v => DOk (fst kv, v) | JNull => DOk (fst kv, []) | _ => DErr end.

Definition cond_dec (c : json) : dres (bool * expr) :=
  match c with
  | JObj cm => if has_dups cm || negb (struct_ok ["kind"; "body"]%string cm) then DUnk else
               dbind (sfield "kind" cm) (fun kind =>
               dbind (match jget (k "body") cm with Some (JObj _ as b) => decode_expr b | _ => DErr end) (fun body =>
               if is_key kind "when" then DOk (true, body) else if is_key kind "unless" then DOk (false, body) else DErr))
  | _ => DErr
  end.

Lemma jdups_pol_json oa eff jp ja jr oc :
  jdups (pol_json oa eff jp ja jr oc) =
  (match oa with Some am => jdups (JObj am) | None => false end) || jdups jp || jdups ja || jdups jr ||
  (match oc with Some cs => jdups (JArr cs) | None => false end).
Proof.
  unfold pol_json. rewrite jdups_obj.
  destruct oa, oc; cbn [app existsb snd]; rewrite !jdups_str;
    (replace (has_dups _) with false by reflexivity); cbn [orb]; rewrite ?orb_false_r, ?orb_assoc; reflexivity.
Qed.

Lemma dec_policy_shape oa eff jp ja jr oc :
  is_obj jp = true -> is_obj ja = true -> is_obj jr = true -> jdups (pol_json oa eff jp ja jr oc) = false ->
  dec_policy (pol_json oa eff jp ja jr oc) =
  dbind (match oa with None => DOk [] | Some am => dbind (dall (map annot_dec am)) (fun kvs => DOk (rec_of_list kvs)) end) (fun a =>
  dbind (dec_scope false jp) (fun sp => dbind (dec_scope true ja) (fun sa => dbind (dec_scope false jr) (fun sr =>
  dbind (match oc with None => DOk [] | Some cs => dall (map cond_dec cs) end) (fun cs =>
  DOk (a, {| p_effect := eff; p_principal := sp; p_action := sa; p_resource := sr; p_conds := cs |})))))).
Proof.
  intros Hp Ha Hr Hd. unfold dec_policy. rewrite any_dups_jdups by lia. rewrite Hd.
  destruct jp; try discriminate. destruct ja; try discriminate. destruct jr; try discriminate.
  destruct oa, eff, oc; reflexivity.
Qed.

Lemma cond_dec_step (b : bool) j : is_obj j = true ->
  cond_dec (JObj [(k "kind", JStr (if b then k "when" else k "unless")); (k "body", j)]) =
  dbind (decode_expr j) (fun body => DOk (b, body)).
Proof. intros Hj. destruct j; try discriminate. destruct b; reflexivity. Qed.

(* ------------------------------------------------------------------------------------------ *)
(* The round trip                                                                              *)
(* ------------------------------------------------------------------------------------------ *)

Section PolicyJsonProofs.
  Variable print_ip : bool -> Z -> Z -> str.           (* net/netip's printer: not modelled *)
  Variable ord : list json -> list json.               (* member order of an encoded set *)
  Variable ip_ok : bool -> Z -> Z -> bool.             (* the ip values whose printed form parses back *)
  Hypothesis ip_roundtrip : forall v6 a p, ip_ok v6 a p = true -> parse_ip (print_ip v6 a p) = Some (v6, a, p).
  (* literal set values are written in their own member order (otherwise the literal reads back as an equal, not identical, set) *)
  Hypothesis ord_id : forall l, ord l = l.

  Lemma ord_perm : forall l, Permutation (ord l) l.
  Proof. intros l. rewrite ord_id. apply Permutation_refl. Qed.

  Notation enc := (enc_expr print_ip ord).

  (* the normal form the JSON format itself imposes *)
  Fixpoint normj (e : expr) : expr :=
    let fix go (l : list expr) : list expr := match l with [] => [] | x :: r => normj x :: go r end in
    let fix gokv (l : list (str * expr)) : list (str * expr) := match l with [] => [] | (key, x) :: r => (key, normj x) :: gokv r end in
    match e with
    | ELit (VDecimal z) => ECall (s_of "decimal") [ELit (VString (print_decimal z))]
    | ELit (VIP v6 a p) => ECall (s_of "ip") [ELit (VString (print_ip v6 a p))]
    | ELit v => ELit v
    | EVar x => EVar x
    | EAnd a b => EAnd (normj a) (normj b) | EOr a b => EOr (normj a) (normj b)
    | ENot a => ENot (normj a) | ENeg a => ENeg (normj a)
    | EAdd a b => EAdd (normj a) (normj b) | ESub a b => ESub (normj a) (normj b) | EMul a b => EMul (normj a) (normj b)
    | EEq a b => EEq (normj a) (normj b) | ENe a b => ENe (normj a) (normj b)
    | ELt a b => ELt (normj a) (normj b) | ELe a b => ELe (normj a) (normj b)
    | EGt a b => EGt (normj a) (normj b) | EGe a b => EGe (normj a) (normj b)
    | EIn a b => EIn (normj a) (normj b)
    | EContains a b => EContains (normj a) (normj b) | EContainsAll a b => EContainsAll (normj a) (normj b)
    | EContainsAny a b => EContainsAny (normj a) (normj b) | EIsEmpty a => EIsEmpty (normj a)
    | EAccess a key => EAccess (normj a) key | EHas a key => EHas (normj a) key
    | EGetTag a b => EGetTag (normj a) (normj b) | EHasTag a b => EHasTag (normj a) (normj b)
    | ELike a p => ELike (normj a) (norm_pat p)
    | EIs a ty => EIs (normj a) ty | EIsIn a ty b => EIsIn (normj a) ty (normj b)
    | EIf c t f => EIf (normj c) (normj t) (normj f)
    | ESet es => ESet (go es)
    | ERecord kvs => ERecord (rec_of_list (gokv kvs))
    | ECall name args => ECall name (go args)
    | EPartialError kd => EPartialError kd
    end.

  Definition normj_policy (p : policy) : policy :=
    {| p_effect := p_effect p; p_principal := p_principal p; p_action := p_action p; p_resource := p_resource p;
       p_conds := map (fun c : bool * expr => (fst c, normj (snd c))) (p_conds p) |}.

  Fixpoint expr_okj (e : expr) : bool :=
    let fix all (l : list expr) : bool := match l with [] => true | x :: r => expr_okj x && all r end in
    let fix allkv (l : list (str * expr)) : bool := match l with [] => true | (_, x) :: r => expr_okj x && allkv r end in
    match e with
    | ELit (VDecimal _) => true
    | ELit (VIP _ _ _) => true
    | ELit v => json_safe ip_ok v
    | EVar _ => true
    | ENot a | ENeg a | EIsEmpty a | EAccess a _ | EHas a _ | EIs a _ => expr_okj a
    | EAnd a b | EOr a b | EAdd a b | ESub a b | EMul a b | EEq a b | ENe a b | ELt a b | ELe a b | EGt a b | EGe a b
    | EIn a b | EContains a b | EContainsAll a b | EContainsAny a b | EGetTag a b | EHasTag a b | EIsIn a _ b => expr_okj a && expr_okj b
    | ELike a p => expr_okj a && pat_canon p
    | EIf c t f => expr_okj c && expr_okj t && expr_okj f
    | ESet es => all es
    | ERecord kvs => allkv kvs
    | ECall name args =>
        match ext_lookup name with
        | Some (_, m) => (negb m || negb (is_nil args)) && all args
        | None => false
        end
    | EPartialError _ => false
    end.

  Definition policy_okj (p : policy) : bool :=
    scope_okj false (p_principal p) && scope_okj true (p_action p) && scope_okj false (p_resource p) &&
    forallb (fun c : bool * expr => expr_okj (snd c)) (p_conds p).

  (* ---- unfolding equations for the list cases ---- *)

  Lemma normj_set es : normj (ESet es) = ESet (map normj es).
  Proof. cbn [normj]. rewrite pj_fix_map. reflexivity. Qed.
  Lemma normj_call n es : normj (ECall n es) = ECall n (map normj es).
  Proof. cbn [normj]. rewrite pj_fix_map. reflexivity. Qed.
  Lemma normj_record kvs : normj (ERecord kvs) = ERecord (rec_of_list (mapv normj kvs)).
  Proof. cbn [normj]. rewrite pj_fix_mapv. reflexivity. Qed.

  Lemma enc_set es : enc (ESet es) = obj1 "Set" (JArr (map enc es)).
  Proof. cbn [enc_expr]. rewrite pj_fix_map. reflexivity. Qed.
  Lemma enc_call n es : enc (ECall n es) = JObj [(n, JArr (map enc es))].
  Proof. cbn [enc_expr]. rewrite pj_fix_map. reflexivity. Qed.
  Lemma enc_record kvs : enc (ERecord kvs) = obj1 "Record" (JObj (rec_of_list (mapv enc kvs))).
  Proof. cbn [enc_expr]. rewrite pj_fix_mapv. reflexivity. Qed.

  Lemma okj_all_forallb es :
    (fix all (l : list expr) : bool := match l with [] => true | x :: r => expr_okj x && all r end) es = forallb expr_okj es.
  Proof. induction es as [|x es IH]; [reflexivity|]. cbn [forallb]. rewrite <- IH. reflexivity. Qed.

  Lemma okj_set es : expr_okj (ESet es) = forallb expr_okj es.
  Proof. cbn [expr_okj]. apply okj_all_forallb. Qed.
  Lemma okj_call n es : expr_okj (ECall n es) =
    match ext_lookup n with Some (_, m) => (negb m || negb (is_nil es)) && forallb expr_okj es | None => false end.
  Proof. cbn [expr_okj]. rewrite okj_all_forallb. reflexivity. Qed.
  Lemma okj_record kvs : expr_okj (ERecord kvs) = forallb (fun kv => expr_okj (snd kv)) kvs.
  Proof.
    cbn [expr_okj]. induction kvs as [|[key x] kvs IH]; [reflexivity|]. cbn [forallb snd]. rewrite <- IH. reflexivity.
  Qed.

  (* every encoded expression is an object (a partial error is not encodable) *)
  Lemma enc_is_obj e : expr_okj e = true -> is_obj (enc e) = true.
  Proof. destruct e; try reflexivity; [|discriminate]. destruct v; reflexivity. Qed.

  Lemma enc_value_roundtrip v : json_safe ip_ok v = true -> decode_value (enc_value print_ip ord v) = Some v.
  Proof.
    intros Hs. exact (value_json_roundtrip_eq print_ip ord ord_perm ip_ok ip_roundtrip v Hs ord_id).
  Qed.

  Lemma var_of_name_roundtrip x : var_of (var_name x) = Some x.
  Proof. destruct x; reflexivity. Qed.

  Ltac in_table := cbn [In]; repeat (first [left; reflexivity | right]).

  Ltac t_una ctor :=
    let a := fresh "a" in let IHa := fresh "IHa" in let Hok := fresh "Hok" in let f := fresh "f" in let Hf := fresh "Hf" in
    intros a IHa Hok f Hf; cbn [expr_okj] in Hok;
    destruct f as [|f]; [lia|]; cbn [enc_expr normj] in Hf |- *;
    rewrite jdepth_una in Hf;
    rewrite (dec_una_step f _ ctor) by (first [apply enc_is_obj; assumption | in_table]);
    rewrite (IHa Hok f) by lia; reflexivity.

  Ltac t_bin ctor :=
    let a := fresh "a" in let b := fresh "b" in let IHa := fresh "IHa" in let IHb := fresh "IHb" in
    let Hok := fresh "Hok" in let f := fresh "f" in let Hf := fresh "Hf" in let Ha := fresh "Ha" in let Hb := fresh "Hb" in
    intros a b IHa IHb Hok f Hf; cbn [expr_okj] in Hok; apply andb_true_iff in Hok; destruct Hok as [Ha Hb];
    destruct f as [|f]; [lia|]; cbn [enc_expr normj] in Hf |- *;
    rewrite jdepth_bin in Hf;
    rewrite (dec_bin_step f _ ctor) by (first [apply enc_is_obj; assumption | in_table]);
    rewrite (IHa Ha f), (IHb Hb f) by lia; reflexivity.

  Lemma dec_enc_fuel : forall e, expr_okj e = true -> forall f, (jdepth (enc e) < f)%nat -> dec_expr f (enc e) = DOk (normj e).
  Proof.
    apply (expr_ind' (fun e => expr_okj e = true -> forall f, (jdepth (enc e) < f)%nat -> dec_expr f (enc e) = DOk (normj e))).
    - (* ELit *)
      intros v Hok f Hf. destruct f as [|f]; [lia|].
      assert (Hgen : json_safe ip_ok v = true -> dec_expr (S f) (obj1 "Value" (enc_value print_ip ord v)) = DOk (ELit v)).
      { intros Hs. rewrite dec_value_step, (enc_value_roundtrip v Hs). reflexivity. }
      destruct v; try (exact (Hgen Hok)); clear Hgen; cbn [enc_expr normj] in *.
      + rewrite dec_call_step by reflexivity. cbn [map].
        destruct f as [|f]; [cbn [jdepth obj1 fold_right] in Hf; lia|]. rewrite dec_value_step. reflexivity.
      + rewrite dec_call_step by reflexivity. cbn [map].
        destruct f as [|f]; [cbn [jdepth obj1 fold_right] in Hf; lia|]. rewrite dec_value_step. reflexivity.
    - (* EVar *)
      intros x _ f Hf. destruct f as [|f]; [lia|]. cbn [enc_expr normj] in Hf |- *.
      rewrite dec_var_step, var_of_name_roundtrip. reflexivity.
    - t_bin EAnd.
    - t_bin EOr.
    - t_una ENot.
    - t_una ENeg.
    - t_bin EAdd.
    - t_bin ESub.
    - t_bin EMul.
    - t_bin EEq.
    - t_bin ENe.
    - t_bin ELt.
    - t_bin ELe.
    - t_bin EGt.
    - t_bin EGe.
    - t_bin EIn.
    - t_bin EContains.
    - t_bin EContainsAll.
    - t_bin EContainsAny.
    - t_una EIsEmpty.
    - (* EAccess *)
      intros a key IHa Hok f Hf. cbn [expr_okj] in Hok. destruct f as [|f]; [lia|]. cbn [enc_expr normj] in Hf |- *.
      rewrite jdepth_obj1, jdepth_obj2 in Hf.
      rewrite dec_access_step by (apply enc_is_obj; assumption). rewrite (IHa Hok f) by lia. reflexivity.
    - (* EHas *)
      intros a key IHa Hok f Hf. cbn [expr_okj] in Hok. destruct f as [|f]; [lia|]. cbn [enc_expr normj] in Hf |- *.
      rewrite jdepth_obj1, jdepth_obj2 in Hf.
      rewrite dec_has_step by (apply enc_is_obj; assumption). rewrite (IHa Hok f) by lia. reflexivity.
    - t_bin EGetTag.
    - t_bin EHasTag.
    - (* ELike *)
      intros a p IHa Hok f Hf. cbn [expr_okj] in Hok. apply andb_true_iff in Hok. destruct Hok as [Ha Hp].
      destruct f as [|f]; [lia|]. cbn [enc_expr normj] in Hf |- *.
      rewrite jdepth_obj1, jdepth_obj2 in Hf.
      rewrite dec_like_step by (apply enc_is_obj; assumption). rewrite (IHa Ha f) by lia.
      rewrite (dec_enc_pattern p Hp). reflexivity.
    - (* EIs *)
      intros a ty IHa Hok f Hf. cbn [expr_okj] in Hok. destruct f as [|f]; [lia|]. cbn [enc_expr normj] in Hf |- *.
      rewrite jdepth_obj1, jdepth_obj2 in Hf.
      rewrite dec_is_step by (apply enc_is_obj; assumption). rewrite (IHa Hok f) by lia. reflexivity.
    - (* EIsIn *)
      intros a ty b IHa IHb Hok f Hf. cbn [expr_okj] in Hok. apply andb_true_iff in Hok. destruct Hok as [Ha Hb].
      destruct f as [|f]; [lia|]. cbn [enc_expr normj] in Hf |- *.
      rewrite jdepth_obj1, jdepth_obj3 in Hf.
      rewrite dec_isin_step by (apply enc_is_obj; assumption). rewrite (IHa Ha f), (IHb Hb f) by (cbn [jdepth] in Hf; lia). reflexivity.
    - (* EIf *)
      intros c t e IHc IHt IHe Hok f Hf. cbn [expr_okj] in Hok. rewrite !andb_true_iff in Hok. destruct Hok as [[Hc Ht] He].
      destruct f as [|f]; [lia|]. cbn [enc_expr normj] in Hf |- *.
      rewrite jdepth_obj1, jdepth_obj3 in Hf.
      rewrite dec_if_step by (apply enc_is_obj; assumption). rewrite (IHc Hc f), (IHt Ht f), (IHe He f) by lia. reflexivity.
    - (* ESet *)
      intros es IH Hok f Hf. rewrite okj_set in Hok. destruct f as [|f]; [lia|].
      rewrite enc_set, normj_set in *. rewrite jdepth_obj1 in Hf.
      rewrite dec_set_step, map_map.
      rewrite (dall_map_ok _ normj); [reflexivity|].
      rewrite Forall_forall in *. rewrite forallb_forall in Hok. intros x Hx.
      apply (IH x Hx (Hok x Hx)).
      pose proof (jdepth_arr_in (enc x) (map enc es) (in_map enc es x Hx)). lia.
    - (* ERecord *)
      intros kvs IH Hok f Hf. rewrite okj_record in Hok. destruct f as [|f]; [lia|].
      rewrite enc_record, normj_record in *. rewrite jdepth_obj1 in Hf.
      rewrite dec_record_step, rec_of_list_idem.
      rewrite (rec_of_list_mapv normj), (rec_of_list_mapv enc) in *.
      assert (HF : Forall (fun kv => expr_okj (snd kv) = true /\ dec_expr f (enc (snd kv)) = DOk (normj (snd kv))) (rec_of_list kvs)).
      { assert (HF0 : Forall (fun kv : str * expr => expr_okj (snd kv) = true /\
                         ((jdepth (enc (snd kv)) < f)%nat -> dec_expr f (enc (snd kv)) = DOk (normj (snd kv)))) (rec_of_list kvs)).
        { apply (rec_of_list_Forall (fun x => expr_okj x = true /\ ((jdepth (enc x) < f)%nat -> dec_expr f (enc x) = DOk (normj x)))).
          rewrite Forall_forall in *. rewrite forallb_forall in Hok. intros kv Hkv. split; [apply Hok; exact Hkv|].
          intros Hd. apply (IH kv Hkv (Hok kv Hkv)). exact Hd. }
        rewrite Forall_forall in *. intros kv Hkv. destruct (HF0 kv Hkv) as [H1 H2]. split; [exact H1|]. apply H2.
        assert (Hin : In (fst kv, enc (snd kv)) (mapv enc (rec_of_list kvs))).
        { unfold mapv. apply (in_map (fun kv => (fst kv, enc (snd kv)))). exact Hkv. }
        pose proof (jdepth_obj_in _ _ Hin) as Hd. cbn [snd] in Hd. lia. }
      unfold dec_fields, mapv at 1. rewrite map_map. cbn [fst snd].
      rewrite (dall_map_ok _ (fun kv => (fst kv, normj (snd kv)))); [reflexivity|].
      eapply Forall_impl; [|exact HF]. intros kv [H1 H2]. cbn beta.
      pose proof (enc_is_obj _ H1) as Ho. destruct (enc (snd kv)) eqn:E; try discriminate.
      rewrite H2. reflexivity.
    - (* ECall *)
      intros n es IH Hok f Hf. rewrite okj_call in Hok. destruct f as [|f]; [lia|].
      rewrite enc_call, normj_call in *.
      destruct (ext_lookup n) as [[ar m]|] eqn:El; [|discriminate].
      apply andb_true_iff in Hok. destruct Hok as [Hm Hok].
      destruct (ext_lookup_name n _ El) as (H1 & H2 & H3).
      rewrite dec_call_step by assumption. rewrite El, map_map.
      rewrite (dall_map_ok _ normj).
      + cbn [dbind]. destruct m; [|reflexivity]. destruct es; [discriminate|reflexivity].
      + rewrite Forall_forall in *. rewrite forallb_forall in Hok. intros x Hx.
        apply (IH x Hx (Hok x Hx)).
        pose proof (jdepth_arr_in (enc x) (map enc es) (in_map enc es x Hx)) as Hd.
        assert (Hd2 : (jdepth (JArr (map enc es)) < jdepth (JObj [(n, JArr (map enc es))]))%nat).
        { apply (jdepth_obj_in (n, JArr (map enc es))). left. reflexivity. }
        lia.
    - (* EPartialError *)
      intros kd Hok. discriminate.
  Qed.

  Theorem decode_encode_expr : forall e, expr_okj e = true -> decode_expr (enc_expr print_ip ord e) = DOk (normj e).
  Proof. intros e Hok. unfold decode_expr. apply dec_enc_fuel; [exact Hok | lia]. Qed.

  (* ---- the second round trip is the identity ---- *)

  Theorem normj_idempotent : forall e, normj (normj e) = normj e.
  Proof.
    apply (expr_ind' (fun e => normj (normj e) = normj e));
      try (intros; cbn [normj]; congruence).
    - intros v. destruct v; reflexivity.
    - intros a p IHa. cbn [normj]. rewrite IHa, norm_pat_idem. reflexivity.
    - intros es IH. rewrite !normj_set, map_map. f_equal.
      apply pj_map_ext_Forall. exact IH.
    - intros kvs IH. rewrite !normj_record. f_equal.
      rewrite <- rec_of_list_mapv, mapv_mapv, rec_of_list_idem. f_equal.
      apply mapv_ext_Forall. exact IH.
    - intros n es IH. rewrite !normj_call, map_map. f_equal.
      apply pj_map_ext_Forall. exact IH.
  Qed.

  (* ---- no object of an encoded document has a repeated key ---- *)

  Lemma jdups_enc_value : forall v, json_safe ip_ok v = true -> jdups (encode_value print_ip ord v) = false.
  Proof.
    apply (value_ind' (fun v => json_safe ip_ok v = true -> jdups (encode_value print_ip ord v) = false)); try (intros; reflexivity).
    - intros l IH Hs. rewrite json_safe_set in Hs. apply andb_true_iff in Hs. destruct Hs as [_ Hs].
      cbn [encode_value]. rewrite ord_id, jdups_arr. apply existsb_false_Forall.
      rewrite Forall_forall in *. rewrite forallb_forall in Hs. intros j Hj.
      apply in_map_iff in Hj. destruct Hj as (x & <- & Hx). apply (IH x Hx (Hs x Hx)).
    - intros l IH Hs. rewrite json_safe_record in Hs. apply andb_true_iff in Hs. destruct Hs as [Hk Hs].
      rewrite encode_record, jdups_obj. apply orb_false_iff. split.
      + apply has_dups_sorted. rewrite <- (vj_keys_sorted_ext l); [exact Hk|].
        rewrite map_map. reflexivity.
      + apply existsb_false_Forall. rewrite Forall_forall in *. rewrite forallb_forall in Hs. intros j Hj.
        apply in_map_iff in Hj. destruct Hj as (x & <- & Hx). cbn [enc_field snd].
        apply (IH x Hx). specialize (Hs x Hx). apply andb_true_iff in Hs. tauto.
  Qed.

  Lemma jdups_enc : forall e, expr_okj e = true -> jdups (enc e) = false.
  Proof.
    apply (expr_ind' (fun e => expr_okj e = true -> jdups (enc e) = false));
      try (intros a b IHa IHb Hok; cbn [expr_okj] in Hok; apply andb_true_iff in Hok; destruct Hok as [Ha Hb];
           cbn [enc_expr]; rewrite jdups_bin, (IHa Ha), (IHb Hb); reflexivity);
      try (intros a IHa Hok; cbn [expr_okj] in Hok; cbn [enc_expr]; rewrite jdups_una, (IHa Hok); reflexivity).
    - intros v Hok.
      assert (Hgen : json_safe ip_ok v = true -> jdups (obj1 "Value" (enc_value print_ip ord v)) = false).
      { intros Hs. rewrite jdups_obj1. apply jdups_enc_value. exact Hs. }
      destruct v; try (exact (Hgen Hok)); reflexivity.
    - intros x _. reflexivity.
    - intros a key IHa Hok. cbn [expr_okj] in Hok. cbn [enc_expr].
      rewrite jdups_obj1, jdups_obj2 by reflexivity. rewrite (IHa Hok). reflexivity.
    - intros a key IHa Hok. cbn [expr_okj] in Hok. cbn [enc_expr].
      rewrite jdups_obj1, jdups_obj2 by reflexivity. rewrite (IHa Hok). reflexivity.
    - intros a p IHa Hok. cbn [expr_okj] in Hok. apply andb_true_iff in Hok. destruct Hok as [Ha _]. cbn [enc_expr].
      rewrite jdups_obj1, jdups_obj2 by reflexivity. rewrite (IHa Ha). cbn [orb].
      destruct p as [|c p]; [reflexivity|]. rewrite enc_pattern_cons, jdups_arr.
      apply existsb_false_Forall. rewrite Forall_forall. intros j Hj. apply in_flat_map in Hj.
      destruct Hj as ([w l] & _ & Hj). destruct w, l; cbn in Hj; intuition (subst; reflexivity).
    - intros a ty IHa Hok. cbn [expr_okj] in Hok. cbn [enc_expr].
      rewrite jdups_obj1, jdups_obj2 by reflexivity. rewrite (IHa Hok). reflexivity.
    - intros a ty b IHa IHb Hok. cbn [expr_okj] in Hok. apply andb_true_iff in Hok. destruct Hok as [Ha Hb]. cbn [enc_expr].
      rewrite jdups_obj1, jdups_obj3 by reflexivity. rewrite (IHa Ha), (IHb Hb). reflexivity.
    - intros c t e IHc IHt IHe Hok. cbn [expr_okj] in Hok. rewrite !andb_true_iff in Hok. destruct Hok as [[Hc Ht] He].
      cbn [enc_expr]. rewrite jdups_obj1, jdups_obj3 by reflexivity. rewrite (IHc Hc), (IHt Ht), (IHe He). reflexivity.
    - intros es IH Hok. rewrite okj_set in Hok. rewrite enc_set, jdups_obj1, jdups_arr.
      apply existsb_false_Forall. rewrite Forall_forall in *. rewrite forallb_forall in Hok. intros j Hj.
      apply in_map_iff in Hj. destruct Hj as (x & <- & Hx). apply (IH x Hx (Hok x Hx)).
    - intros kvs IH Hok. rewrite okj_record in Hok. rewrite enc_record, jdups_obj1, jdups_obj.
      apply orb_false_iff. split; [apply has_dups_sorted, rec_of_list_sorted_gen|].
      rewrite rec_of_list_mapv. apply existsb_false_Forall.
      assert (HF : Forall (fun kv : str * expr => jdups (enc (snd kv)) = false) (rec_of_list kvs)).
      { apply (rec_of_list_Forall (fun x => jdups (enc x) = false)).
        rewrite Forall_forall in *. rewrite forallb_forall in Hok. intros kv Hkv. apply (IH kv Hkv (Hok kv Hkv)). }
      rewrite Forall_forall in *. intros j Hj. apply in_map_iff in Hj. destruct Hj as (kv & <- & Hkv).
      cbn [snd]. apply HF. exact Hkv.
    - intros n es IH Hok. rewrite okj_call in Hok. destruct (ext_lookup n) as [[ar m]|]; [|discriminate].
      apply andb_true_iff in Hok. destruct Hok as [_ Hok].
      rewrite enc_call. change (JObj [(n, JArr (map enc es))]) with (JObj [(n, JArr (map enc es))]).
      rewrite jdups_obj, has_dups_single. cbn [existsb snd orb]. rewrite orb_false_r, jdups_arr.
      apply existsb_false_Forall. rewrite Forall_forall in *. rewrite forallb_forall in Hok. intros j Hj.
      apply in_map_iff in Hj. destruct Hj as (x & <- & Hx). apply (IH x Hx (Hok x Hx)).
    - intros kd Hok. discriminate.
  Qed.

  (* ---- whole policies ---- *)

  Lemma enc_policy_shape annots p :
    enc_policy print_ip ord annots p =
    pol_json (match annots with [] => None | _ => Some (rec_of_list (mapv JStr annots)) end) (p_effect p)
             (enc_scope (p_principal p)) (enc_scope (p_action p)) (enc_scope (p_resource p))
             (match p_conds p with [] => None | cs =>
                Some (map (fun c : bool * expr => JObj [(k "kind", JStr (if fst c then k "when" else k "unless")); (k "body", enc (snd c))]) cs) end).
  Proof. unfold enc_policy, pol_json. destruct annots, (p_conds p); reflexivity. Qed.

  Theorem dec_enc_policy : forall annots p, policy_okj p = true ->
    dec_policy (enc_policy print_ip ord annots p) = DOk (rec_of_list annots, normj_policy p).
  Proof.
    intros annots p Hok. unfold policy_okj in Hok. rewrite !andb_true_iff in Hok.
    destruct Hok as [[[Hsp Hsa] Hsr] Hcs]. rewrite forallb_forall in Hcs.
    rewrite enc_policy_shape.
    rewrite dec_policy_shape; try apply enc_scope_is_obj.
    - rewrite (dec_enc_scope _ _ Hsp), (dec_enc_scope _ _ Hsa), (dec_enc_scope _ _ Hsr).
      assert (Ha : match match annots with [] => None | _ => Some (rec_of_list (mapv JStr annots)) end with
                   | None => DOk []
                   | Some am => dbind (dall (map annot_dec am)) (fun kvs => DOk (rec_of_list kvs))
                   end = DOk (rec_of_list annots)).
      { destruct annots as [|a0 annots]; [reflexivity|]. set (l := a0 :: annots).
        rewrite rec_of_list_mapv. unfold mapv. rewrite map_map.
        rewrite (dall_map_ok _ (fun kv => kv)).
        - rewrite map_id. cbn [dbind]. rewrite rec_of_list_idem. reflexivity.
        - apply Forall_forall. intros [key v] _. reflexivity. }
      rewrite Ha. cbn [dbind].
      assert (Hc : match match p_conds p with [] => None | cs =>
                     Some (map (fun c : bool * expr => JObj [(k "kind", JStr (if fst c then k "when" else k "unless")); (k "body", enc (snd c))]) cs) end with
                   | None => DOk []
                   | Some cs => dall (map cond_dec cs)
                   end = DOk (map (fun c : bool * expr => (fst c, normj (snd c))) (p_conds p))).
      { destruct (p_conds p) as [|c0 cs] eqn:E; [reflexivity|]. rewrite <- E in *. clear E c0 cs.
        rewrite map_map. apply dall_map_ok. apply Forall_forall. intros [b e] Hc. cbn [fst snd].
        specialize (Hcs _ Hc). cbn [snd] in Hcs.
        rewrite cond_dec_step by (apply enc_is_obj; exact Hcs).
        rewrite (decode_encode_expr e Hcs). reflexivity. }
      rewrite Hc. cbn [dbind]. reflexivity.
    - rewrite jdups_pol_json, !jdups_enc_scope, !orb_false_r. apply orb_false_iff. split.
      + destruct annots as [|a0 annots]; [reflexivity|]. set (l := a0 :: annots).
        rewrite jdups_obj. apply orb_false_iff. split; [apply has_dups_sorted, rec_of_list_sorted_gen|].
        rewrite rec_of_list_mapv. apply existsb_false_Forall. apply Forall_forall. intros j Hj.
        apply in_map_iff in Hj. destruct Hj as (kv & <- & _). reflexivity.
      + destruct (p_conds p) as [|c0 cs] eqn:E; [reflexivity|]. rewrite <- E in *. clear E c0 cs.
        rewrite jdups_arr. apply existsb_false_Forall. apply Forall_forall. intros j Hj.
        apply in_map_iff in Hj. destruct Hj as ([b e] & <- & Hc). cbn [fst snd].
        rewrite jdups_obj2 by reflexivity. rewrite jdups_str. cbn [orb].
        apply jdups_enc. apply (Hcs _ Hc).
  Qed.

  (* ---- the normal form is again encodable: the second round trip is the identity ---- *)

  Lemma okj_normj : forall e, expr_okj e = true -> expr_okj (normj e) = true.
  Proof.
    apply (expr_ind' (fun e => expr_okj e = true -> expr_okj (normj e) = true));
      try (intros a b IHa IHb Hok; cbn [expr_okj normj] in *; apply andb_true_iff in Hok; destruct Hok as [Ha Hb];
           rewrite (IHa Ha), (IHb Hb); reflexivity);
      try (intros a IHa Hok; cbn [expr_okj normj] in *; exact (IHa Hok)).
    - intros v Hok. destruct v; try exact Hok; reflexivity.
    - intros x _. reflexivity.
    - intros a key IHa Hok. cbn [expr_okj normj] in *. exact (IHa Hok).
    - intros a key IHa Hok. cbn [expr_okj normj] in *. exact (IHa Hok).
    - intros a p IHa Hok. cbn [expr_okj normj] in *. apply andb_true_iff in Hok. destruct Hok as [Ha Hp].
      rewrite (IHa Ha), (norm_pat_canon p Hp). reflexivity.
    - intros a ty IHa Hok. cbn [expr_okj normj] in *. exact (IHa Hok).
    - intros a ty b IHa IHb Hok. cbn [expr_okj normj] in *. apply andb_true_iff in Hok. destruct Hok as [Ha Hb].
      rewrite (IHa Ha), (IHb Hb). reflexivity.
    - intros c t e IHc IHt IHe Hok. cbn [expr_okj normj] in *. rewrite !andb_true_iff in Hok. destruct Hok as [[Hc Ht] He].
      rewrite (IHc Hc), (IHt Ht), (IHe He). reflexivity.
    - intros es IH Hok. rewrite normj_set, okj_set in *. rewrite forallb_forall in *. rewrite Forall_forall in IH.
      intros y Hy. apply in_map_iff in Hy. destruct Hy as (x & <- & Hx). apply (IH x Hx (Hok x Hx)).
    - intros kvs IH Hok. rewrite normj_record, okj_record in *. rewrite rec_of_list_mapv.
      assert (HF : Forall (fun kv : str * expr => expr_okj (normj (snd kv)) = true) (rec_of_list kvs)).
      { apply (rec_of_list_Forall (fun x => expr_okj (normj x) = true)).
        rewrite Forall_forall in *. rewrite forallb_forall in Hok. intros kv Hkv. apply (IH kv Hkv (Hok kv Hkv)). }
      rewrite forallb_forall. rewrite Forall_forall in HF. intros y Hy. apply in_map_iff in Hy.
      destruct Hy as (kv & <- & Hkv). cbn [snd]. apply HF. exact Hkv.
    - intros n es IH Hok. rewrite normj_call, okj_call in *. destruct (ext_lookup n) as [[ar m]|]; [|discriminate].
      apply andb_true_iff in Hok. destruct Hok as [Hm Hok]. apply andb_true_iff. split.
      + destruct es; [exact Hm|]. destruct m; reflexivity.
      + rewrite forallb_forall in *. rewrite Forall_forall in IH.
        intros y Hy. apply in_map_iff in Hy. destruct Hy as (x & <- & Hx). apply (IH x Hx (Hok x Hx)).
    - intros kd Hok. discriminate.
  Qed.

  Theorem second_roundtrip : forall e, expr_okj e = true ->
    decode_expr (enc_expr print_ip ord (normj e)) = DOk (normj e).
  Proof. intros e Hok. rewrite (decode_encode_expr _ (okj_normj e Hok)), normj_idempotent. reflexivity. Qed.

  (* ---- the normal form is semantically harmless ---- *)

  (* decimal / ip literal values print to a text that parses back to them *)
  Fixpoint sem_okj (e : expr) : bool :=
    let fix all (l : list expr) : bool := match l with [] => true | x :: r => sem_okj x && all r end in
    let fix allkv (l : list (str * expr)) : bool := match l with [] => true | (_, x) :: r => sem_okj x && allkv r end in
    match e with
    | ELit (VDecimal z) => in64b z
    | ELit (VIP v6 a p) => ip_ok v6 a p
    | ELit _ | EVar _ | EPartialError _ => true
    | ENot a | ENeg a | EIsEmpty a | EAccess a _ | EHas a _ | EIs a _ | ELike a _ => sem_okj a
    | EAnd a b | EOr a b | EAdd a b | ESub a b | EMul a b | EEq a b | ENe a b | ELt a b | ELe a b | EGt a b | EGe a b
    | EIn a b | EContains a b | EContainsAll a b | EContainsAny a b | EGetTag a b | EHasTag a b | EIsIn a _ b => sem_okj a && sem_okj b
    | EIf c t f => sem_okj c && sem_okj t && sem_okj f
    | ESet es => all es
    | ERecord kvs => allkv kvs
    | ECall _ args => all args
    end.

  Lemma sem_all_forallb es :
    (fix all (l : list expr) : bool := match l with [] => true | x :: r => sem_okj x && all r end) es = forallb sem_okj es.
  Proof. induction es as [|x es IH]; [reflexivity|]. cbn [forallb]. rewrite <- IH. reflexivity. Qed.

  Lemma sem_set es : sem_okj (ESet es) = forallb sem_okj es.
  Proof. cbn [sem_okj]. apply sem_all_forallb. Qed.
  Lemma sem_call n es : sem_okj (ECall n es) = forallb sem_okj es.
  Proof. cbn [sem_okj]. apply sem_all_forallb. Qed.
  Lemma sem_record kvs : sem_okj (ERecord kvs) = forallb (fun kv => sem_okj (snd kv)) kvs.
  Proof.
    cbn [sem_okj]. induction kvs as [|[key x] kvs IH]; [reflexivity|]. cbn [forallb snd]. rewrite <- IH. reflexivity.
  Qed.

  Lemma call_decimal_lit s : call_ext (s_of "decimal") [Ok (VString s)] = opt_res (parse_decimal s) VDecimal.
  Proof. reflexivity. Qed.

  Lemma call_ip_lit s :
    call_ext (s_of "ip") [Ok (VString s)] = opt_res (parse_ip s) (fun x => VIP (fst (fst x)) (snd (fst x)) (snd x)).
  Proof. reflexivity. Qed.

  Theorem eval_normj : forall en e, sem_okj e = true -> eval en (normj e) = eval en e.
  Proof.
    intros en.
    apply (expr_ind' (fun e => sem_okj e = true -> eval en (normj e) = eval en e));
      try (intros a b IHa IHb Hok; cbn [sem_okj] in Hok; apply andb_true_iff in Hok; destruct Hok as [Ha Hb];
           cbn [normj eval]; rewrite (IHa Ha), (IHb Hb); reflexivity);
      try (intros a IHa Hok; cbn [sem_okj] in Hok; cbn [normj eval]; rewrite (IHa Hok); reflexivity).
    - intros v Hok. destruct v; try reflexivity; cbn [sem_okj] in Hok; cbn [normj eval map].
      + rewrite call_decimal_lit, (decimal_roundtrip z); [reflexivity|]. apply in64b_spec. exact Hok.
      + rewrite call_ip_lit, (ip_roundtrip _ _ _ Hok). reflexivity.
    - intros x _. reflexivity.
    - intros a key IHa Hok. cbn [sem_okj] in Hok. cbn [normj eval]. rewrite (IHa Hok). reflexivity.
    - intros a key IHa Hok. cbn [sem_okj] in Hok. cbn [normj eval]. rewrite (IHa Hok). reflexivity.
    - intros a p IHa Hok. cbn [sem_okj] in Hok. cbn [normj eval]. rewrite (IHa Hok).
      destruct p; [|reflexivity]. destruct (eval en a) as [v|]; [|reflexivity].
      destruct v; try reflexivity. destruct s; reflexivity.
    - intros a ty IHa Hok. cbn [sem_okj] in Hok. cbn [normj eval]. rewrite (IHa Hok). reflexivity.
    - intros a ty b IHa IHb Hok. cbn [sem_okj] in Hok. apply andb_true_iff in Hok. destruct Hok as [Ha Hb].
      cbn [normj eval]. rewrite (IHa Ha), (IHb Hb). reflexivity.
    - intros c t e IHc IHt IHe Hok. cbn [sem_okj] in Hok. rewrite !andb_true_iff in Hok. destruct Hok as [[Hc Ht] He].
      cbn [normj eval]. rewrite (IHc Hc), (IHt Ht), (IHe He). reflexivity.
    - intros es IH Hok. rewrite sem_set in Hok. rewrite normj_set. cbn [eval]. rewrite map_map.
      rewrite (pj_map_ext_Forall (fun x => eval en (normj x)) (eval en)); [reflexivity|].
      rewrite Forall_forall in *. rewrite forallb_forall in Hok. intros x Hx. apply (IH x Hx (Hok x Hx)).
    - intros kvs IH Hok. rewrite sem_record in Hok. rewrite normj_record. cbn [eval].
      change (map (fun kv : str * expr => (fst kv, eval en (snd kv))) (rec_of_list (mapv normj kvs)))
        with (mapv (eval en) (rec_of_list (mapv normj kvs))).
      change (map (fun kv : str * expr => (fst kv, eval en (snd kv))) kvs) with (mapv (eval en) kvs).
      rewrite <- rec_of_list_mapv, rec_of_list_idem, mapv_mapv.
      rewrite (mapv_ext_Forall (fun x => eval en (normj x)) (eval en)); [reflexivity|].
      rewrite Forall_forall in *. rewrite forallb_forall in Hok. intros x Hx. apply (IH x Hx (Hok x Hx)).
    - intros n es IH Hok. rewrite sem_call in Hok. rewrite normj_call. cbn [eval]. rewrite map_map.
      rewrite (pj_map_ext_Forall (fun x => eval en (normj x)) (eval en)); [reflexivity|].
      rewrite Forall_forall in *. rewrite forallb_forall in Hok. intros x Hx. apply (IH x Hx (Hok x Hx)).
    - intros kd _. reflexivity.
  Qed.
End PolicyJsonProofs.

(* ------------------------------------------------------------------------------------------ *)
(* The hypotheses are needed, the normal form is real (computed on the model)                  *)
(* ------------------------------------------------------------------------------------------ *)

Definition pj_no_ip : bool -> Z -> Z -> str := fun _ _ _ => [].
Definition pj_id : list json -> list json := fun l => l.
Notation pj_rt e := (decode_expr (enc_expr pj_no_ip pj_id e)).

(* the normal form: decimal literal values become calls, record entries become a map, the empty pattern gets its one component *)
Example pj_ex_decimal : pj_rt (ELit (VDecimal 12500)) = DOk (ECall (s_of "decimal") [ELit (VString (s_of "1.25"))]).
Proof. vm_compute. reflexivity. Qed.
Example pj_ex_record :
  pj_rt (ERecord [(s_of "b", ELit (VLong 1)); (s_of "a", ELit (VLong 2)); (s_of "b", ELit (VLong 3))]) =
  DOk (ERecord [(s_of "a", ELit (VLong 2)); (s_of "b", ELit (VLong 3))]).
Proof. vm_compute. reflexivity. Qed.
Example pj_ex_empty_pattern : pj_rt (ELike (EVar VContext) []) = DOk (ELike (EVar VContext) [(false, [])]).
Proof. vm_compute. reflexivity. Qed.

(* outside expr_okj the round trip fails *)
Example pj_ex_partial_error : pj_rt (EPartialError EType) = DErr.
Proof. vm_compute. reflexivity. Qed.
Example pj_ex_unknown_call : pj_rt (ECall (s_of "foo") []) = DErr.
Proof. vm_compute. reflexivity. Qed.
Example pj_ex_method_no_args : pj_rt (ECall (s_of "isIpv4") []) = DErr.
Proof. vm_compute. reflexivity. Qed.
Example pj_ex_call_named_like_a_key : pj_rt (ECall (s_of "Set") [ELit (VLong 1)]) = DOk (ESet [ELit (VLong 1)]).
Proof. vm_compute. reflexivity. Qed.
Example pj_ex_pattern_not_canonical :
  pj_rt (ELike (EVar VContext) [(false, s_of "a"); (false, s_of "b")]) = DOk (ELike (EVar VContext) [(false, s_of "ab")]).
Proof. vm_compute. reflexivity. Qed.
Example pj_ex_pattern_double_wildcard :
  pj_rt (ELike (EVar VContext) [(true, []); (true, s_of "b")]) = DOk (ELike (EVar VContext) [(true, s_of "b")]).
Proof. vm_compute. reflexivity. Qed.
(* a literal value outside json_safe: F17 (a record shaped like the extension escape) and an out-of-range long *)
Example pj_ex_f17 :
  pj_rt (ELit (VRecord [(s_of "__extn", VRecord [(s_of "arg", VString (s_of "1.0")); (s_of "fn", VString (s_of "decimal"))])])) =
  DOk (ELit (VDecimal 10000)).
Proof. vm_compute. reflexivity. Qed.
Example pj_ex_long_range : pj_rt (ELit (VLong (2 ^ 63))) = DErr.
Proof. vm_compute. reflexivity. Qed.
(* a member order other than the identity permutes literal sets *)
Example pj_ex_ord : decode_expr (enc_expr pj_no_ip (@rev json) (ELit (VSet [VLong 1; VLong 2]))) = DOk (ELit (VSet [VLong 2; VLong 1])).
Proof. vm_compute. reflexivity. Qed.

(* outside policy_okj: scopes the JSON format cannot express *)
Definition pj_pol (sp sa sr : scope) : policy :=
  {| p_effect := true; p_principal := sp; p_action := sa; p_resource := sr; p_conds := [] |}.
Example pj_ex_principal_in_set : dec_policy (enc_policy pj_no_ip pj_id [] (pj_pol (SInSet [(s_of "T", s_of "a")]) SAll SAll)) = DErr.
Proof. vm_compute. reflexivity. Qed.
Example pj_ex_resource_in_empty_set : dec_policy (enc_policy pj_no_ip pj_id [] (pj_pol SAll SAll (SInSet []))) = DErr.
Proof. vm_compute. reflexivity. Qed.
Example pj_ex_action_is : dec_policy (enc_policy pj_no_ip pj_id [] (pj_pol SAll (SIs (s_of "T")) SAll)) = DErr.
Proof. vm_compute. reflexivity. Qed.
Example pj_ex_action_is_in : dec_policy (enc_policy pj_no_ip pj_id [] (pj_pol SAll (SIsIn (s_of "T") (s_of "T", s_of "a")) SAll)) = DErr.
Proof. vm_compute. reflexivity. Qed.
(* annotations are a map *)
Example pj_ex_annots :
  dec_policy (enc_policy pj_no_ip pj_id [(s_of "b", s_of "1"); (s_of "a", s_of "2"); (s_of "b", s_of "3")] (pj_pol SAll SAll SAll)) =
  DOk ([(s_of "a", s_of "2"); (s_of "b", s_of "3")], pj_pol SAll SAll SAll).
Proof. vm_compute. reflexivity. Qed.

Print Assumptions decode_encode_expr.
Print Assumptions dec_enc_policy.
Print Assumptions normj_idempotent.
Print Assumptions second_roundtrip.
Print Assumptions eval_normj.
Print Assumptions dec_enc_pattern.
Print Assumptions compile_pattern_canon.
Print Assumptions pat_canon_necessary.
