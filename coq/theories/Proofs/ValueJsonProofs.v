(* Round trip of the JSON codec of Cedar values (Impl/ValueJson.v) on JSON trees.
   - value_json_roundtrip      : for json_safe values, decode (encode v) is a value Cedar-equal to v (any member order of sets)
   - value_json_roundtrip_eq   : with the identity member order the decoded value is identical
   - decode_type_faithful      : the decoded value has the type of the encoded one
   - value_json_roundtrip_refuted : without the json_safe restriction the round trip fails (record shaped like an escape, F17) *)
From Coq Require Import ZArith List Bool Lia Arith String Permutation.
Import ListNotations.
From Cedar Require Import Base.Int64 Base.Json Lang.Value Impl.Decimal Impl.Duration Impl.Datetime Impl.IPAddr Impl.ValueJson.
From Cedar Require Import Proofs.ValueProofs Proofs.DecimalProofs Proofs.DurationProofs Proofs.DatetimeProofs.
Local Open Scope Z_scope.

(* ------------------------------------------------------------------------------------------ *)
(* Generic helpers (independent of the section variables)                                      *)
(* ------------------------------------------------------------------------------------------ *)

Lemma vj_all_some_map_Some {A} (l : list A) : all_some (List.map Some l) = Some l.
Proof. induction l as [|x l IH]; cbn [List.map all_some]; [reflexivity|]. rewrite IH. reflexivity. Qed.

Lemma vj_jget_none k (l : list (str * json)) :
  forallb (fun kv => negb (str_eqb (fst kv) k)) l = true -> jget k l = None.
Proof.
  induction l as [|[k' x] l IH]; cbn [forallb jget fst]; [reflexivity|].
  rewrite andb_true_iff, negb_true_iff. intros [Hk Hl]. rewrite (IH Hl), Hk. reflexivity.
Qed.

(* --- records: an already sorted association list is its own canonical form --- *)

Lemma vj_sorted_all_lt {A} k (v : A) l :
  keys_sorted ((k, v) :: l) = true -> Forall (fun kv => str_ltb k (fst kv) = true) l.
Proof.
  revert k v. induction l as [|[k' v'] l IH]; intros k v Hs; constructor.
  - apply keys_sorted_cons in Hs. destruct Hs as [Hlb _]. exact Hlb.
  - apply keys_sorted_cons in Hs. destruct Hs as [Hlb Hs]. cbn [lb] in Hlb.
    pose proof (IH k' v' Hs) as HF. rewrite Forall_forall in *. intros kv Hkv.
    eapply str_ltb_trans; [exact Hlb | apply HF; exact Hkv].
Qed.

Lemma vj_sorted_app_l {A} (a b : list (str * A)) : keys_sorted (a ++ b) = true -> keys_sorted a = true.
Proof.
  induction a as [|[k v] a IH]; intros Hs; [reflexivity|].
  cbn [app] in Hs. apply keys_sorted_cons in Hs. destruct Hs as [Hlb Hs].
  apply keys_sorted_cons. split; [|apply IH; exact Hs].
  destruct a as [|[k' v'] a]; cbn [lb app] in *; auto.
Qed.

Lemma vj_insert_last {A} k (v : A) acc :
  keys_sorted (acc ++ [(k, v)]) = true -> rec_insert k v acc = acc ++ [(k, v)].
Proof.
  induction acc as [|[k' v'] acc IH]; intros Hs; [reflexivity|].
  cbn [app] in Hs. pose proof (vj_sorted_all_lt _ _ _ Hs) as HF.
  rewrite Forall_forall in HF.
  assert (Hlt : str_ltb k' k = true).
  { apply (HF (k, v)). apply in_app_iff. right. left. reflexivity. }
  cbn [rec_insert app]. rewrite (str_ltb_asym _ _ Hlt).
  destruct (str_eqb k k') eqn:E.
  { apply str_eqb_eq in E. subst k'. rewrite str_ltb_irrefl in Hlt. discriminate. }
  f_equal. apply IH. apply keys_sorted_cons in Hs. tauto.
Qed.

Lemma vj_rec_of_list_sorted_id {A} (l : list (str * A)) : keys_sorted l = true -> rec_of_list l = l.
Proof.
  unfold rec_of_list.
  assert (H : forall (l acc : list (str * A)), keys_sorted (acc ++ l) = true ->
            fold_left (fun acc kv => rec_insert (fst kv) (snd kv) acc) l acc = acc ++ l).
  { clear l. induction l as [|[k v] l IH]; intros acc Hs; cbn [fold_left fst snd].
    - rewrite app_nil_r. reflexivity.
    - assert (Hs' : keys_sorted ((acc ++ [(k, v)]) ++ l) = true).
      { rewrite <- app_assoc. exact Hs. }
      rewrite vj_insert_last; [|eapply vj_sorted_app_l; exact Hs'].
      rewrite IH; [|exact Hs']. rewrite <- app_assoc. reflexivity. }
  intros Hs. apply (H l []). exact Hs.
Qed.

Lemma vj_keys_sorted_ext {A B} (l : list (str * A)) (m : list (str * B)) :
  List.map fst l = List.map fst m -> keys_sorted l = keys_sorted m.
Proof.
  revert m. induction l as [|[k x] l IH]; intros [|[k' y] m] H; try discriminate; [reflexivity|].
  cbn [List.map fst] in H. injection H as -> H.
  destruct l as [|[k2 x2] l], m as [|[k2' y2] m]; try discriminate; [reflexivity|].
  change (str_ltb k' k2 && keys_sorted ((k2, x2) :: l) = str_ltb k' k2' && keys_sorted ((k2', y2) :: m)).
  rewrite (IH _ H). cbn [List.map fst] in H. injection H as -> _. reflexivity.
Qed.

(* --- sets: a duplicate-free list of well-formed values is its own canonical form --- *)

Lemma vj_nodup_app_false : forall l1 l2 a b, nodup_veq (l1 ++ l2) = true -> In a l1 -> In b l2 -> veq a b = false.
Proof.
  induction l1 as [|x l1 IH]; intros l2 a b Hnd Ha Hb; [destruct Ha|].
  cbn [app nodup_veq] in Hnd. apply andb_true_iff in Hnd. destruct Hnd as [Hn Hnd].
  apply negb_true_iff in Hn. destruct Ha as [<-|Ha].
  - destruct (veq x b) eqn:E; auto.
    assert (Hm : vmem x (l1 ++ l2) = true).
    { apply vmem_true_iff. exists b. split; auto. apply in_app_iff. auto. }
    congruence.
  - eapply IH; eauto.
Qed.

Lemma vj_dedup_nodup_id : forall l acc,
  (forall x, In x l -> wf_value x = true) -> (forall x, In x acc -> wf_value x = true) ->
  nodup_veq (rev acc ++ l) = true -> dedup l acc = rev acc ++ l.
Proof.
  induction l as [|y l IH]; intros acc Hl Hacc Hnd; cbn [dedup].
  - rewrite app_nil_r. reflexivity.
  - assert (Hy : wf_value y = true) by (apply Hl; left; reflexivity).
    assert (E : vmem y acc = false).
    { destruct (vmem y acc) eqn:E; auto. apply vmem_true_iff in E. destruct E as (a & Ha & R).
      rewrite veq_sym in R; auto.
      assert (F : veq a y = false).
      { apply (vj_nodup_app_false (rev acc) (y :: l) a y Hnd).
        - apply in_rev. rewrite rev_involutive. exact Ha.
        - left. reflexivity. }
      congruence. }
    rewrite E. rewrite IH.
    + cbn [rev]. rewrite <- app_assoc. reflexivity.
    + intros x Hx. apply Hl. right. exact Hx.
    + intros x [<-|Hx]; auto.
    + cbn [rev]. rewrite <- app_assoc. exact Hnd.
Qed.

Lemma vj_mk_set_nodup_id l :
  (forall x, In x l -> wf_value x = true) -> nodup_veq l = true -> mk_set l = VSet l.
Proof.
  intros Hw Hnd. unfold mk_set. rewrite vj_dedup_nodup_id; auto.
Qed.

(* --- constant key computations --- *)

Lemma vj_jget_single k (x : json) : jget k [(k, x)] = Some x.
Proof. cbn [jget]. rewrite str_eqb_refl. reflexivity. Qed.

Lemma vj_extn_fields (f arg : str) :
  str_field k_fn [(k_fn, JStr f); (k_arg, JStr arg)] = Some f /\
  str_field k_arg [(k_fn, JStr f); (k_arg, JStr arg)] = Some arg.
Proof. split; reflexivity. Qed.

Lemma vj_extn_probe_extn fn arg : extn_probe (extn fn arg) = Some (s_of fn, arg).
Proof.
  unfold extn, extn_probe. rewrite vj_jget_single.
  destruct (vj_extn_fields (s_of fn) arg) as [-> ->]. reflexivity.
Qed.

Lemma vj_decode_extn_obj fn arg : decode_value (extn fn arg) = decode_extn (s_of fn) arg.
Proof.
  unfold extn. cbn [decode_value]. fold (extn fn arg). rewrite vj_extn_probe_extn. reflexivity.
Qed.

Lemma vj_extn_probe_entity (x : json) : extn_probe (JObj [(k_entity, x)]) = None.
Proof. reflexivity. Qed.

Lemma vj_entity_probe_entity t i :
  entity_probe [(k_entity, JObj [(k_type, JStr t); (k_id, JStr i)])] = Some (t, i).
Proof. reflexivity. Qed.

(* --- unfolding equations of the two nested fixpoints --- *)

Definition vj_dec_fields (l : list (str * json)) : list (option (str * value)) :=
  List.map (fun kx => option_map (pair (fst kx)) (decode_value (snd kx))) l.

Lemma vj_decode_obj l :
  decode_value (JObj l) =
  match extn_probe (JObj l) with
  | Some (fn, arg) => decode_extn fn arg
  | None =>
      match entity_probe l with
      | Some (t, i) => Some (VEntity t i)
      | None => option_map mk_record (all_some (vj_dec_fields l))
      end
  end.
Proof.
  cbn [decode_value]. destruct (extn_probe (JObj l)) as [[fn arg]|]; [reflexivity|].
  destruct (entity_probe l) as [[t i]|]; [reflexivity|].
  f_equal. f_equal. unfold vj_dec_fields.
  induction l as [|[k x] l IH]; cbn [List.map fst snd]; [reflexivity|]. rewrite IH. reflexivity.
Qed.

Lemma vj_decode_arr l : decode_value (JArr l) = option_map mk_set (all_some (List.map decode_value l)).
Proof. reflexivity. Qed.

Section ValueJsonProofs.
  Variable print_ip : bool -> Z -> Z -> str.
  Variable ord : list json -> list json.
  Hypothesis ord_perm : forall l, Permutation (ord l) l.
  (* net/netip's printer is Go's standard library and is not modelled: its round trip is assumed for the ip values considered *)
  Variable ip_ok : bool -> Z -> Z -> bool.
  Hypothesis ip_roundtrip : forall v6 a p, ip_ok v6 a p = true -> parse_ip (print_ip v6 a p) = Some (v6, a, p).

  Definition key_ok (k : str) : bool := negb (str_eqb k k_extn) && negb (str_eqb k k_entity).

  (* values for which the JSON form is unambiguous and every scalar is in its printable range *)
  Fixpoint json_safe (v : value) : bool :=
    match v with
    | VBool _ => true
    | VString _ => true
    | VEntity _ _ => true
    | VLong z => in64b z
    | VDecimal z => in64b z
    | VDuration z => in64b z
    | VDatetime z => in_dt_range z
    | VIP v6 a p => ip_ok v6 a p
    | VSet l => nodup_veq l &&
        (fix all (l : list value) : bool :=
           match l with [] => true | x :: l' => json_safe x && all l' end) l
    | VRecord l => keys_sorted l &&
        (fix all (l : list (str * value)) : bool :=
           match l with [] => true | (k, x) :: l' => key_ok k && json_safe x && all l' end) l
    end.

  Lemma json_safe_set l : json_safe (VSet l) = nodup_veq l && forallb json_safe l.
  Proof. cbn [json_safe]. f_equal. Qed.

  Lemma json_safe_record l :
    json_safe (VRecord l) = keys_sorted l && forallb (fun kv => key_ok (fst kv) && json_safe (snd kv)) l.
  Proof.
    cbn [json_safe]. f_equal. induction l as [|[k x] l IH]; [reflexivity|].
    cbn [forallb fst snd]. rewrite <- IH. reflexivity.
  Qed.

  Lemma json_safe_wf : forall v, json_safe v = true -> wf_value v = true.
  Proof.
    apply (value_ind' (fun v => json_safe v = true -> wf_value v = true)); try (intros; reflexivity).
    - intros l HF. rewrite json_safe_set, wf_value_set, !andb_true_iff, !forallb_forall.
      rewrite Forall_forall in HF. intros [Hnd Hs]. split; auto.
    - intros l HF. rewrite json_safe_record, wf_value_record, !andb_true_iff, !forallb_forall.
      rewrite Forall_forall in HF. intros [Hk Hs]. split; auto.
      intros kv Hkv. apply HF; auto. specialize (Hs kv Hkv). apply andb_true_iff in Hs. tauto.
  Qed.

  Notation enc := (encode_value print_ip ord).

  Definition enc_field (kv : str * value) : str * json := (fst kv, enc (snd kv)).

  Lemma encode_record l : enc (VRecord l) = JObj (List.map enc_field l).
  Proof.
    cbn [encode_value]. f_equal. unfold enc_field.
    induction l as [|[k x] l IH]; cbn [List.map fst snd]; [reflexivity|]. rewrite IH. reflexivity.
  Qed.

  Definition idord : Prop := forall l, ord l = l.

  (* the strengthened round-trip relation between a value and what its encoding decodes to *)
  Definition rt (x x' : value) : Prop :=
    decode_value (enc x) = Some x' /\ veq x x' = true /\ wf_value x' = true /\ (idord -> x' = x).

  Lemma rt_list l :
    Forall (fun x => json_safe x = true -> exists x', rt x x') l ->
    forallb json_safe l = true -> exists l', Forall2 rt l l'.
  Proof.
    intros HF. induction HF as [|x l Hx _ IH]; cbn [forallb]; intros Hs.
    - exists []. constructor.
    - apply andb_true_iff in Hs. destruct Hs as [Hsx Hsl].
      destruct (Hx Hsx) as [x' Hx']. destruct (IH Hsl) as [l' Hl'].
      exists (x' :: l'). constructor; auto.
  Qed.

  Lemma rt_list_decode l l' : Forall2 rt l l' -> List.map decode_value (List.map enc l) = List.map Some l'.
  Proof.
    intros H. induction H as [|x x' l l' Hx _ IH]; cbn [List.map]; [reflexivity|].
    destruct Hx as [-> _]. rewrite IH. reflexivity.
  Qed.

  Lemma rt_list_id l l' : idord -> Forall2 rt l l' -> l' = l.
  Proof.
    intros Hid H. induction H as [|x x' l l' Hx _ IH]; [reflexivity|].
    destruct Hx as (_ & _ & _ & E). rewrite (E Hid), IH. reflexivity.
  Qed.

  Lemma rt_list_wf l l' : Forall2 rt l l' -> forall x, In x l' -> wf_value x = true.
  Proof.
    intros H. induction H as [|x x' l l' Hx _ IH]; intros y Hy; [destruct Hy|].
    destruct Hy as [<-|Hy]; auto. destruct Hx as (_ & _ & W & _). exact W.
  Qed.

  Lemma rt_list_fwd l l' : Forall2 rt l l' -> forall x, In x l -> exists x', In x' l' /\ rt x x'.
  Proof.
    intros H. induction H as [|x x' l l' Hx _ IH]; intros y Hy; [destruct Hy|].
    destruct Hy as [<-|Hy].
    - exists x'. split; [left; reflexivity | exact Hx].
    - destruct (IH y Hy) as (y' & Hy' & R). exists y'. split; [right; exact Hy' | exact R].
  Qed.

  Lemma rt_list_bwd l l' : Forall2 rt l l' -> forall x', In x' l' -> exists x, In x l /\ rt x x'.
  Proof.
    intros H. induction H as [|x x' l l' Hx _ IH]; intros y Hy; [destruct Hy|].
    destruct Hy as [<-|Hy].
    - exists x. split; [left; reflexivity | exact Hx].
    - destruct (IH y Hy) as (y' & Hy' & R). exists y'. split; [right; exact Hy' | exact R].
  Qed.

  (* records: fieldwise relation *)
  Definition rtf (kv kv' : str * value) : Prop := fst kv = fst kv' /\ rt (snd kv) (snd kv').

  Lemma rtf_list l :
    Forall (fun kv => json_safe (snd kv) = true -> exists x', rt (snd kv) x') l ->
    forallb (fun kv => key_ok (fst kv) && json_safe (snd kv)) l = true -> exists l', Forall2 rtf l l'.
  Proof.
    intros HF. induction HF as [|[k x] l Hx _ IH]; cbn [forallb fst snd]; intros Hs.
    - exists []. constructor.
    - cbn [snd] in Hx. apply andb_true_iff in Hs. destruct Hs as [Hsx Hsl].
      apply andb_true_iff in Hsx. destruct Hsx as [_ Hsx].
      destruct (Hx Hsx) as [x' Hx']. destruct (IH Hsl) as [l' Hl'].
      exists ((k, x') :: l'). constructor; auto. split; auto.
  Qed.

  Lemma rtf_list_decode l l' : Forall2 rtf l l' -> vj_dec_fields (List.map enc_field l) = List.map Some l'.
  Proof.
    unfold vj_dec_fields. intros H.
    induction H as [|[k x] [k' x'] l l' Hx _ IH]; cbn [List.map]; [reflexivity|].
    destruct Hx as [Hk [Hd _]]. cbn [fst snd] in *. subst k'. unfold enc_field at 1 2. cbn [fst snd].
    rewrite Hd, IH. reflexivity.
  Qed.

  Lemma rtf_list_keys l l' : Forall2 rtf l l' -> List.map fst l = List.map fst l'.
  Proof.
    intros H. induction H as [|kv kv' l l' Hx _ IH]; cbn [List.map]; [reflexivity|].
    destruct Hx as [-> _]. rewrite IH. reflexivity.
  Qed.

  Lemma rtf_list_eqb l l' : Forall2 rtf l l' -> rec_eqb l l' = true.
  Proof.
    intros H. induction H as [|[k x] [k' x'] l l' Hx _ IH]; cbn [rec_eqb]; [reflexivity|].
    destruct Hx as [Hk (_ & R & _)]. cbn [fst snd] in *. subst k'.
    rewrite str_eqb_refl, R, IH. reflexivity.
  Qed.

  Lemma rtf_list_wf l l' : Forall2 rtf l l' -> forallb (fun kv => wf_value (snd kv)) l' = true.
  Proof.
    intros H. induction H as [|kv kv' l l' Hx _ IH]; cbn [forallb]; [reflexivity|].
    destruct Hx as [_ (_ & _ & W & _)]. rewrite W, IH. reflexivity.
  Qed.

  Lemma rtf_list_id l l' : idord -> Forall2 rtf l l' -> l' = l.
  Proof.
    intros Hid H. induction H as [|[k x] [k' x'] l l' Hx _ IH]; [reflexivity|].
    destruct Hx as [Hk (_ & _ & _ & E)]. cbn [fst snd] in *. rewrite (E Hid), IH, Hk. reflexivity.
  Qed.

  Lemma enc_fields_no_key k l :
    forallb (fun kv => negb (str_eqb (fst kv) k)) l = true -> jget k (List.map enc_field l) = None.
  Proof.
    intros H. apply vj_jget_none. rewrite forallb_forall in *. intros kx Hkx.
    apply in_map_iff in Hkx. destruct Hkx as (kv & <- & Hkv). cbn [enc_field fst]. apply H. exact Hkv.
  Qed.

  (* ---------------------------------------------------------------------------------------- *)
  (* Main lemma                                                                                 *)
  (* ---------------------------------------------------------------------------------------- *)

  Lemma rt_atomic x : atomic x -> decode_value (enc x) = Some x -> rt x x.
  Proof.
    intros Ha Hd. repeat split; auto.
    - apply veq_refl.
    - destruct x; try reflexivity; destruct Ha.
  Qed.

  Lemma roundtrip_main : forall v, json_safe v = true -> exists v', rt v v'.
  Proof.
    apply (value_ind' (fun v => json_safe v = true -> exists v', rt v v')).
    - intros b _. exists (VBool b). apply rt_atomic; [exact I | reflexivity].
    - intros z Hs. exists (VLong z). apply rt_atomic; [exact I|].
      cbn [json_safe] in Hs. cbn [encode_value decode_value extn_probe]. rewrite Hs. reflexivity.
    - intros s _. exists (VString s). apply rt_atomic; [exact I | reflexivity].
    - intros t i _. exists (VEntity t i). apply rt_atomic; [exact I|].
      cbn [encode_value]. rewrite vj_decode_obj, vj_extn_probe_entity, vj_entity_probe_entity. reflexivity.
    - (* sets *)
      intros l HF Hs. rewrite json_safe_set in Hs. apply andb_true_iff in Hs. destruct Hs as [Hnd Hsl].
      assert (Hwl : forall x, In x l -> wf_value x = true).
      { intros x Hx. apply json_safe_wf. rewrite forallb_forall in Hsl. auto. }
      destruct (rt_list l HF Hsl) as [l' Hl'].
      pose proof (rt_list_decode _ _ Hl') as Hdec.
      unfold rt. cbn [encode_value]. rewrite vj_decode_arr.
      (* the array is a permutation of the encoded members *)
      pose proof (ord_perm (List.map enc l)) as Hp.
      pose proof (Permutation_map decode_value Hp) as Hp2. rewrite Hdec in Hp2.
      destruct (Permutation_map_inv _ _ Hp2) as (l'' & El'' & Hp3).
      rewrite El'', vj_all_some_map_Some. cbn [option_map].
      exists (mk_set l'').
      assert (Hwl' : forall x, In x l' -> wf_value x = true) by (apply (rt_list_wf _ _ Hl')).
      assert (Hwl'' : forall x, In x l'' -> wf_value x = true).
      { intros x Hx. apply Hwl'. eapply Permutation_in; [apply Permutation_sym; exact Hp3 | exact Hx]. }
      assert (Hwf'' : wf_value (mk_set l'') = true).
      { apply mk_set_wf. apply Forall_forall. exact Hwl''. }
      split; [reflexivity|]. split; [|split; [exact Hwf''|]].
      + rewrite <- (vj_mk_set_nodup_id l Hwl Hnd).
        apply mk_set_order_irrelevant; try (apply Forall_forall; assumption).
        intros x _.
        destruct (vmem x l) eqn:E1; symmetry.
        * apply vmem_true_iff in E1. destruct E1 as (y & Hy & R).
          destruct (rt_list_fwd _ _ Hl' y Hy) as (y' & Hy' & (_ & Ryy' & _)).
          apply vmem_true_iff. exists y'. split.
          { eapply Permutation_in; [exact Hp3 | exact Hy']. }
          eapply veq_trans_nowf; eauto.
        * destruct (vmem x l'') eqn:E2; auto.
          apply vmem_true_iff in E2. destruct E2 as (y' & Hy' & R).
          assert (Hy'2 : In y' l') by (eapply Permutation_in; [apply Permutation_sym; exact Hp3 | exact Hy']).
          destruct (rt_list_bwd _ _ Hl' y' Hy'2) as (y & Hy & (_ & Ryy' & Wy' & _)).
          assert (Hm : vmem x l = true).
          { apply vmem_true_iff. exists y. split; auto. eapply veq_trans_nowf; [exact R|].
            rewrite veq_sym; auto. }
          congruence.
      + intros Hid.
        assert (l'' = l').
        { rewrite Hid in El''. rewrite Hdec in El''. clear - El''.
          revert l'' El''. induction l' as [|a l' IH]; intros [|b m] E; try discriminate; auto.
          cbn [List.map] in E. injection E as -> E. f_equal. apply IH. exact E. }
        subst l''. rewrite (rt_list_id _ _ Hid Hl'). apply vj_mk_set_nodup_id; auto.
    - (* records *)
      intros l HF Hs. rewrite json_safe_record in Hs. apply andb_true_iff in Hs. destruct Hs as [Hks Hsl].
      destruct (rtf_list l HF Hsl) as [l' Hl'].
      assert (Hk1 : forallb (fun kv : str * value => negb (str_eqb (fst kv) k_extn)) l = true).
      { rewrite forallb_forall in *. intros kv Hkv. specialize (Hsl kv Hkv).
        unfold key_ok in Hsl. rewrite !andb_true_iff in Hsl. tauto. }
      assert (Hk2 : forallb (fun kv : str * value => negb (str_eqb (fst kv) k_entity)) l = true).
      { rewrite forallb_forall in *. intros kv Hkv. specialize (Hsl kv Hkv).
        unfold key_ok in Hsl. rewrite !andb_true_iff in Hsl. tauto. }
      unfold rt. rewrite encode_record, vj_decode_obj.
      unfold extn_probe, entity_probe.
      rewrite (enc_fields_no_key _ _ Hk1), (enc_fields_no_key _ _ Hk2).
      rewrite (rtf_list_decode _ _ Hl'), vj_all_some_map_Some. cbn [option_map].
      assert (Hks' : keys_sorted l' = true).
      { rewrite <- (vj_keys_sorted_ext l l'); auto. apply rtf_list_keys; auto. }
      unfold mk_record. rewrite (vj_rec_of_list_sorted_id l' Hks').
      exists (VRecord l'). split; [reflexivity|]. split; [|split].
      + rewrite veq_record. apply rtf_list_eqb; auto.
      + rewrite wf_value_record, Hks'. cbn [andb]. eapply rtf_list_wf; eauto.
      + intros Hid. rewrite (rtf_list_id _ _ Hid Hl'). reflexivity.
    - intros z Hs. exists (VDecimal z). apply rt_atomic; [exact I|].
      cbn [json_safe] in Hs. apply in64b_spec in Hs.
      cbn [encode_value]. rewrite vj_decode_extn_obj.
      unfold decode_extn.
      replace (is_name (s_of "decimal") "ip") with false by reflexivity.
      replace (is_name (s_of "decimal") "decimal") with true by reflexivity.
      rewrite (decimal_roundtrip z Hs). reflexivity.
    - intros z Hs. exists (VDatetime z). apply rt_atomic; [exact I|].
      cbn [json_safe] in Hs.
      cbn [encode_value]. rewrite vj_decode_extn_obj.
      unfold decode_extn.
      replace (is_name (s_of "datetime") "ip") with false by reflexivity.
      replace (is_name (s_of "datetime") "decimal") with false by reflexivity.
      replace (is_name (s_of "datetime") "datetime") with true by reflexivity.
      rewrite (datetime_roundtrip z Hs). reflexivity.
    - intros z Hs. exists (VDuration z). apply rt_atomic; [exact I|].
      cbn [json_safe] in Hs. apply in64b_spec in Hs.
      cbn [encode_value]. rewrite vj_decode_extn_obj.
      unfold decode_extn.
      replace (is_name (s_of "duration") "ip") with false by reflexivity.
      replace (is_name (s_of "duration") "decimal") with false by reflexivity.
      replace (is_name (s_of "duration") "datetime") with false by reflexivity.
      replace (is_name (s_of "duration") "duration") with true by reflexivity.
      rewrite (duration_roundtrip z Hs). reflexivity.
    - intros b a p Hs. exists (VIP b a p). apply rt_atomic; [exact I|].
      cbn [json_safe] in Hs.
      cbn [encode_value]. rewrite vj_decode_extn_obj.
      unfold decode_extn.
      replace (is_name (s_of "ip") "ip") with true by reflexivity.
      rewrite (ip_roundtrip b a p Hs). reflexivity.
  Qed.

  (* ---------------------------------------------------------------------------------------- *)
  (* Headline theorems                                                                          *)
  (* ---------------------------------------------------------------------------------------- *)

  Theorem value_json_roundtrip : forall v, json_safe v = true ->
    exists v', decode_value (encode_value print_ip ord v) = Some v' /\ veq v v' = true /\ veq v' v = true.
  Proof.
    intros v Hs. destruct (roundtrip_main v Hs) as (v' & Hd & R & W & _).
    exists v'. repeat split; auto. rewrite veq_sym; auto. apply json_safe_wf; auto.
  Qed.

  (* the decoded value is moreover well-formed (canonical set / record representation) *)
  Theorem value_json_decoded_wf : forall v v', json_safe v = true ->
    decode_value (encode_value print_ip ord v) = Some v' -> wf_value v' = true.
  Proof.
    intros v v' Hs Hd. destruct (roundtrip_main v Hs) as (v'' & Hd' & _ & W & _). congruence.
  Qed.

  Theorem value_json_roundtrip_eq : forall v, json_safe v = true -> (forall l, ord l = l) ->
    decode_value (encode_value print_ip ord v) = Some v.
  Proof.
    intros v Hs Hid. destruct (roundtrip_main v Hs) as (v' & Hd & _ & _ & E).
    rewrite Hd, (E Hid). reflexivity.
  Qed.

  Theorem decode_type_faithful : forall v v', json_safe v = true ->
    decode_value (encode_value print_ip ord v) = Some v' -> type_tag v' = type_tag v.
  Proof.
    intros v v' Hs Hd. destruct (roundtrip_main v Hs) as (v'' & Hd' & R & _ & _).
    assert (v'' = v') by congruence. subst v''. symmetry. apply veq_type_tag. exact R.
  Qed.

  (* the unrestricted statement is false: a record shaped like the escape decodes as the escape (known finding F17) *)
  Theorem value_json_roundtrip_refuted :
    exists v v', decode_value (encode_value print_ip ord v) = Some v' /\ veq v v' = false.
  Proof.
    exists (VRecord [(s_of "__extn", VRecord [(s_of "arg", VString (s_of "1.0")); (s_of "fn", VString (s_of "decimal"))])]).
    exists (VDecimal 10000). split; [vm_compute; reflexivity | reflexivity].
  Qed.

  (* the witness is a well-formed value; it is excluded by json_safe only because of its key *)
  Example refuted_witness_wf :
    wf_value (VRecord [(s_of "__extn", VRecord [(s_of "arg", VString (s_of "1.0")); (s_of "fn", VString (s_of "decimal"))])]) = true /\
    json_safe (VRecord [(s_of "__extn", VRecord [(s_of "arg", VString (s_of "1.0")); (s_of "fn", VString (s_of "decimal"))])]) = false.
  Proof. split; vm_compute; reflexivity. Qed.
End ValueJsonProofs.

(* ------------------------------------------------------------------------------------------ *)
(* Examples (computed)                                                                          *)
(* ------------------------------------------------------------------------------------------ *)

Definition vj_ex_value : value :=
  VRecord [ (s_of "a", VSet [VLong 1; VDecimal 12500; VString (s_of "x")]);
            (s_of "b", VRecord [(s_of "d", VDatetime 1700000000123); (s_of "e", VEntity (s_of "User") (s_of "alice"))]);
            (s_of "c", VSet [VSet [VBool true; VBool false]; VSet []; VDuration 90061001]) ].

Definition vj_no_ip : bool -> Z -> Z -> str := fun _ _ _ => [].

Example vj_ex_safe : json_safe (fun _ _ _ => false) vj_ex_value = true.
Proof. vm_compute. reflexivity. Qed.

Example vj_ex_roundtrip_id :
  decode_value (encode_value vj_no_ip (fun l => l) vj_ex_value) = Some vj_ex_value.
Proof. vm_compute. reflexivity. Qed.

Example vj_ex_roundtrip_rev :
  match decode_value (encode_value vj_no_ip (@rev json) vj_ex_value) with
  | Some v' => veq vj_ex_value v' && veq v' vj_ex_value && negb (veq (VSet [v']) (VSet []))
  | None => false
  end = true.
Proof. vm_compute. reflexivity. Qed.

(* with the reversed member order the decoded value is Cedar-equal but not syntactically identical *)
Example vj_ex_roundtrip_rev_set :
  decode_value (encode_value vj_no_ip (@rev json) (VSet [VLong 1; VLong 2])) = Some (VSet [VLong 2; VLong 1]).
Proof. vm_compute. reflexivity. Qed.

(* F17 on JSON trees: the escape-shaped record is read as a decimal *)
Example vj_ex_f17 :
  decode_value (encode_value vj_no_ip (fun l => l)
     (VRecord [(s_of "__extn", VRecord [(s_of "arg", VString (s_of "1.0")); (s_of "fn", VString (s_of "decimal"))])]))
  = Some (VDecimal 10000).
Proof. vm_compute. reflexivity. Qed.

Print Assumptions value_json_roundtrip.
Print Assumptions value_json_roundtrip_eq.
Print Assumptions decode_type_faithful.
Print Assumptions value_json_decoded_wf.
Print Assumptions value_json_roundtrip_refuted.
