(* Total correctness of the iterative ancestor search of internal/eval/evalers.go
   (entityInOne / entityInSet) as modelled in Impl/InSearch.v: with fuel at least
   1 + (number of present entities) the search never runs out of fuel, and it decides
   reflexive-transitive reachability along the parents relation.

   Generalised from the feasibility spike notes/spikes/Dfs.v (nat keys, partial correctness only).
   No NoDup assumption on [keys] / on the store is needed: [known] is duplicate-free and included
   in [keys], so [NoDup_incl_length] bounds its length whatever the multiplicities in [keys]. *)
From Coq Require Import ZArith List Arith Lia Bool.
Import ListNotations.
From Cedar Require Import Lang.Value Lang.Expr Impl.InSearch Impl.Eval.

Section InSearchProofs.
  Variable id : Type.
  Variable eqb : id -> id -> bool.
  Hypothesis eqb_eq : forall a b, eqb a b = true <-> a = b.
  Variable parents : id -> option (list id).
  Variable keys : list id.                                   (* the finite set of present entities *)
  Hypothesis keys_complete : forall k ps, parents k = Some ps -> In k keys.

  Definition edge (x y : id) : Prop := exists ps, parents x = Some ps /\ In y ps.
  Inductive reach (a : id) : id -> Prop :=
  | r_refl : reach a a
  | r_step : forall y z, reach a y -> edge y z -> reach a z.

  Local Notation mem := (Cedar.Impl.InSearch.mem id eqb).
  Local Notation expandable := (Cedar.Impl.InSearch.expandable id parents).
  Local Notation scan := (Cedar.Impl.InSearch.scan id eqb parents).
  Local Notation loop := (Cedar.Impl.InSearch.loop id eqb parents).

  (* ---------------- basic facts ---------------- *)
  Lemma eqb_neq a b : eqb a b = false <-> a <> b.
  Proof. rewrite <- eqb_eq. destruct (eqb a b); split; congruence. Qed.

  Lemma mem_In x l : mem x l = true <-> In x l.
  Proof.
    unfold Cedar.Impl.InSearch.mem. rewrite existsb_exists. split.
    - intros [y [Hy He]]. apply eqb_eq in He. subst. exact Hy.
    - intros H. exists x. split; [exact H | apply eqb_eq; reflexivity].
  Qed.

  Lemma mem_false x l : mem x l = false <-> ~ In x l.
  Proof. rewrite <- mem_In. destruct (mem x l); split; congruence. Qed.

  Lemma edge_expandable x y : edge x y -> expandable x = true.
  Proof.
    intros [ps [Hl Hin]]. unfold Cedar.Impl.InSearch.expandable. rewrite Hl.
    destruct ps; [destruct Hin | reflexivity].
  Qed.

  Lemma expandable_present k : expandable k = true -> exists ps, parents k = Some ps.
  Proof.
    unfold Cedar.Impl.InSearch.expandable. destruct (parents k) as [ps|]; [eauto | discriminate].
  Qed.

  (* ---------------- the inner for-loop ---------------- *)
  Lemma scan_spec entity : forall ps known todo known' todo',
    scan entity ps known todo = (known', todo') ->
    exists new, known' = new ++ known /\ todo' = new ++ todo /\
      (NoDup known -> NoDup known') /\
      (forall k, In k new -> In k ps /\ expandable k = true /\ k <> entity /\ ~ In k known) /\
      (forall k, In k ps -> expandable k = false \/ k = entity \/ In k known').
  Proof.
    induction ps as [|k r IH]; intros known todo known' todo' H; cbn [Cedar.Impl.InSearch.scan] in H.
    - inversion H; subst. exists []. simpl.
      split; [reflexivity|]. split; [reflexivity|]. split; [auto|]. split; intros k [].
    - destruct (negb (expandable k) || eqb k entity || mem k known) eqn:E.
      + destruct (IH _ _ _ _ H) as [new [Hk [Ht [Hnd [Hnew Hall]]]]].
        exists new. split; [exact Hk|]. split; [exact Ht|]. split; [exact Hnd|]. split.
        * intros x Hx. destruct (Hnew x Hx) as [A [B [C D]]].
          split; [right; exact A|]. split; [exact B|]. split; [exact C | exact D].
        * intros x [Hx|Hx]; [subst x | apply Hall; exact Hx].
          apply orb_true_iff in E. destruct E as [E|E].
          -- apply orb_true_iff in E. destruct E as [E|E].
             ++ left. apply negb_true_iff in E. exact E.
             ++ right; left. apply eqb_eq in E. exact E.
          -- right; right. apply mem_In in E. subst known'. apply in_or_app. right. exact E.
      + apply orb_false_iff in E. destruct E as [E E3]. apply orb_false_iff in E. destruct E as [E1 E2].
        apply negb_false_iff in E1. apply eqb_neq in E2. apply mem_false in E3.
        destruct (IH _ _ _ _ H) as [new [Hk [Ht [Hnd [Hnew Hall]]]]].
        exists (new ++ [k]). rewrite <- !app_assoc. simpl.
        split; [exact Hk|]. split; [exact Ht|]. split; [|split].
        * intros ND. apply Hnd. constructor; assumption.
        * intros x Hx. apply in_app_or in Hx. destruct Hx as [Hx|[Hx|[]]].
          -- destruct (Hnew x Hx) as [A [B [C D]]].
             split; [right; exact A|]. split; [exact B|]. split; [exact C|].
             intros HH. apply D. right. exact HH.
          -- subst x. split; [left; reflexivity|]. split; [exact E1|]. split; [exact E2 | exact E3].
        * intros x [Hx|Hx]; [subst x | apply Hall; exact Hx].
          right; right. subst known'. apply in_or_app. right. left. reflexivity.
  Qed.

  (* ---------------- the outer loop, generic in the hit test ---------------- *)
  Section Loop.
    Variable hit : list id -> bool.
    Variable T : id -> Prop.                 (* the set of targets *)
    Hypothesis hit_spec : forall ps, hit ps = true <-> exists p, In p ps /\ T p.
    Variable entity : id.
    Hypothesis HnT : ~ T entity.

    (* state at the head of an iteration: [V] = candidates already expanded *)
    Record Inv (V known todo : list id) (cand : id) : Prop := {
      i_sub   : incl todo known;
      i_nd    : NoDup known;
      i_known : forall k, In k known -> expandable k = true /\ k <> entity /\ reach entity k;
      i_V     : forall v, In v V -> reach entity v /\ forall ps, parents v = Some ps -> hit ps = false;
      i_clo   : forall v k, In v V -> edge v k -> k = entity \/ In k known \/ expandable k = false;
      i_part  : forall k, In k known -> In k todo \/ k = cand \/ In k V;
      i_ent   : In entity V \/ cand = entity;
      i_cand  : reach entity cand
    }.

    (* state after the candidate has been expanded (and moved to [V]), before popping the next one *)
    Record Post (V known todo : list id) : Prop := {
      p_sub   : incl todo known;
      p_nd    : NoDup known;
      p_known : forall k, In k known -> expandable k = true /\ k <> entity /\ reach entity k;
      p_V     : forall v, In v V -> reach entity v /\ forall ps, parents v = Some ps -> hit ps = false;
      p_clo   : forall v k, In v V -> edge v k -> k = entity \/ In k known \/ expandable k = false;
      p_part  : forall k, In k known -> In k todo \/ In k V;
      p_ent   : In entity V
    }.

    Lemma inv_init : Inv [] [] [] entity.
    Proof.
      constructor.
      - intros k [].
      - constructor.
      - intros k [].
      - intros v [].
      - intros v k [].
      - intros k [].
      - right; reflexivity.
      - apply r_refl.
    Qed.

    Lemma expand_some V known todo cand ps known' todo' :
      Inv V known todo cand ->
      parents cand = Some ps -> hit ps = false ->
      scan entity ps known todo = (known', todo') ->
      Post (cand :: V) known' todo' /\
      length known' + length todo = length known + length todo'.
    Proof.
      intros HI Hl Hm Hs.
      destruct (scan_spec entity _ _ _ _ _ Hs) as [new [Hk [Ht [Hnd [Hnew Hall]]]]].
      split; [| subst known' todo'; rewrite !app_length; lia].
      constructor.
      - intros k Hk'. subst known' todo'. apply in_app_or in Hk'. apply in_or_app.
        destruct Hk' as [A|A]; [left; exact A | right; apply (i_sub _ _ _ _ HI); exact A].
      - apply Hnd. apply (i_nd _ _ _ _ HI).
      - intros k Hk'. subst known'. apply in_app_or in Hk'. destruct Hk' as [Hk'|Hk'].
        + destruct (Hnew k Hk') as [A [B [C D]]]. split; [exact B|]. split; [exact C|].
          apply r_step with cand; [apply (i_cand _ _ _ _ HI)|]. exists ps. split; assumption.
        + apply (i_known _ _ _ _ HI). exact Hk'.
      - intros v [Hv|Hv]; [subst v | apply (i_V _ _ _ _ HI); exact Hv].
        split; [apply (i_cand _ _ _ _ HI)|]. intros ps0 Hps0. rewrite Hl in Hps0.
        inversion Hps0; subst ps0. exact Hm.
      - intros v k [Hv|Hv] He.
        + subst v. destruct He as [ps0 [Hps0 Hin]]. rewrite Hl in Hps0. inversion Hps0; subst ps0.
          destruct (Hall k Hin) as [A|[A|A]]; auto.
        + destruct (i_clo _ _ _ _ HI v k Hv He) as [A|[A|A]]; auto.
          right; left. subst known'. apply in_or_app. right. exact A.
      - intros k Hk'. subst known' todo'. apply in_app_or in Hk'. destruct Hk' as [A|A].
        + left. apply in_or_app. left. exact A.
        + destruct (i_part _ _ _ _ HI k A) as [B|[B|B]].
          * left. apply in_or_app. right. exact B.
          * right. left. symmetry. exact B.
          * right. right. exact B.
      - destruct (i_ent _ _ _ _ HI) as [A|A]; [right; exact A | left; exact A].
    Qed.

    Lemma expand_none V known todo cand :
      Inv V known todo cand -> parents cand = None -> Post (cand :: V) known todo.
    Proof.
      intros HI Hl. constructor.
      - apply (i_sub _ _ _ _ HI).
      - apply (i_nd _ _ _ _ HI).
      - apply (i_known _ _ _ _ HI).
      - intros v [Hv|Hv]; [subst v | apply (i_V _ _ _ _ HI); exact Hv].
        split; [apply (i_cand _ _ _ _ HI)|]. intros ps0 Hps0. congruence.
      - intros v k [Hv|Hv] He.
        + subst v. destruct He as [ps0 [Hps0 _]]. congruence.
        + apply (i_clo _ _ _ _ HI v k Hv He).
      - intros k Hk'. destruct (i_part _ _ _ _ HI k Hk') as [A|[A|A]].
        + left. exact A.
        + right. left. symmetry. exact A.
        + right. right. exact A.
      - destruct (i_ent _ _ _ _ HI) as [A|A]; [right; exact A | left; exact A].
    Qed.

    Lemma post_pop V known c t : Post V known (c :: t) -> Inv V known t c.
    Proof.
      intros HP. constructor.
      - intros k Hk. apply (p_sub _ _ _ HP). right. exact Hk.
      - apply (p_nd _ _ _ HP).
      - apply (p_known _ _ _ HP).
      - apply (p_V _ _ _ HP).
      - apply (p_clo _ _ _ HP).
      - intros k Hk. destruct (p_part _ _ _ HP k Hk) as [[A|A]|A].
        + right; left. symmetry. exact A.
        + left. exact A.
        + right; right. exact A.
      - left. apply (p_ent _ _ _ HP).
      - apply (p_known _ _ _ HP). apply (p_sub _ _ _ HP). left. reflexivity.
    Qed.

    Lemma post_bound V known todo : Post V known todo -> length known <= length keys.
    Proof.
      intros HP. apply NoDup_incl_length; [apply (p_nd _ _ _ HP)|].
      intros k Hk. destruct (p_known _ _ _ HP k Hk) as [He _].
      destruct (expandable_present k He) as [ps Hps]. apply (keys_complete k ps Hps).
    Qed.

    (* closed set argument *)
    Lemma closed_no_reach V :
      In entity V ->
      (forall v k, In v V -> edge v k -> In k V \/ expandable k = false) ->
      (forall v k, In v V -> edge v k -> ~ T k) ->
      forall p, T p -> ~ reach entity p.
    Proof.
      intros He Hclo Hno p Hp Hr.
      assert (Hall : forall z, reach entity z -> In z V \/ expandable z = false).
      { intros z0 Hz0. induction Hz0 as [|y z Hy IH Hyz]; [left; exact He|].
        destruct IH as [IH|IH].
        - apply (Hclo y z IH Hyz).
        - apply edge_expandable in Hyz. congruence. }
      inversion Hr as [Heq | y z Hy Hyz Heq].
      - apply HnT. rewrite Heq. exact Hp.
      - subst z. destruct (Hall y Hy) as [Hin|Hex].
        + apply (Hno y p Hin Hyz Hp).
        + apply edge_expandable in Hyz. congruence.
    Qed.

    Lemma post_final V known : Post V known [] -> forall p, T p -> ~ reach entity p.
    Proof.
      intros HP. apply (closed_no_reach V).
      - apply (p_ent _ _ _ HP).
      - intros v k Hv He. destruct (p_clo _ _ _ HP v k Hv He) as [A|[A|A]].
        + subst k. left. apply (p_ent _ _ _ HP).
        + left. destruct (p_part _ _ _ HP k A) as [B|B]; [destruct B | exact B].
        + right. exact A.
      - intros v k Hv [ps0 [Hps0 Hin]] HT.
        destruct (p_V _ _ _ HP v Hv) as [_ Hno]. specialize (Hno ps0 Hps0).
        assert (Hh : hit ps0 = true) by (apply hit_spec; exists k; split; assumption).
        congruence.
    Qed.

    (* total correctness of the loop: the measure |todo| + (|keys| - |known|) drops by one per iteration *)
    Lemma loop_total_correct : forall fuel V known todo cand,
      Inv V known todo cand ->
      S (length todo + (length keys - length known)) <= fuel ->
      exists b, loop fuel hit entity known todo cand = Some b /\
                (b = true <-> exists p, T p /\ reach entity p).
    Proof.
      induction fuel as [|f IH]; intros V known todo cand HI Hfuel; [lia|].
      cbn [Cedar.Impl.InSearch.loop].
      destruct (parents cand) as [ps|] eqn:Hl.
      - destruct (hit ps) eqn:Hm.
        + exists true. split; [reflexivity|]. split; [intros _ | reflexivity].
          apply hit_spec in Hm. destruct Hm as [p [Hin HT]].
          exists p. split; [exact HT|].
          apply r_step with cand; [apply (i_cand _ _ _ _ HI)|]. exists ps. split; assumption.
        + destruct (scan entity ps known todo) as [known' todo'] eqn:Hs.
          destruct (expand_some _ _ _ _ _ _ _ HI Hl Hm Hs) as [HP Hlen].
          pose proof (post_bound _ _ _ HP) as Hb.
          destruct todo' as [|c t].
          * exists false. split; [reflexivity|]. split; [discriminate|].
            intros [p [HT Hr]]. exfalso. apply (post_final _ _ HP p HT Hr).
          * apply (IH (cand :: V)); [apply post_pop; exact HP|].
            cbn [length] in Hlen. lia.
      - pose proof (expand_none _ _ _ _ HI Hl) as HP.
        pose proof (post_bound _ _ _ HP) as Hb.
        destruct todo as [|c t].
        + exists false. split; [reflexivity|]. split; [discriminate|].
          intros [p [HT Hr]]. exfalso. apply (post_final _ _ HP p HT Hr).
        + apply (IH (cand :: V)); [apply post_pop; exact HP|].
          cbn [length] in Hfuel. lia.
    Qed.

    Lemma loop_from_start : forall fuel, S (length keys) <= fuel ->
      exists b, loop fuel hit entity [] [] entity = Some b /\
                (b = true <-> exists p, T p /\ reach entity p).
    Proof.
      intros fuel Hfuel. apply (loop_total_correct fuel [] [] [] entity inv_init).
      cbn [length]. lia.
    Qed.
  End Loop.

  (* ---------------- headline theorems ---------------- *)
  Theorem in_one_correct : forall fuel a b, (S (length keys) <= fuel)%nat ->
    exists r, entity_in_one id eqb parents fuel a b = Some r /\ (r = true <-> reach a b).
  Proof.
    intros fuel a b Hfuel. unfold entity_in_one.
    destruct (eqb a b) eqn:E.
    - apply eqb_eq in E. subst b. exists true. split; [reflexivity|].
      split; [intros _; apply r_refl | reflexivity].
    - apply eqb_neq in E.
      destruct (loop_from_start (fun ps => mem b ps) (fun p => p = b)) with (entity := a) (fuel := fuel)
        as [r [Hr Hiff]].
      + intros ps. rewrite mem_In. split.
        * intros Hin. exists b. split; [exact Hin | reflexivity].
        * intros [p [Hin Hp]]. subst p. exact Hin.
      + exact E.
      + exact Hfuel.
      + exists r. split; [exact Hr|]. rewrite Hiff. split.
        * intros [p [Hp Hreach]]. subst p. exact Hreach.
        * intros Hreach. exists b. split; [reflexivity | exact Hreach].
  Qed.

  Theorem in_set_correct : forall fuel a bs, (S (length keys) <= fuel)%nat ->
    exists r, entity_in_set id eqb parents fuel a bs = Some r /\
              (r = true <-> exists b, In b bs /\ reach a b).
  Proof.
    intros fuel a bs Hfuel. unfold entity_in_set.
    destruct (mem a bs) eqn:E.
    - apply mem_In in E. exists true. split; [reflexivity|].
      split; [intros _ | reflexivity]. exists a. split; [exact E | apply r_refl].
    - apply mem_false in E.
      destruct (loop_from_start (fun ps => existsb (fun p => mem p bs) ps) (fun p => In p bs))
        with (entity := a) (fuel := fuel) as [r [Hr Hiff]].
      + intros ps. rewrite existsb_exists. split.
        * intros [p [Hin Hp]]. exists p. split; [exact Hin | apply mem_In; exact Hp].
        * intros [p [Hin Hp]]. exists p. split; [exact Hin | apply mem_In; exact Hp].
      + exact E.
      + exact Hfuel.
      + exists r. split; [exact Hr | exact Hiff].
  Qed.
End InSearchProofs.

(* ---------------- instantiation for Impl/Eval.v ---------------- *)
Definition reach_st (st : store) : uid -> uid -> Prop := reach uid (parents_of st).

Lemma lookup_in_keys (st : store) k e : lookup st k = Some e -> In k (map fst st).
Proof.
  induction st as [|[k' e'] r IH]; cbn [lookup map fst]; [discriminate|].
  destruct (uid_eqb k' k) eqn:E.
  - intros _. apply uid_eqb_eq in E. left. exact E.
  - intros H. right. apply IH. exact H.
Qed.

Lemma parents_of_in_keys (st : store) k ps : parents_of st k = Some ps -> In k (map fst st).
Proof.
  unfold parents_of. destruct (lookup st k) as [e|] eqn:E; [|discriminate].
  intros _. apply (lookup_in_keys st k e E).
Qed.

Theorem eval_in_one_correct : forall (st : store) a b,
  exists r, in_one st a b = Some r /\ (r = true <-> reach_st st a b).
Proof.
  intros st a b. unfold in_one, reach_st.
  apply (in_one_correct uid uid_eqb uid_eqb_eq (parents_of st) (map fst st) (parents_of_in_keys st)).
  rewrite map_length. apply le_n.
Qed.

Theorem eval_in_set_correct : forall (st : store) a bs,
  exists r, in_set st a bs = Some r /\ (r = true <-> exists b, In b bs /\ reach_st st a b).
Proof.
  intros st a bs. unfold in_set, reach_st.
  apply (in_set_correct uid uid_eqb uid_eqb_eq (parents_of st) (map fst st) (parents_of_in_keys st)).
  rewrite map_length. apply le_n.
Qed.

(* ---------------- examples ---------------- *)
Definition ex_uid (n : Z) : uid := ([69%Z], [n]).            (* E::"<n>" *)
Definition ex_ent (ps : list Z) : entity :=
  {| e_parents := map ex_uid ps; e_attrs := []; e_tags := [] |}.

(* a cyclic graph 0 -> 1 -> 2 -> 0, 2 -> 3, 3 -> 3 (self loop), 4 -> 0 *)
Definition ex_cyclic : store :=
  [ (ex_uid 0, ex_ent [1]); (ex_uid 1, ex_ent [2]); (ex_uid 2, ex_ent [0; 3]);
    (ex_uid 3, ex_ent [3]); (ex_uid 4, ex_ent [0]) ]%Z.

Example ex_cyclic_ok :
  ( in_one ex_cyclic (ex_uid 0) (ex_uid 3),
    in_one ex_cyclic (ex_uid 0) (ex_uid 4),
    in_one ex_cyclic (ex_uid 3) (ex_uid 0),
    in_one ex_cyclic (ex_uid 2) (ex_uid 2),
    in_set ex_cyclic (ex_uid 4) [ex_uid 7; ex_uid 3],
    in_set ex_cyclic (ex_uid 1) [ex_uid 4; ex_uid 9] )%Z
  = (Some true, Some false, Some false, Some true, Some true, Some false).
Proof. vm_compute. reflexivity. Qed.

(* a graph with absent parents: 0 -> {9 (absent), 1}, 1 -> {8 (absent)}, 2 -> {} ;
   absent nodes are reachable as targets but are never expanded *)
Definition ex_absent : store :=
  [ (ex_uid 0, ex_ent [9; 1]); (ex_uid 1, ex_ent [8]); (ex_uid 2, ex_ent []) ]%Z.

Example ex_absent_ok :
  ( in_one ex_absent (ex_uid 0) (ex_uid 9),
    in_one ex_absent (ex_uid 0) (ex_uid 8),
    in_one ex_absent (ex_uid 9) (ex_uid 9),
    in_one ex_absent (ex_uid 9) (ex_uid 0),
    in_one ex_absent (ex_uid 0) (ex_uid 2),
    in_set ex_absent (ex_uid 0) [ex_uid 2; ex_uid 8],
    in_set ex_absent (ex_uid 7) [ex_uid 0; ex_uid 1],
    in_set ex_absent (ex_uid 2) [] )%Z
  = (Some true, Some true, Some true, Some false, Some false, Some true, Some false, Some false).
Proof. vm_compute. reflexivity. Qed.

Print Assumptions in_one_correct.
Print Assumptions in_set_correct.
Print Assumptions eval_in_one_correct.
Print Assumptions eval_in_set_correct.
