(* The typechecker's extension signatures are the ones the code declares.

   Generated/Tables.v carries `tc_ext_table`, which the translator reads off the map literal extFuncTypes of
   x/exp/schema/validate/ext_funcs.go on every run (name, constructor flag, argument types, return type) and `ext_table`, read off
   internal/extensions/extensions.go (the evaluator's table: name, arity, method flag).  Impl/TypeCheck.ext_sig is the hand-written
   if-chain the soundness proof (C15_strict_sound) is about.  Here:

   - `ext_sig_is_generated_table`: ext_sig answers, for EVERY name (not only the listed ones), exactly what a lookup in the generated
     table answers - so a change of a signature in the code (an argument or return type, the constructor flag, a function added or
     dropped) breaks this theorem, and with it the C15 obligation, before any test input is drawn;
   - `typechecker_and_evaluator_agree_on_functions`: the two tables declare the same functions with the same number of arguments, and
     "is a constructor" in the typechecker is "is not a method" in the evaluator. *)
From Coq Require Import ZArith List Bool String Lia.
From Cedar Require Import Lang.Value Impl.Like Lang.Expr Generated.Tables Impl.TypeCheck.
Import ListNotations.
Local Open Scope string_scope.

Definition cty_of_tag (t : string) : option cty :=
  if String.eqb t "String" then Some CString
  else if String.eqb t "Bool" then Some CBool
  else if String.eqb t "Long" then Some CLong
  else if String.prefix "ext:" t then Some (CExt (s_of (String.substring 4 (String.length t - 4) t)))
  else None.

Fixpoint ctys_of_tags (ts : list string) : option (list cty) :=
  match ts with
  | [] => Some []
  | t :: r => match cty_of_tag t, ctys_of_tags r with Some c, Some cs => Some (c :: cs) | _, _ => None end
  end.

(* the lookup the Go code does: extFuncTypes[name] *)
Fixpoint table_sig (tb : list (string * (bool * list string * string))) (name : str) : option (bool * list cty * cty) :=
  match tb with
  | [] => None
  | (n, (ctor, args, ret)) :: r =>
    if nm name n then
      match ctys_of_tags args, cty_of_tag ret with
      | Some a, Some t => Some (ctor, a, t)
      | _, _ => None
      end
    else table_sig r name
  end.

(* every entry of the generated table is inside the fragment the model speaks of *)
Definition entry_translates (e : string * (bool * list string * string)) : bool :=
  match e with (_, (_, args, ret)) =>
    match ctys_of_tags args, cty_of_tag ret with Some _, Some _ => true | _, _ => false end
  end.

Lemma tc_ext_table_translates : forallb entry_translates tc_ext_table = true.
Proof. vm_compute. reflexivity. Qed.

(* decidable equality on the result type of ext_sig, by computation on closed terms only *)
Lemma nm_true_eq name n : nm name n = true -> name = s_of n.
Proof.
  unfold nm. intros H. apply str_eqb_eq in H. symmetry. exact H.
Qed.

Theorem ext_sig_is_generated_table : forall name, ext_sig name = table_sig tc_ext_table name.
Proof.
  intros name. unfold ext_sig, tc_ext_table. cbn [table_sig].
  repeat match goal with
  | |- context [nm name ?s] =>
    let H := fresh "H" in
    destruct (nm name s) eqn:H;
    [ apply nm_true_eq in H; subst name; vm_compute; reflexivity | ]
  end.
  cbn [orb]. reflexivity.
Qed.

(* the function names, each once, in both tables *)
Theorem typechecker_and_evaluator_agree_on_functions :
  map (fun e => (fst e, (Z.of_nat (List.length (snd (fst (snd e)))), negb (fst (fst (snd e)))))) tc_ext_table = ext_table.
Proof. vm_compute. reflexivity. Qed.

Theorem tc_ext_table_names_distinct : NoDup (map fst tc_ext_table).
Proof.
  assert (H : forall (l : list string), (fix nd (l : list string) : bool :=
             match l with [] => true | x :: r => negb (existsb (String.eqb x) r) && nd r end) l = true -> NoDup l).
  { induction l as [|x r IH]; intros Hb; [constructor|].
    apply andb_prop in Hb. destruct Hb as [Hx Hr]. constructor; [|apply IH; exact Hr].
    intros Hin. apply negb_true_iff in Hx. assert (existsb (String.eqb x) r = true) as E.
    { apply existsb_exists. exists x. split; [exact Hin| apply String.eqb_refl]. }
    rewrite E in Hx. discriminate. }
  apply H. vm_compute. reflexivity.
Qed.

(* non-vacuity: the table is not empty, and a lookup succeeds *)
Example tc_ext_table_lookup : table_sig tc_ext_table (s_of "offset") = Some (false, [xt "datetime"; xt "duration"], xt "datetime").
Proof. vm_compute. reflexivity. Qed.
