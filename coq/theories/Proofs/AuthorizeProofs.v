From Coq Require Import List Bool Permutation.
Import ListNotations.
From Cedar Require Import Impl.Authorize.

Section Proofs.
  Variable P : Type.
  Variable eff : P -> effect.
  Variable ev : P -> outcome.

  Notation step := (step P eff ev).
  Notation loop := (loop P eff ev).
  Notation authorize := (authorize P eff ev).
  Notation sat_forbid := (sat_forbid P eff ev).
  Notation sat_permit := (sat_permit P eff ev).
  Notation is_err := (is_err P ev).

  Lemma fold_step_filters ps a :
    let r := fold_left step ps a in
    forbids r = forbids a ++ filter sat_forbid ps /\
    permits r = permits a ++ filter sat_permit ps /\
    errors r = errors a ++ filter is_err ps.
  Proof.
    revert a; induction ps as [|p ps IH]; intros a; cbn [fold_left filter].
    - rewrite !app_nil_r; auto.
    - destruct (IH (step a p)) as (Hf & Hp & He).
      cbv zeta in *. rewrite Hf, Hp, He. clear IH Hf Hp He.
      unfold step, Authorize.sat_forbid, Authorize.sat_permit, Authorize.is_err,
        is_sat, is_forbid, is_permit.
      destruct (ev p); destruct (eff p); cbn; rewrite <- ?app_assoc; cbn; auto.
  Qed.

  Lemma loop_filters ps :
    forbids (loop ps) = filter sat_forbid ps /\
    permits (loop ps) = filter sat_permit ps /\
    errors (loop ps) = filter is_err ps.
  Proof. apply (fold_step_filters ps {| forbids := []; permits := []; errors := [] |}). Qed.

  Lemma filter_nil_iff {A} (f : A -> bool) l : filter f l = [] <-> forall x, In x l -> f x = false.
  Proof.
    induction l as [|a l IH]; cbn; [tauto|].
    destruct (f a) eqn:E; split; intros H.
    - discriminate.
    - specialize (H a (or_introl eq_refl)); congruence.
    - intros x [<-|Hx]; auto. apply IH; auto.
    - apply IH; intros x Hx; apply H; auto.
  Qed.

  (* Allow iff some satisfied permit and no satisfied forbid. *)
  Theorem decision_spec ps :
    dec (authorize ps) = Allow <->
    (exists p, In p ps /\ eff p = Permit /\ ev p = OTrue) /\
    ~ (exists p, In p ps /\ eff p = Forbid /\ ev p = OTrue).
  Proof.
    unfold Authorize.authorize. destruct (loop_filters ps) as (Hf & Hp & _).
    rewrite Hf, Hp.
    destruct (filter sat_forbid ps) as [|f fs] eqn:Ef.
    - assert (Hnf : ~ (exists p, In p ps /\ eff p = Forbid /\ ev p = OTrue)).
      { intros (p & Hin & He & Hv). rewrite filter_nil_iff in Ef. specialize (Ef p Hin).
        unfold Authorize.sat_forbid, is_sat, is_forbid in Ef. rewrite He, Hv in Ef. discriminate. }
      destruct (filter sat_permit ps) as [|q qs] eqn:Ep; cbn.
      + split; [discriminate|]. intros ((p & Hin & He & Hv) & _).
        rewrite filter_nil_iff in Ep. specialize (Ep p Hin).
        unfold Authorize.sat_permit, is_sat, is_permit in Ep. rewrite He, Hv in Ep. discriminate.
      + split; [intros _|reflexivity]. split; auto.
        assert (Hq : In q (filter sat_permit ps)) by (rewrite Ep; left; auto).
        apply filter_In in Hq. destruct Hq as (Hin & Hq). exists q. split; auto.
        unfold Authorize.sat_permit, is_sat, is_permit in Hq.
        destruct (ev q); destruct (eff q); cbn in Hq; try discriminate; auto.
    - cbn. split; [discriminate|]. intros (_ & Hn). exfalso. apply Hn.
      assert (Hq : In f (filter sat_forbid ps)) by (rewrite Ef; left; auto).
      apply filter_In in Hq. destruct Hq as (Hin & Hq). exists f. split; auto.
      unfold Authorize.sat_forbid, is_sat, is_forbid in Hq.
      destruct (ev f); destruct (eff f); cbn in Hq; try discriminate; auto.
  Qed.

  (* Reasons: exactly the satisfied forbids if any, else exactly the satisfied permits — in iteration order. *)
  Theorem reasons_spec ps :
    reasons (authorize ps) =
      if existsb sat_forbid ps then filter sat_forbid ps else filter sat_permit ps.
  Proof.
    unfold Authorize.authorize. destruct (loop_filters ps) as (Hf & Hp & _). rewrite Hf, Hp.
    destruct (filter sat_forbid ps) as [|f fs] eqn:Ef.
    - assert (existsb sat_forbid ps = false) as ->.
      { rewrite filter_nil_iff in Ef. destruct (existsb sat_forbid ps) eqn:E; auto.
        apply existsb_exists in E. destruct E as (x & Hx & Hs). rewrite (Ef x Hx) in Hs. discriminate. }
      destruct (filter sat_permit ps); reflexivity.
    - assert (existsb sat_forbid ps = true) as ->.
      { apply existsb_exists. exists f.
        assert (Hq : In f (filter sat_forbid ps)) by (rewrite Ef; left; auto).
        apply filter_In in Hq. tauto. }
      reflexivity.
  Qed.

  Theorem errors_spec ps : errs (authorize ps) = filter is_err ps.
  Proof.
    unfold Authorize.authorize. destruct (loop_filters ps) as (_ & _ & He).
    destruct (forbids (loop ps)); [destruct (permits (loop ps))|]; cbn; auto.
  Qed.

  Lemma filter_perm {A} (f : A -> bool) l1 l2 : Permutation l1 l2 -> Permutation (filter f l1) (filter f l2).
  Proof.
    induction 1; cbn; auto.
    - destruct (f x); auto.
    - destruct (f x), (f y); auto. apply perm_swap.
    - eapply perm_trans; eauto.
  Qed.

  Lemma existsb_perm {A} (f : A -> bool) l1 l2 : Permutation l1 l2 -> existsb f l1 = existsb f l2.
  Proof.
    induction 1; cbn; auto.
    - rewrite IHPermutation; auto.
    - destruct (f x), (f y); auto.
    - congruence.
  Qed.

  (* The order in which the iterator yields the policies (Go map order, insertion order) is irrelevant. *)
  Theorem authorize_order_irrelevant ps1 ps2 :
    Permutation ps1 ps2 ->
    dec (authorize ps1) = dec (authorize ps2) /\
    Permutation (reasons (authorize ps1)) (reasons (authorize ps2)) /\
    Permutation (errs (authorize ps1)) (errs (authorize ps2)).
  Proof.
    intros HP. split; [|split].
    - destruct (dec (authorize ps1)) eqn:E1; destruct (dec (authorize ps2)) eqn:E2; auto; exfalso.
      + apply decision_spec in E1. assert (dec (authorize ps2) = Allow); [|congruence].
        apply decision_spec. destruct E1 as ((p & Hin & H1) & Hn). split.
        * exists p; split; auto. eapply Permutation_in; eauto.
        * intros (q & Hq & H2). apply Hn. exists q; split; auto.
          eapply Permutation_in; [apply Permutation_sym|]; eauto.
      + apply decision_spec in E2. assert (dec (authorize ps1) = Allow); [|congruence].
        apply decision_spec. destruct E2 as ((p & Hin & H1) & Hn). split.
        * exists p; split; auto. eapply Permutation_in; [apply Permutation_sym|]; eauto.
        * intros (q & Hq & H2). apply Hn. exists q; split; auto. eapply Permutation_in; eauto.
    - rewrite !reasons_spec. rewrite (existsb_perm _ _ _ HP).
      destruct (existsb sat_forbid ps2); apply filter_perm; auto.
    - rewrite !errors_spec. apply filter_perm; auto.
  Qed.

  (* Default deny *)
  Corollary default_deny : dec (authorize []) = Deny /\ reasons (authorize []) = [] /\ errs (authorize []) = [].
  Proof. cbn; auto. Qed.
End Proofs.
