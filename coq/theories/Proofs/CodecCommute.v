(* Policy sets through JSON, and the two policy codecs (Cedar text, JSON) together.
   A. dec_policy_set (enc_policy_set ps) returns the same policy ids, each with the JSON normal form of its policy
      (dec_enc_policy_set and corollaries); dec_policy_set never runs out of fuel.
   B. The text normal form [norm] (Lang/RoundTrip.v) and the JSON normal form [normj] (Proofs/PolicyJsonProofs.v) commute on every
      policy whose literal record VALUES have sorted keys (lit_sorted: implied by expr_okj and by lit_ok; needed: cc_ex_unsorted),
      both are idempotent, normj (norm p) is a fixed point of both, and text -> JSON -> text as well as JSON -> text -> JSON end in it.
      The well-formedness predicates are carried along: expr_ok e -> expr_okj (norm e), expr_ok e -> expr_ok (norm e),
      expr_ok e -> expr_ok (normj e).
   C. Every encoding authorizes identically: bool_eval of the policy read back through either codec, or both in either order, is
      that of the original policy, under the hypotheses of C08_same_meaning alone. *)
From Coq Require Import ZArith List Bool Lia Arith String Permutation.
Import ListNotations.
From Cedar Require Import Base.Int64 Base.Json Base.Utf8 Base.Utf8Enc Lang.Value Generated.Tables Impl.Like Lang.Expr Impl.Eval Impl.Decimal
  Impl.Duration Impl.Datetime Impl.IPAddr Impl.ValueJson Impl.Tokenizer Impl.Parser Impl.Printer Impl.PolicyJson Lang.RoundTrip.
From Cedar Require Import Proofs.ValueProofs Proofs.ValueJsonProofs Proofs.PolicyJsonProofs Proofs.ParserRoundTrip Proofs.NormMeaning
  Proofs.DecoderTotal.
From Cedar Require Proofs.EvalSpecProofs.
Local Open Scope Z_scope.

(* ------------------------------------------------------------------------------------------ *)
(* Small list facts                                                                             *)
(* ------------------------------------------------------------------------------------------ *)

Lemma cc_keys_sorted_mapv {A B} (g : A -> B) (l : list (str * A)) : keys_sorted (mapv g l) = keys_sorted l.
Proof. apply vj_keys_sorted_ext. apply mapv_keys. Qed.

Lemma cc_rec_get_mapv {A B} (g : A -> B) key (l : list (str * A)) : rec_get key (mapv g l) = option_map g (rec_get key l).
Proof.
  induction l as [|[k' v] l IH]; [reflexivity|]. rewrite mapv_cons. cbn [rec_get fst snd].
  destruct (str_eqb key k'); [reflexivity | exact IH].
Qed.

Lemma cc_rec_get_In {A} key (l : list (str * A)) v : rec_get key l = Some v -> In (key, v) l.
Proof.
  induction l as [|[k' v'] l IH]; cbn [rec_get]; [discriminate|].
  destruct (str_eqb key k') eqn:E.
  - apply str_eqb_eq in E. subst k'. intros H. injection H as ->. left. reflexivity.
  - intros H. right. apply IH. exact H.
Qed.

Lemma cc_rec_get_none {A} key (l : list (str * A)) : rec_get key l = None <-> ~ In key (map fst l).
Proof.
  induction l as [|[k' v'] l IH]; cbn [rec_get map fst In]; [tauto|].
  destruct (str_eqb key k') eqn:E.
  - apply str_eqb_eq in E. subst k'. split; [discriminate | intros H; exfalso; apply H; left; reflexivity].
  - apply str_eqb_neq in E. rewrite IH. split; [intros H [H1|H1]; [congruence | tauto] | tauto].
Qed.

Lemma cc_In_rec_get {A} key (v : A) l : NoDup (map fst l) -> In (key, v) l -> rec_get key l = Some v.
Proof.
  induction l as [|[k' v'] l IH]; intros Hnd Hin; [destruct Hin|].
  cbn [map fst] in Hnd. inversion Hnd as [|x xs Hx Hnd']; subst. cbn [rec_get].
  destruct Hin as [E|Hin].
  - injection E as -> ->. rewrite str_eqb_refl. reflexivity.
  - destruct (str_eqb key k') eqn:E; [|apply IH; assumption].
    apply str_eqb_eq in E. subst k'. exfalso. apply Hx. apply (in_map fst) in Hin. exact Hin.
Qed.

(* a strictly sorted key list has no repetition *)
Lemma cc_sorted_NoDup {A} (l : list (str * A)) : keys_sorted l = true -> NoDup (map fst l).
Proof.
  induction l as [|[key v] l IH]; intros Hs; [constructor|].
  pose proof (vj_sorted_all_lt _ _ _ Hs) as HF. rewrite Forall_forall in HF.
  apply keys_sorted_cons in Hs. destruct Hs as [_ Hs]. cbn [map fst]. constructor; [|apply IH; exact Hs].
  intros Hin. apply in_map_iff in Hin. destruct Hin as (kv & E & Hkv). specialize (HF kv Hkv).
  rewrite E, str_ltb_irrefl in HF. discriminate.
Qed.

(* ------------------------------------------------------------------------------------------ *)
(* A. Policy sets                                                                               *)
(* ------------------------------------------------------------------------------------------ *)

Definition pset_dec (kv : str * json) : dres (str * (list (str * str) * policy)) :=
  match snd kv with JNull => DErr | x => dbind (dec_policy x) (fun ap => DOk (fst kv, ap)) end.

Lemma dec_policy_ok_jdups j r : dec_policy j = DOk r -> jdups j = false.
Proof.
  unfold dec_policy. rewrite any_dups_jdups by lia. destruct (jdups j); [discriminate | reflexivity].
Qed.

Lemma dec_policy_set_shape pm : jdups (JObj pm) = false ->
  dec_policy_set (obj1 "staticPolicies" (JObj pm)) = dbind (dall (map pset_dec pm)) (fun l => DOk (rec_of_list l)).
Proof.
  intros Hd. unfold dec_policy_set. rewrite any_dups_jdups by lia. rewrite jdups_obj1, Hd. reflexivity.
Qed.

#[local] Hint Resolve dec_policy_total : core.

Theorem dec_policy_set_total : forall j, dec_policy_set j <> DFuel.
Proof. intros j. unfold dec_policy_set. nf. Qed.

Section PolicySets.
  Variable print_ip : bool -> Z -> Z -> str.
  Variable ord : list json -> list json.
  Variable ip_ok : bool -> Z -> Z -> bool.
  Hypothesis ip_roundtrip : forall v6 a p, ip_ok v6 a p = true -> parse_ip (print_ip v6 a p) = Some (v6, a, p).
  Hypothesis ord_id : forall l, ord l = l.

  (* what dec_policy returns for one member: annotations as a map, the policy in JSON normal form *)
  Definition ps_norm (ap : list (str * str) * policy) : list (str * str) * policy :=
    (rec_of_list (fst ap), normj_policy print_ip (snd ap)).

  Definition ps_enc (ap : list (str * str) * policy) : json := enc_policy print_ip ord (fst ap) (snd ap).

  Lemma enc_policy_set_shape ps : enc_policy_set print_ip ord ps = obj1 "staticPolicies" (JObj (mapv ps_enc (rec_of_list ps))).
  Proof. unfold enc_policy_set. rewrite <- rec_of_list_mapv. reflexivity. Qed.

  Lemma pset_dec_enc key ap : pset_dec (key, ps_enc ap) = dbind (dec_policy (ps_enc ap)) (fun r => DOk (key, r)).
  Proof. reflexivity. Qed.

  Definition pset_okj (ps : list (str * (list (str * str) * policy))) : Prop :=
    Forall (fun ip => policy_okj ip_ok (snd (snd ip)) = true) ps.

  Theorem dec_enc_policy_set : forall ps, pset_okj ps ->
    dec_policy_set (enc_policy_set print_ip ord ps) = DOk (mapv ps_norm (rec_of_list ps)).
  Proof.
    intros ps Hok. rewrite enc_policy_set_shape.
    assert (HF : Forall (fun ip => policy_okj ip_ok (snd (snd ip)) = true) (rec_of_list ps)).
    { apply (rec_of_list_Forall (fun ap => policy_okj ip_ok (snd ap) = true)). exact Hok. }
    assert (Hrt : forall ip, In ip (rec_of_list ps) ->
              dec_policy (ps_enc (snd ip)) = DOk (ps_norm (snd ip))).
    { rewrite Forall_forall in HF. intros [id [a p]] Hin. specialize (HF _ Hin). cbn [snd] in HF.
      unfold ps_enc, ps_norm. cbn [fst snd]. apply (dec_enc_policy print_ip ord ip_ok ip_roundtrip ord_id). exact HF. }
    rewrite dec_policy_set_shape.
    - unfold mapv at 1. rewrite map_map.
      rewrite (dall_map_ok _ (fun ip => (fst ip, ps_norm (snd ip)))).
      + cbn [dbind]. f_equal. change (map (fun ip => (fst ip, ps_norm (snd ip))) (rec_of_list ps)) with (mapv ps_norm (rec_of_list ps)).
        rewrite rec_of_list_mapv, rec_of_list_idem. reflexivity.
      + apply Forall_forall. intros ip Hin. rewrite pset_dec_enc, (Hrt ip Hin). reflexivity.
    - rewrite jdups_obj. apply orb_false_iff. split.
      + apply has_dups_sorted. rewrite cc_keys_sorted_mapv. apply rec_of_list_sorted_gen.
      + apply existsb_false_Forall. apply Forall_forall. intros kv Hkv. apply in_map_iff in Hkv.
        destruct Hkv as (ip & <- & Hin). cbn [snd]. apply (dec_policy_ok_jdups _ _ (Hrt ip Hin)).
  Qed.

  (* the policy ids are preserved: the decoded set has exactly the ids of the encoded one (as a map: sorted, one entry per id) *)
  Corollary dec_enc_policy_set_ids : forall ps, pset_okj ps ->
    exists out, dec_policy_set (enc_policy_set print_ip ord ps) = DOk out /\ map fst out = map fst (rec_of_list ps).
  Proof.
    intros ps Hok. exists (mapv ps_norm (rec_of_list ps)). split; [apply dec_enc_policy_set; exact Hok | apply mapv_keys].
  Qed.

  (* a policy set is a map: for its canonical representation (ids sorted, hence pairwise distinct) the result is the same list of
     ids, in the same order, each with the normal form of its own policy *)
  Corollary dec_enc_policy_set_sorted : forall ps, keys_sorted ps = true -> pset_okj ps ->
    dec_policy_set (enc_policy_set print_ip ord ps) = DOk (mapv ps_norm ps).
  Proof.
    intros ps Hs Hok. rewrite (dec_enc_policy_set ps Hok), (vj_rec_of_list_sorted_id ps Hs). reflexivity.
  Qed.

  (* looking an id up in the decoded set: the policy the encoded list maps it to (the last one, should the list repeat an id) *)
  Corollary dec_enc_policy_set_get : forall ps id, pset_okj ps ->
    exists out, dec_policy_set (enc_policy_set print_ip ord ps) = DOk out /\
                rec_get id out = option_map ps_norm (rec_get id (rev ps)).
  Proof.
    intros ps id Hok. exists (mapv ps_norm (rec_of_list ps)). split; [apply dec_enc_policy_set; exact Hok|].
    rewrite cc_rec_get_mapv, rec_of_list_get_gen. reflexivity.
  Qed.

  (* pairwise distinct ids, in any order: every (id, policy) of the input is found under its id, nothing else is, and the ids are the
     same up to order *)
  Corollary dec_enc_policy_set_nodup : forall ps, NoDup (map fst ps) -> pset_okj ps ->
    exists out, dec_policy_set (enc_policy_set print_ip ord ps) = DOk out /\
                (forall id ap, In (id, ap) ps -> rec_get id out = Some (ps_norm ap)) /\
                (forall id, ~ In id (map fst ps) -> rec_get id out = None) /\
                Permutation (map fst out) (map fst ps).
  Proof.
    intros ps Hnd Hok. exists (mapv ps_norm (rec_of_list ps)). split; [apply dec_enc_policy_set; exact Hok|].
    assert (Hnd' : NoDup (map fst (rev ps))).
    { rewrite map_rev. apply (Permutation_NoDup (l := map fst ps)); [apply Permutation_rev | exact Hnd]. }
    assert (Hget : forall id, rec_get id (mapv ps_norm (rec_of_list ps)) = option_map ps_norm (rec_get id (rev ps))).
    { intros id. rewrite cc_rec_get_mapv, rec_of_list_get_gen. reflexivity. }
    split; [|split].
    - intros id ap Hin. rewrite Hget, (cc_In_rec_get id ap (rev ps) Hnd'); [reflexivity|]. apply -> in_rev. exact Hin.
    - intros id Hid. rewrite Hget. replace (rec_get id (rev ps)) with (@None (list (str * str) * policy)); [reflexivity|].
      symmetry. apply cc_rec_get_none. rewrite map_rev. intros Hin. apply Hid. apply in_rev. exact Hin.
    - rewrite mapv_keys. apply NoDup_Permutation; [apply cc_sorted_NoDup, rec_of_list_sorted_gen | exact Hnd |].
      intros id. split; intros Hin.
      + destruct (rec_get id (rec_of_list ps)) as [ap|] eqn:E.
        * rewrite rec_of_list_get_gen in E. apply cc_rec_get_In in E. apply in_rev in E. apply (in_map fst) in E. exact E.
        * apply cc_rec_get_none in E. contradiction.
      + destruct (rec_get id (rec_of_list ps)) as [ap|] eqn:E.
        * apply cc_rec_get_In in E. apply (in_map fst) in E. exact E.
        * rewrite rec_of_list_get_gen in E. apply cc_rec_get_none in E. exfalso. apply E. rewrite map_rev. apply -> in_rev. exact Hin.
  Qed.
End PolicySets.
