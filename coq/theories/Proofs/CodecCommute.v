(* Policy sets through JSON, and the two policy codecs (Cedar text, JSON) together.
   A. dec_policy_set (enc_policy_set ps) returns the same policy ids, each with the JSON normal form of its policy
      (dec_enc_policy_set and corollaries); dec_policy_set never runs out of fuel.
   B. The text normal form [norm] (Lang/RoundTrip.v) and the JSON normal form [normj] (Proofs/PolicyJsonProofs.v) commute on every
      policy whose literal record VALUES have sorted keys (lit_sorted: implied by expr_okj and by lit_ok; needed: cc_ex_unsorted),
      both are idempotent, normj (norm p) is a fixed point of both, and text -> JSON -> text as well as JSON -> text -> JSON end in it.
      The well-formedness predicates are carried along: expr_ok e -> expr_okj (norm e), expr_ok e -> expr_ok (norm e),
      expr_ok e -> expr_ok (normj e).
   C. Every encoding authorizes identically: bool_eval of the policy read back through either codec, or both in either order, is
      that of the original policy, under the hypotheses of C08_same_meaning alone. *)
From Coq Require Import ZArith List Bool Lia Arith String Permutation.
Import ListNotations.
From Cedar Require Import Base.Int64 Base.Json Base.Utf8 Base.Utf8Enc Lang.Value Generated.Tables Impl.Like Lang.Expr Impl.Eval Impl.Decimal
  Impl.Duration Impl.Datetime Impl.IPAddr Impl.ValueJson Impl.Tokenizer Impl.Parser Impl.Printer Impl.PolicyJson Lang.RoundTrip.
From Cedar Require Import Proofs.ValueProofs Proofs.ValueJsonProofs Proofs.PolicyJsonProofs Proofs.ParserRoundTrip Proofs.NormMeaning
  Proofs.DecoderTotal.
From Cedar Require Proofs.EvalSpecProofs Proofs.PartialProofs.
Set Warnings "-unused-intro-pattern".
Local Open Scope Z_scope.

(* ------------------------------------------------------------------------------------------ *)
(* Small list facts                                                                             *)
(* ------------------------------------------------------------------------------------------ *)

Lemma cc_keys_sorted_mapv {A B} (g : A -> B) (l : list (str * A)) : keys_sorted (mapv g l) = keys_sorted l.
Proof. apply vj_keys_sorted_ext. apply mapv_keys. Qed.

Lemma cc_rec_get_mapv {A B} (g : A -> B) key (l : list (str * A)) : rec_get key (mapv g l) = option_map g (rec_get key l).
Proof.
  induction l as [|[k' v] l IH]; [reflexivity|]. rewrite mapv_cons. cbn [rec_get fst snd].
  destruct (str_eqb key k'); [reflexivity | exact IH].
Qed.

Lemma cc_rec_get_In {A} key (l : list (str * A)) v : rec_get key l = Some v -> In (key, v) l.
Proof.
  induction l as [|[k' v'] l IH]; cbn [rec_get]; [discriminate|].
  destruct (str_eqb key k') eqn:E.
  - apply str_eqb_eq in E. subst k'. intros H. injection H as ->. left. reflexivity.
  - intros H. right. apply IH. exact H.
Qed.

Lemma cc_rec_get_none {A} key (l : list (str * A)) : rec_get key l = None <-> ~ In key (map fst l).
Proof.
  induction l as [|[k' v'] l IH]; cbn [rec_get map fst In]; [tauto|].
  destruct (str_eqb key k') eqn:E.
  - apply str_eqb_eq in E. subst k'. split; [discriminate | intros H; exfalso; apply H; left; reflexivity].
  - apply str_eqb_neq in E. rewrite IH. split; [intros H [H1|H1]; [congruence | tauto] | tauto].
Qed.

Lemma cc_In_rec_get {A} key (v : A) l : NoDup (map fst l) -> In (key, v) l -> rec_get key l = Some v.
Proof.
  induction l as [|[k' v'] l IH]; intros Hnd Hin; [destruct Hin|].
  cbn [map fst] in Hnd. inversion Hnd as [|x xs Hx Hnd']; subst. cbn [rec_get].
  destruct Hin as [E|Hin].
  - injection E as -> ->. rewrite str_eqb_refl. reflexivity.
  - destruct (str_eqb key k') eqn:E; [|apply IH; assumption].
    apply str_eqb_eq in E. subst k'. exfalso. apply Hx. apply (in_map fst) in Hin. exact Hin.
Qed.

(* a strictly sorted key list has no repetition *)
Lemma cc_sorted_NoDup {A} (l : list (str * A)) : keys_sorted l = true -> NoDup (map fst l).
Proof.
  induction l as [|[key v] l IH]; intros Hs; [constructor|].
  pose proof (vj_sorted_all_lt _ _ _ Hs) as HF. rewrite Forall_forall in HF.
  apply keys_sorted_cons in Hs. destruct Hs as [_ Hs]. cbn [map fst]. constructor; [|apply IH; exact Hs].
  intros Hin. apply in_map_iff in Hin. destruct Hin as (kv & E & Hkv). specialize (HF kv Hkv).
  rewrite E, str_ltb_irrefl in HF. discriminate.
Qed.

(* ------------------------------------------------------------------------------------------ *)
(* A. Policy sets                                                                               *)
(* ------------------------------------------------------------------------------------------ *)

Definition pset_dec (kv : str * json) : dres (str * (list (str * str) * policy)) :=
  match snd kv with JNull => DErr | x => dbind (dec_policy x) (fun ap => DOk (fst kv, ap)) end.

Lemma dec_policy_ok_jdups j r : dec_policy j = DOk r -> jdups j = false.
Proof.
  unfold dec_policy. rewrite any_dups_jdups by lia. destruct (jdups j); [discriminate | reflexivity].
Qed.

Lemma dec_policy_set_shape pm : jdups (JObj pm) = false ->
  dec_policy_set (obj1 "staticPolicies" (JObj pm)) = dbind (dall (map pset_dec pm)) (fun l => DOk (rec_of_list l)).
Proof.
  intros Hd. unfold dec_policy_set. rewrite any_dups_jdups by lia. rewrite jdups_obj1, Hd. reflexivity.
Qed.

#[local] Hint Resolve dec_policy_total : core.

Theorem dec_policy_set_total : forall j, dec_policy_set j <> DFuel.
Proof. intros j. unfold dec_policy_set. nf. Qed.

Section PolicySets.
  Variable print_ip : bool -> Z -> Z -> str.
  Variable ord : list json -> list json.
  Variable ip_ok : bool -> Z -> Z -> bool.
  Hypothesis ip_roundtrip : forall v6 a p, ip_ok v6 a p = true -> parse_ip (print_ip v6 a p) = Some (v6, a, p).
  Hypothesis ord_id : forall l, ord l = l.

  (* what dec_policy returns for one member: annotations as a map, the policy in JSON normal form *)
  Definition ps_norm (ap : list (str * str) * policy) : list (str * str) * policy :=
    (rec_of_list (fst ap), normj_policy print_ip (snd ap)).

  Definition ps_enc (ap : list (str * str) * policy) : json := enc_policy print_ip ord (fst ap) (snd ap).

  Lemma enc_policy_set_shape ps : enc_policy_set print_ip ord ps = obj1 "staticPolicies" (JObj (mapv ps_enc (rec_of_list ps))).
  Proof. unfold enc_policy_set. rewrite <- rec_of_list_mapv. reflexivity. Qed.

  Lemma pset_dec_enc key ap : pset_dec (key, ps_enc ap) = dbind (dec_policy (ps_enc ap)) (fun r => DOk (key, r)).
  Proof. reflexivity. Qed.

  Definition pset_okj (ps : list (str * (list (str * str) * policy))) : Prop :=
    Forall (fun ip => policy_okj ip_ok (snd (snd ip)) = true) ps.

  Theorem dec_enc_policy_set : forall ps, pset_okj ps ->
    dec_policy_set (enc_policy_set print_ip ord ps) = DOk (mapv ps_norm (rec_of_list ps)).
  Proof.
    intros ps Hok. rewrite enc_policy_set_shape.
    assert (HF : Forall (fun ip => policy_okj ip_ok (snd (snd ip)) = true) (rec_of_list ps)).
    { apply (rec_of_list_Forall (fun ap => policy_okj ip_ok (snd ap) = true)). exact Hok. }
    assert (Hrt : forall ip, In ip (rec_of_list ps) ->
              dec_policy (ps_enc (snd ip)) = DOk (ps_norm (snd ip))).
    { rewrite Forall_forall in HF. intros [id [a p]] Hin. specialize (HF _ Hin). cbn [snd] in HF.
      unfold ps_enc, ps_norm. cbn [fst snd]. apply (dec_enc_policy print_ip ord ip_ok ip_roundtrip ord_id). exact HF. }
    rewrite dec_policy_set_shape.
    - unfold mapv at 1. rewrite map_map.
      rewrite (dall_map_ok _ (fun ip => (fst ip, ps_norm (snd ip)))).
      + cbn [dbind]. f_equal. change (map (fun ip => (fst ip, ps_norm (snd ip))) (rec_of_list ps)) with (mapv ps_norm (rec_of_list ps)).
        rewrite rec_of_list_mapv, rec_of_list_idem. reflexivity.
      + apply Forall_forall. intros ip Hin. rewrite pset_dec_enc, (Hrt ip Hin). reflexivity.
    - rewrite jdups_obj. apply orb_false_iff. split.
      + apply has_dups_sorted. rewrite cc_keys_sorted_mapv. apply rec_of_list_sorted_gen.
      + apply existsb_false_Forall. apply Forall_forall. intros kv Hkv. apply in_map_iff in Hkv.
        destruct Hkv as (ip & <- & Hin). cbn [snd]. apply (dec_policy_ok_jdups _ _ (Hrt ip Hin)).
  Qed.

  (* the policy ids are preserved: the decoded set has exactly the ids of the encoded one (as a map: sorted, one entry per id) *)
  Corollary dec_enc_policy_set_ids : forall ps, pset_okj ps ->
    exists out, dec_policy_set (enc_policy_set print_ip ord ps) = DOk out /\ map fst out = map fst (rec_of_list ps).
  Proof.
    intros ps Hok. exists (mapv ps_norm (rec_of_list ps)). split; [apply dec_enc_policy_set; exact Hok | apply mapv_keys].
  Qed.

  (* a policy set is a map: for its canonical representation (ids sorted, hence pairwise distinct) the result is the same list of
     ids, in the same order, each with the normal form of its own policy *)
  Corollary dec_enc_policy_set_sorted : forall ps, keys_sorted ps = true -> pset_okj ps ->
    dec_policy_set (enc_policy_set print_ip ord ps) = DOk (mapv ps_norm ps).
  Proof.
    intros ps Hs Hok. rewrite (dec_enc_policy_set ps Hok), (vj_rec_of_list_sorted_id ps Hs). reflexivity.
  Qed.

  (* looking an id up in the decoded set: the policy the encoded list maps it to (the last one, should the list repeat an id) *)
  Corollary dec_enc_policy_set_get : forall ps id, pset_okj ps ->
    exists out, dec_policy_set (enc_policy_set print_ip ord ps) = DOk out /\
                rec_get id out = option_map ps_norm (rec_get id (rev ps)).
  Proof.
    intros ps id Hok. exists (mapv ps_norm (rec_of_list ps)). split; [apply dec_enc_policy_set; exact Hok|].
    rewrite cc_rec_get_mapv, rec_of_list_get_gen. reflexivity.
  Qed.

  (* pairwise distinct ids, in any order: every (id, policy) of the input is found under its id, nothing else is, and the ids are the
     same up to order *)
  Corollary dec_enc_policy_set_nodup : forall ps, NoDup (map fst ps) -> pset_okj ps ->
    exists out, dec_policy_set (enc_policy_set print_ip ord ps) = DOk out /\
                (forall id ap, In (id, ap) ps -> rec_get id out = Some (ps_norm ap)) /\
                (forall id, ~ In id (map fst ps) -> rec_get id out = None) /\
                Permutation (map fst out) (map fst ps).
  Proof.
    intros ps Hnd Hok. exists (mapv ps_norm (rec_of_list ps)). split; [apply dec_enc_policy_set; exact Hok|].
    assert (Hnd' : NoDup (map fst (rev ps))).
    { rewrite map_rev. apply (Permutation_NoDup (l := map fst ps)); [apply Permutation_rev | exact Hnd]. }
    assert (Hget : forall id, rec_get id (mapv ps_norm (rec_of_list ps)) = option_map ps_norm (rec_get id (rev ps))).
    { intros id. rewrite cc_rec_get_mapv, rec_of_list_get_gen. reflexivity. }
    split; [|split].
    - intros id ap Hin. rewrite Hget, (cc_In_rec_get id ap (rev ps) Hnd'); [reflexivity|]. apply -> in_rev. exact Hin.
    - intros id Hid. rewrite Hget. replace (rec_get id (rev ps)) with (@None (list (str * str) * policy)); [reflexivity|].
      symmetry. apply cc_rec_get_none. rewrite map_rev. intros Hin. apply Hid. apply in_rev. exact Hin.
    - rewrite mapv_keys. apply NoDup_Permutation; [apply cc_sorted_NoDup, rec_of_list_sorted_gen | exact Hnd |].
      intros id. split; intros Hin.
      + destruct (rec_get id (rec_of_list ps)) as [ap|] eqn:E.
        * rewrite rec_of_list_get_gen in E. apply cc_rec_get_In in E. apply in_rev in E. apply (in_map fst) in E. exact E.
        * apply cc_rec_get_none in E. contradiction.
      + destruct (rec_get id (rec_of_list ps)) as [ap|] eqn:E.
        * apply cc_rec_get_In in E. apply (in_map fst) in E. exact E.
        * rewrite rec_of_list_get_gen in E. apply cc_rec_get_none in E. exfalso. apply E. rewrite map_rev. apply -> in_rev. exact Hin.
  Qed.
End PolicySets.

(* ------------------------------------------------------------------------------------------ *)
(* B. The two normal forms                                                                      *)
(* ------------------------------------------------------------------------------------------ *)

Lemma cc_nth_Forall {A} (P : A -> Prop) (L : list A) d : Forall P L -> P d -> forall i, P (nth i L d).
Proof. intros HF Hd. induction HF as [|x L Hx _ IH]; intros [|i]; cbn [nth]; auto. Qed.

Lemma cc_map_fix {A} (f : A -> A) (l : list A) : Forall (fun x => f x = x) l -> map f l = l.
Proof. intros HF. induction HF as [|x l Hx _ IH]; [reflexivity|]. cbn [map]. rewrite Hx, IH. reflexivity. Qed.

Lemma cc_mapv_fix {A} (f : A -> A) (l : list (str * A)) : Forall (fun kv => f (snd kv) = snd kv) l -> mapv f l = l.
Proof.
  intros HF. induction HF as [|[key x] l Hx _ IH]; [reflexivity|]. rewrite mapv_cons. cbn [fst snd] in *. rewrite Hx, IH. reflexivity.
Qed.

(* every record VALUE inside a literal lists its keys in increasing order (as a Go map prints them; part of wf_value and of json_safe) *)
Fixpoint recs_sorted (v : value) : bool :=
  match v with
  | VSet l => (fix go (l : list value) : bool := match l with [] => true | x :: r => recs_sorted x && go r end) l
  | VRecord kvs => keys_sorted kvs &&
                   (fix go (l : list (str * value)) : bool := match l with [] => true | (_, x) :: r => recs_sorted x && go r end) kvs
  | _ => true
  end.

Lemma recs_sorted_set l : recs_sorted (VSet l) = forallb recs_sorted l.
Proof. cbn [recs_sorted]. induction l as [|x l IH]; [reflexivity|]. cbn [forallb]. rewrite <- IH. reflexivity. Qed.
Lemma recs_sorted_record l : recs_sorted (VRecord l) = keys_sorted l && forallb (fun kv => recs_sorted (snd kv)) l.
Proof. cbn [recs_sorted]. f_equal. induction l as [|[key x] l IH]; [reflexivity|]. cbn [forallb snd]. rewrite <- IH. reflexivity. Qed.

Fixpoint lit_sorted (e : expr) : bool :=
  let fix all (l : list expr) : bool := match l with [] => true | x :: r => lit_sorted x && all r end in
  let fix allkv (l : list (str * expr)) : bool := match l with [] => true | (_, x) :: r => lit_sorted x && allkv r end in
  match e with
  | ELit v => recs_sorted v
  | EVar _ | EPartialError _ => true
  | ENot a | ENeg a | EIsEmpty a | EAccess a _ | EHas a _ | EIs a _ | ELike a _ => lit_sorted a
  | EAnd a b | EOr a b | EAdd a b | ESub a b | EMul a b | EEq a b | ENe a b | ELt a b | ELe a b | EGt a b | EGe a b
  | EIn a b | EContains a b | EContainsAll a b | EContainsAny a b | EGetTag a b | EHasTag a b | EIsIn a _ b => lit_sorted a && lit_sorted b
  | EIf c t f => lit_sorted c && lit_sorted t && lit_sorted f
  | ESet es => all es
  | ERecord kvs => allkv kvs
  | ECall _ args => all args
  end.

Lemma lit_sorted_all es :
  (fix all (l : list expr) : bool := match l with [] => true | x :: r => lit_sorted x && all r end) es = forallb lit_sorted es.
Proof. induction es as [|x es IH]; [reflexivity|]. cbn [forallb]. rewrite <- IH. reflexivity. Qed.
Lemma lit_sorted_set es : lit_sorted (ESet es) = forallb lit_sorted es.
Proof. cbn [lit_sorted]. apply lit_sorted_all. Qed.
Lemma lit_sorted_call n es : lit_sorted (ECall n es) = forallb lit_sorted es.
Proof. cbn [lit_sorted]. apply lit_sorted_all. Qed.
Lemma lit_sorted_record kvs : lit_sorted (ERecord kvs) = forallb (fun kv => lit_sorted (snd kv)) kvs.
Proof. cbn [lit_sorted]. induction kvs as [|[key x] kvs IH]; [reflexivity|]. cbn [forallb snd]. rewrite <- IH. reflexivity. Qed.

Definition policy_lit_sorted (p : policy) : bool := forallb (fun c : bool * expr => lit_sorted (snd c)) (p_conds p).

Lemma wf_recs_sorted : forall v, wf_value v = true -> recs_sorted v = true.
Proof.
  apply (value_ind' (fun v => wf_value v = true -> recs_sorted v = true)); try (intros; reflexivity).
  - intros l IH Hw. rewrite wf_value_set in Hw. apply andb_true_iff in Hw. destruct Hw as [_ Hw].
    rewrite recs_sorted_set. rewrite forallb_forall in *. rewrite Forall_forall in IH. intros x Hx. apply IH; auto.
  - intros l IH Hw. rewrite wf_value_record in Hw. apply andb_true_iff in Hw. destruct Hw as [Hk Hw].
    rewrite recs_sorted_record, Hk. cbn [andb]. rewrite forallb_forall in *. rewrite Forall_forall in IH. intros x Hx. apply IH; auto.
Qed.

(* ---- plain ASCII strings are well-formed string literals ---- *)
Lemma valid_utf8_fuel_ascii : forall s f, (List.length s <= f)%nat -> Forall (fun c => 0 <= c < 128) s -> valid_utf8_fuel f s = true.
Proof.
  induction s as [|c s IH]; intros f Hf HF; [destruct f; reflexivity|].
  destruct f as [|f]; [cbn [List.length] in Hf; lia|].
  inversion HF as [|x xs Hc HF']; subst. cbn [valid_utf8_fuel]. unfold decode_rune.
  replace (c <? 128) with true by (symmetry; apply Z.ltb_lt; lia).
  replace (c =? rune_error) with false by (symmetry; apply Z.eqb_neq; unfold rune_error; lia).
  cbn [andb skipn]. apply IH; [cbn [List.length] in Hf; lia | exact HF'].
Qed.

Lemma plain_str_ok2 s : Forall ParserRoundTrip.plain s -> str_ok2 s = true.
Proof.
  intros HF. unfold str_ok2, str_ok, byte_str. apply andb_true_iff. split.
  - apply forallb_forall. rewrite Forall_forall in HF. intros b Hb. destruct (HF b Hb) as [Hr _].
    apply andb_true_iff. split; [apply Z.leb_le | apply Z.ltb_lt]; lia.
  - unfold valid_utf8. apply valid_utf8_fuel_ascii; [lia|]. eapply Forall_impl; [|exact HF].
    intros c [Hr _]. lia.
Qed.

(* ---- key lists ---- *)
Fixpoint dk_go {A} (l : list (str * A)) (seen : list str) : bool :=
  match l with [] => true | (key, _) :: r => negb (existsb (str_eqb key) seen) && dk_go r (key :: seen) end.

Lemma distinct_keys_go {A} (l : list (str * A)) : distinct_keys l = dk_go l [].
Proof.
  unfold distinct_keys. generalize (@nil str) as seen.
  induction l as [|[key v] l IH]; intros seen; [reflexivity|]. cbn [dk_go]. rewrite <- IH. reflexivity.
Qed.

Lemma dk_go_sorted {A} : forall (l : list (str * A)) seen, keys_sorted l = true ->
  (forall s kv, In s seen -> In kv l -> str_eqb (fst kv) s = false) -> dk_go l seen = true.
Proof.
  induction l as [|[key v] l IH]; intros seen Hs Hseen; [reflexivity|].
  cbn [dk_go]. apply andb_true_iff. split.
  - apply negb_true_iff. destruct (existsb (str_eqb key) seen) eqn:E; [|reflexivity].
    apply existsb_exists in E. destruct E as (s & Hin & Heq).
    pose proof (Hseen s (key, v) Hin (or_introl eq_refl)) as X. cbn [fst] in X. congruence.
  - pose proof (vj_sorted_all_lt _ _ _ Hs) as HF. rewrite Forall_forall in HF.
    apply keys_sorted_cons in Hs. destruct Hs as [_ Hs].
    apply IH; [exact Hs|]. intros s kv [<-|Hin] Hkv.
    + specialize (HF kv Hkv). apply str_eqb_neq. intros E. rewrite E, str_ltb_irrefl in HF. discriminate.
    + apply (Hseen s kv Hin). right. exact Hkv.
Qed.

Lemma distinct_keys_sorted {A} (l : list (str * A)) : keys_sorted l = true -> distinct_keys l = true.
Proof. intros Hs. rewrite distinct_keys_go. apply dk_go_sorted; [exact Hs|]. intros s kv []. Qed.

Lemma distinct_keys_mapv {A B} (g : A -> B) (l : list (str * A)) : distinct_keys (mapv g l) = distinct_keys l.
Proof. rewrite !distinct_keys_fresh, mapv_keys. reflexivity. Qed.

Lemma forallb_keys_mapv {A B} (g : A -> B) (q : str -> bool) (l : list (str * A)) :
  forallb (fun kv : str * B => q (fst kv)) (mapv g l) = forallb (fun kv : str * A => q (fst kv)) l.
Proof. induction l as [|kv l IH]; [reflexivity|]. rewrite mapv_cons. cbn [forallb fst]. rewrite IH. reflexivity. Qed.

Lemma forallb_vals_mapv {A B} (g : A -> B) (q : B -> bool) (l : list (str * A)) :
  forallb (fun kv : str * B => q (snd kv)) (mapv g l) = forallb (fun kv : str * A => q (g (snd kv))) l.
Proof. induction l as [|kv l IH]; [reflexivity|]. rewrite mapv_cons. cbn [forallb snd]. rewrite IH. reflexivity. Qed.

Lemma forallb_rec_of_list {A} (q : str * A -> bool) (l : list (str * A)) : forallb q l = true -> forallb q (rec_of_list l) = true.
Proof.
  intros H. apply forallb_forall. apply Forall_forall. apply (EvalSpecProofs.rec_of_list_Forall A (fun kv => q kv = true)).
  apply Forall_forall. apply forallb_forall. exact H.
Qed.

(* ---- like patterns: what the text syntax can write is in NewPattern's normal form ---- *)
Lemma text_pat_tail_canon : forall r, RoundTrip.pat_tail_ok r = true -> PolicyJsonProofs.pat_tail_ok r = true.
Proof.
  induction r as [|[w l] r IH]; [reflexivity|]. cbn [RoundTrip.pat_tail_ok PolicyJsonProofs.pat_tail_ok].
  rewrite !andb_true_iff. intros [[[Hw _] Hl] Hr]. repeat split; [exact Hw | | apply IH; exact Hr].
  destruct l, r; try reflexivity. discriminate.
Qed.

Lemma text_pat_canon p : pat_ok p = true -> pat_canon p = true.
Proof.
  destruct p as [|[w l] r]; [discriminate|]. cbn [pat_ok pat_canon]. rewrite !andb_true_iff. intros [[_ Hl] Hr].
  apply text_pat_tail_canon in Hr. destruct w; [|exact Hr].
  cbn [PolicyJsonProofs.pat_tail_ok andb]. rewrite Hr, andb_true_r. destruct l, r; try reflexivity.
  destruct (negb true && false) eqn:E; discriminate.
Qed.

Lemma text_pat_norm p : pat_ok p = true -> norm_pat p = p.
Proof. destruct p; [discriminate | reflexivity]. Qed.

(* ---- scopes ---- *)
Lemma principal_scope_okj s : principal_scope_ok s = true -> scope_okj false s = true.
Proof. destruct s; try reflexivity. discriminate. Qed.
Lemma action_scope_okj s : action_scope_ok s = true -> scope_okj true s = true.
Proof. destruct s; try reflexivity; discriminate. Qed.


Section NormalForms.
  Variable set_order : list value -> list nat.
  Variable print_ip : bool -> Z -> Z -> str.

  Notation nv := (norm_value set_order print_ip).
  Notation nm := (norm set_order print_ip).
  Notation nj := (normj print_ip).
  Notation nmp := (norm_policy set_order print_ip).
  Notation njp := (normj_policy print_ip).

  Lemma cc_nv_set l : nv (VSet l) = ESet (map (fun i => nth i (map nv l) (ELit (VBool false))) (set_order l)).
  Proof. cbn [norm_value]. rewrite pj_fix_map. reflexivity. Qed.
  Lemma cc_nv_record l : nv (VRecord l) = ERecord (mapv nv l).
  Proof. cbn [norm_value]. rewrite pj_fix_mapv. reflexivity. Qed.
  Lemma cc_nm_set es : nm (ESet es) = ESet (map nm es).
  Proof. cbn [norm]. rewrite pj_fix_map. reflexivity. Qed.
  Lemma cc_nm_call n es : nm (ECall n es) = ECall n (map nm es).
  Proof. cbn [norm]. rewrite pj_fix_map. reflexivity. Qed.
  Lemma cc_nm_record kvs : nm (ERecord kvs) = ERecord (mapv nm kvs).
  Proof. cbn [norm]. rewrite pj_fix_mapv. reflexivity. Qed.

  (* ---- the rendering of a literal value is a fixed point of both normal forms ---- *)
  Lemma nth_fixed (f : expr -> expr) (L : list expr) (o : list nat) :
    Forall (fun x => f x = x) L -> f (ELit (VBool false)) = ELit (VBool false) ->
    map f (map (fun i => nth i L (ELit (VBool false))) o) = map (fun i => nth i L (ELit (VBool false))) o.
  Proof.
    intros HF Hd. apply cc_map_fix. apply Forall_forall. intros x Hx. apply in_map_iff in Hx. destruct Hx as (i & <- & _).
    apply (cc_nth_Forall (fun x => f x = x)); assumption.
  Qed.

  Lemma norm_norm_value : forall v, nm (nv v) = nv v.
  Proof.
    apply (value_ind' (fun v => nm (nv v) = nv v)); try (intros; reflexivity).
    - intros l IH. rewrite cc_nv_set, cc_nm_set. f_equal. apply nth_fixed; [|reflexivity].
      apply Forall_forall. intros x Hx. apply in_map_iff in Hx. destruct Hx as (y & <- & Hy). rewrite Forall_forall in IH. auto.
    - intros l IH. rewrite cc_nv_record, cc_nm_record. f_equal. rewrite mapv_mapv. apply mapv_ext_Forall. exact IH.
  Qed.

  Lemma normj_norm_value : forall v, recs_sorted v = true -> nj (nv v) = nv v.
  Proof.
    apply (value_ind' (fun v => recs_sorted v = true -> nj (nv v) = nv v)); try (intros; reflexivity).
    - intros l IH Hs. rewrite recs_sorted_set in Hs. rewrite cc_nv_set, normj_set. f_equal. apply nth_fixed; [|reflexivity].
      apply Forall_forall. intros x Hx. apply in_map_iff in Hx. destruct Hx as (y & <- & Hy).
      rewrite Forall_forall in IH. rewrite forallb_forall in Hs. auto.
    - intros l IH Hs. rewrite recs_sorted_record in Hs. apply andb_true_iff in Hs. destruct Hs as [Hk Hs].
      rewrite cc_nv_record, normj_record. f_equal. rewrite mapv_mapv.
      rewrite (mapv_ext_Forall (fun x => nj (nv x)) nv).
      + apply vj_rec_of_list_sorted_id. rewrite cc_keys_sorted_mapv. exact Hk.
      + rewrite Forall_forall in *. rewrite forallb_forall in Hs. intros kv Hkv. auto.
  Qed.

  Lemma lit_sorted_norm_value : forall v, lit_sorted (nv v) = true.
  Proof.
    apply (value_ind' (fun v => lit_sorted (nv v) = true)); try (intros; reflexivity).
    - intros l IH. rewrite cc_nv_set, lit_sorted_set. apply forallb_forall. intros x Hx. apply in_map_iff in Hx.
      destruct Hx as (i & <- & _). apply (cc_nth_Forall (fun x => lit_sorted x = true)); [|reflexivity].
      apply Forall_forall. intros x Hx. apply in_map_iff in Hx. destruct Hx as (y & <- & Hy). rewrite Forall_forall in IH. auto.
    - intros l IH. rewrite cc_nv_record, lit_sorted_record. apply forallb_forall. intros kv Hkv. apply in_map_iff in Hkv.
      destruct Hkv as (kv0 & <- & Hkv0). cbn [snd]. rewrite Forall_forall in IH. auto.
  Qed.

  (* ---- idempotence of the text normal form ---- *)
  Theorem norm_idempotent : forall e, nm (nm e) = nm e.
  Proof.
    apply (expr_ind' (fun e => nm (nm e) = nm e)); try (intros; cbn [norm]; congruence).
    - intros v. apply norm_norm_value.
    - intros es IH. rewrite !cc_nm_set, map_map. f_equal. apply pj_map_ext_Forall. exact IH.
    - intros kvs IH. rewrite !cc_nm_record, mapv_mapv. f_equal. apply mapv_ext_Forall. exact IH.
    - intros n es IH. rewrite !cc_nm_call, map_map. f_equal. apply pj_map_ext_Forall. exact IH.
  Qed.

  (* the text normal form has no literal of record type at all *)
  Theorem lit_sorted_norm : forall e, lit_sorted (nm e) = true.
  Proof.
    apply (expr_ind' (fun e => lit_sorted (nm e) = true));
      try (intros; cbn [norm lit_sorted]; repeat (apply andb_true_iff; split); assumption).
    - intros v. apply lit_sorted_norm_value.
    - intros x. reflexivity.
    - intros es IH. rewrite cc_nm_set, lit_sorted_set. apply forallb_forall. intros x Hx. apply in_map_iff in Hx.
      destruct Hx as (y & <- & Hy). rewrite Forall_forall in IH. auto.
    - intros kvs IH. rewrite cc_nm_record, lit_sorted_record. apply forallb_forall. intros x Hx. apply in_map_iff in Hx.
      destruct Hx as (y & <- & Hy). cbn [snd]. rewrite Forall_forall in IH. auto.
    - intros n es IH. rewrite cc_nm_call, lit_sorted_call. apply forallb_forall. intros x Hx. apply in_map_iff in Hx.
      destruct Hx as (y & <- & Hy). rewrite Forall_forall in IH. auto.
    - intros kd. reflexivity.
  Qed.

  (* ---- the two normal forms commute ---- *)
  Theorem normj_norm_commute : forall e, lit_sorted e = true -> nj (nm e) = nm (nj e).
  Proof.
    apply (expr_ind' (fun e => lit_sorted e = true -> nj (nm e) = nm (nj e)));
      try (intros a b IHa IHb Hs; cbn [lit_sorted] in Hs; apply andb_true_iff in Hs; destruct Hs as [Ha Hb];
           cbn [norm normj]; rewrite (IHa Ha), (IHb Hb); reflexivity);
      try (intros a IHa Hs; cbn [lit_sorted] in Hs; cbn [norm normj]; rewrite (IHa Hs); reflexivity);
      try (intros a x IHa Hs; cbn [lit_sorted] in Hs; cbn [norm normj]; rewrite (IHa Hs); reflexivity).
    - intros v Hs. cbn [lit_sorted] in Hs. destruct v as [b|z|s|ty id|l|kvs|z|z|z|v6 a p]; try reflexivity.
      + exact (normj_norm_value (VSet l) Hs).
      + exact (normj_norm_value (VRecord kvs) Hs).
    - intros x _. reflexivity.
    - intros a ty b IHa IHb Hs. cbn [lit_sorted] in Hs. apply andb_true_iff in Hs. destruct Hs as [Ha Hb].
      cbn [norm normj]. rewrite (IHa Ha), (IHb Hb). reflexivity.
    - intros c t f IHc IHt IHf Hs. cbn [lit_sorted] in Hs. rewrite !andb_true_iff in Hs. destruct Hs as [[Hc Ht] Hf].
      cbn [norm normj]. rewrite (IHc Hc), (IHt Ht), (IHf Hf). reflexivity.
    - intros es IH Hs. rewrite lit_sorted_set in Hs. rewrite cc_nm_set, !normj_set, cc_nm_set, !map_map. f_equal.
      apply pj_map_ext_Forall. rewrite Forall_forall in *. rewrite forallb_forall in Hs. intros x Hx. auto.
    - intros kvs IH Hs. rewrite lit_sorted_record in Hs. rewrite cc_nm_record, !normj_record, cc_nm_record. f_equal.
      rewrite <- rec_of_list_mapv, !mapv_mapv. f_equal.
      apply mapv_ext_Forall. rewrite Forall_forall in *. rewrite forallb_forall in Hs. intros x Hx. auto.
    - intros n es IH Hs. rewrite lit_sorted_call in Hs. rewrite cc_nm_call, !normj_call, cc_nm_call, !map_map. f_equal.
      apply pj_map_ext_Forall. rewrite Forall_forall in *. rewrite forallb_forall in Hs. intros x Hx. auto.
    - intros kd _. reflexivity.
  Qed.

  (* ---- compositions: both end in the common normal form nj (nm e), a fixed point of both ---- *)
  Theorem text_json_text_nf : forall e, nm (nj (nm e)) = nj (nm e).
  Proof. intros e. rewrite <- (normj_norm_commute (nm e) (lit_sorted_norm e)), norm_idempotent. reflexivity. Qed.

  Theorem json_text_json_nf : forall e, lit_sorted e = true -> nj (nm (nj e)) = nj (nm e).
  Proof. intros e Hs. rewrite <- (normj_norm_commute e Hs), (normj_idempotent print_ip). reflexivity. Qed.

  Theorem common_nf_fixed : forall e, nm (nj (nm e)) = nj (nm e) /\ nj (nj (nm e)) = nj (nm e).
  Proof. intros e. split; [apply text_json_text_nf | apply (normj_idempotent print_ip)]. Qed.

  (* ---- the same for whole policies ---- *)
  Lemma policy_conds_ext (f g : expr -> expr) (p : policy) :
    Forall (fun c : bool * expr => f (snd c) = g (snd c)) (p_conds p) ->
    map (fun c : bool * expr => (fst c, f (snd c))) (p_conds p) = map (fun c : bool * expr => (fst c, g (snd c))) (p_conds p).
  Proof. intros HF. apply pj_map_ext_Forall. eapply Forall_impl; [|exact HF]. intros c Hc. cbn beta. rewrite Hc. reflexivity. Qed.

  Lemma policy_lit_sorted_Forall (P : expr -> Prop) p :
    (forall e, lit_sorted e = true -> P e) -> policy_lit_sorted p = true -> Forall (fun c : bool * expr => P (snd c)) (p_conds p).
  Proof.
    intros HP Hs. unfold policy_lit_sorted in Hs. rewrite forallb_forall in Hs. apply Forall_forall. intros c Hc. apply HP, Hs, Hc.
  Qed.

  Theorem policy_lit_sorted_norm : forall p, policy_lit_sorted (nmp p) = true.
  Proof.
    intros p. unfold policy_lit_sorted, norm_policy. cbn [p_conds]. apply forallb_forall. intros c Hc.
    apply in_map_iff in Hc. destruct Hc as (c0 & <- & _). cbn [snd]. apply lit_sorted_norm.
  Qed.

  Theorem policy_normal_forms_commute : forall p, policy_lit_sorted p = true -> njp (nmp p) = nmp (njp p).
  Proof.
    intros p Hs. unfold norm_policy, normj_policy. cbn [p_effect p_principal p_action p_resource p_conds]. f_equal.
    rewrite !map_map. cbn [fst snd]. apply (policy_conds_ext (fun e => nj (nm e)) (fun e => nm (nj e))).
    apply (policy_lit_sorted_Forall (fun e => nj (nm e) = nm (nj e))); [apply normj_norm_commute | exact Hs].
  Qed.

  Theorem norm_policy_idempotent : forall p, nmp (nmp p) = nmp p.
  Proof.
    intros p. unfold norm_policy. cbn [p_effect p_principal p_action p_resource p_conds]. f_equal.
    rewrite !map_map. cbn [fst snd]. apply (policy_conds_ext (fun e => nm (nm e)) nm).
    apply Forall_forall. intros c _. apply norm_idempotent.
  Qed.

  Theorem normj_policy_idempotent : forall p, njp (njp p) = njp p.
  Proof.
    intros p. unfold normj_policy. cbn [p_effect p_principal p_action p_resource p_conds]. f_equal.
    rewrite !map_map. cbn [fst snd]. apply (policy_conds_ext (fun e => nj (nj e)) nj).
    apply Forall_forall. intros c _. apply (normj_idempotent print_ip).
  Qed.

  (* text -> JSON -> text and JSON -> text -> JSON, at the level of the normal forms the codecs compute *)
  Theorem policy_text_json_text_nf : forall p, nmp (njp (nmp p)) = njp (nmp p).
  Proof.
    intros p. rewrite <- (policy_normal_forms_commute (nmp p) (policy_lit_sorted_norm p)), norm_policy_idempotent. reflexivity.
  Qed.

  Theorem policy_json_text_json_nf : forall p, policy_lit_sorted p = true -> njp (nmp (njp p)) = njp (nmp p).
  Proof. intros p Hs. rewrite <- (policy_normal_forms_commute p Hs), normj_policy_idempotent. reflexivity. Qed.

  Theorem policy_common_nf_fixed : forall p, nmp (njp (nmp p)) = njp (nmp p) /\ njp (njp (nmp p)) = njp (nmp p).
  Proof. intros p. split; [apply policy_text_json_text_nf | apply normj_policy_idempotent]. Qed.

  (* ------------------------------------------------------------------------------------------ *)
  (* Well-formedness is carried along                                                             *)
  (* ------------------------------------------------------------------------------------------ *)
  Variable ip_ok : bool -> Z -> Z -> bool.
  Hypothesis print_ip_plain : forall v6 a p, Forall (fun c => 32 <= c < 127 /\ c <> 34 /\ c <> 92) (print_ip v6 a p).

  Notation eok := (expr_ok set_order).
  Notation vok := (value_ok set_order).
  Notation okj := (expr_okj ip_ok).

  Lemma expr_ok_ext1 fn s : In fn ["decimal"; "datetime"; "duration"; "ip"]%string -> str_ok2 s = true -> eok (ext1 fn s) = true.
  Proof.
    intros Hfn Hs.
    assert (E : eok (ext1 fn s) = str_ok2 s && true); [|rewrite E, Hs; reflexivity].
    cbn [In] in Hfn. repeat (destruct Hfn as [<-|Hfn]; [reflexivity|]). destruct Hfn.
  Qed.

  Lemma expr_okj_ext1 fn s : In fn ["decimal"; "datetime"; "duration"; "ip"]%string -> okj (ext1 fn s) = true.
  Proof. intros Hfn. cbn [In] in Hfn. repeat (destruct Hfn as [<-|Hfn]; [reflexivity|]). destruct Hfn. Qed.

  Lemma print_ip_str_ok2 v6 a p : str_ok2 (print_ip v6 a p) = true.
  Proof. apply plain_str_ok2. exact (print_ip_plain v6 a p). Qed.

  Ltac fn_in := cbn [In]; repeat (first [left; reflexivity | right]).

  (* ---- a renderable literal value, written out, is renderable again and encodable as JSON ---- *)
  Lemma value_ok_norm_value : forall v, vok v = true -> eok (nv v) = true /\ okj (nv v) = true.
  Proof.
    apply (value_ind' (fun v => vok v = true -> eok (nv v) = true /\ okj (nv v) = true)).
    - intros b H. split; [exact H | reflexivity].
    - intros z H. split; exact H.
    - intros s H. split; [exact H | reflexivity].
    - intros ty id H. split; [exact H | reflexivity].
    - intros l IH H. rewrite value_ok_set in H. apply andb_true_iff in H. destruct H as [_ H].
      rewrite cc_nv_set, expr_ok_set, okj_set.
      assert (HF : Forall (fun x => eok x = true /\ okj x = true) (map nv l)).
      { apply Forall_forall. intros x Hx. apply in_map_iff in Hx. destruct Hx as (y & <- & Hy).
        rewrite Forall_forall in IH. rewrite forallb_forall in H. auto. }
      split; apply forallb_forall; intros x Hx; apply in_map_iff in Hx; destruct Hx as (i & <- & _);
        apply (cc_nth_Forall (fun x => eok x = true /\ okj x = true) (map nv l) (ELit (VBool false)) HF); split; reflexivity.
    - intros l IH H. rewrite value_ok_record in H. rewrite !andb_true_iff in H. destruct H as [[Hd Hk] Hv].
      rewrite cc_nv_record, expr_ok_record, okj_record, distinct_keys_mapv, Hd.
      rewrite (forallb_keys_mapv nv str_ok2), Hk. cbn [andb]. rewrite !forallb_vals_mapv.
      rewrite Forall_forall in IH. rewrite forallb_forall in Hv.
      split; apply forallb_forall; intros kv Hkv; apply (IH kv Hkv (Hv kv Hkv)).
    - intros z _. split; [apply expr_ok_ext1; [fn_in | apply plain_str_ok2, print_decimal_plain] | apply expr_okj_ext1; fn_in].
    - intros z _. split; [apply expr_ok_ext1; [fn_in | apply plain_str_ok2, print_datetime_plain] | apply expr_okj_ext1; fn_in].
    - intros z _. split; [apply expr_ok_ext1; [fn_in | apply plain_str_ok2, print_duration_plain] | apply expr_okj_ext1; fn_in].
    - intros v6 a p _. split; [apply expr_ok_ext1; [fn_in | apply print_ip_str_ok2] | apply expr_okj_ext1; fn_in].
  Qed.

  (* ---- what can be rendered stays renderable in text normal form, and that form can be encoded as JSON ---- *)
  Theorem expr_ok_norm : forall e, eok e = true -> eok (nm e) = true /\ okj (nm e) = true.
  Proof.
    apply (expr_ind' (fun e => eok e = true -> eok (nm e) = true /\ okj (nm e) = true));
      try (intros a b IHa IHb H; cbn [expr_ok] in H; apply andb_true_iff in H; destruct H as [Ha Hb];
           destruct (IHa Ha) as [A1 A2]; destruct (IHb Hb) as [B1 B2]; cbn [norm expr_ok expr_okj]; rewrite A1, A2, B1, B2; split; reflexivity);
      try (intros a IHa H; cbn [expr_ok] in H; destruct (IHa H) as [A1 A2]; cbn [norm expr_ok expr_okj]; split; assumption).
    - intros v H. apply value_ok_norm_value. exact H.
    - intros x _. split; reflexivity.
    - intros a key IHa H. cbn [expr_ok] in H. apply andb_true_iff in H. destruct H as [Ha Hk].
      destruct (IHa Ha) as [A1 A2]. cbn [norm expr_ok expr_okj]. rewrite A1, A2, Hk. split; reflexivity.
    - intros a key IHa H. cbn [expr_ok] in H. apply andb_true_iff in H. destruct H as [Ha Hk].
      destruct (IHa Ha) as [A1 A2]. cbn [norm expr_ok expr_okj]. rewrite A1, A2, Hk. split; reflexivity.
    - intros a p IHa H. cbn [expr_ok] in H. apply andb_true_iff in H. destruct H as [Ha Hp].
      destruct (IHa Ha) as [A1 A2]. cbn [norm expr_ok expr_okj]. rewrite A1, A2, Hp. split; [reflexivity|].
      unfold pat_ok2 in Hp. apply andb_true_iff in Hp. destruct Hp as [_ Hp]. rewrite (text_pat_canon p Hp). reflexivity.
    - intros a ty IHa H. cbn [expr_ok] in H. apply andb_true_iff in H. destruct H as [Ha Hk].
      destruct (IHa Ha) as [A1 A2]. cbn [norm expr_ok expr_okj]. rewrite A1, A2, Hk. split; reflexivity.
    - intros a ty b IHa IHb H. cbn [expr_ok] in H. rewrite !andb_true_iff in H. destruct H as [[Ha Hk] Hb].
      destruct (IHa Ha) as [A1 A2]. destruct (IHb Hb) as [B1 B2]. cbn [norm expr_ok expr_okj]. rewrite A1, A2, B1, B2, Hk. split; reflexivity.
    - intros c t f IHc IHt IHf H. cbn [expr_ok] in H. rewrite !andb_true_iff in H. destruct H as [[Hc Ht] Hf].
      destruct (IHc Hc) as [C1 C2]. destruct (IHt Ht) as [T1 T2]. destruct (IHf Hf) as [F1 F2].
      cbn [norm expr_ok expr_okj]. rewrite C1, C2, T1, T2, F1, F2. split; reflexivity.
    - intros es IH H. rewrite expr_ok_set in H. rewrite cc_nm_set, expr_ok_set, okj_set.
      rewrite Forall_forall in IH. rewrite forallb_forall in H.
      split; apply forallb_forall; intros x Hx; apply in_map_iff in Hx; destruct Hx as (y & <- & Hy); apply (IH y Hy (H y Hy)).
    - intros kvs IH H. rewrite expr_ok_record in H. rewrite !andb_true_iff in H. destruct H as [[Hd Hk] Hv].
      rewrite cc_nm_record, expr_ok_record, okj_record, distinct_keys_mapv, Hd.
      rewrite (forallb_keys_mapv nm str_ok2), Hk. cbn [andb]. rewrite !forallb_vals_mapv.
      rewrite Forall_forall in IH. rewrite forallb_forall in Hv.
      split; apply forallb_forall; intros kv Hkv; apply (IH kv Hkv (Hv kv Hkv)).
    - intros n es IH H. rewrite expr_ok_call in H. rewrite cc_nm_call, expr_ok_call, okj_call.
      assert (HF : forallb eok es = true -> forallb eok (map nm es) = true /\ forallb okj (map nm es) = true).
      { intros Hes. rewrite Forall_forall in IH. rewrite forallb_forall in Hes.
        split; apply forallb_forall; intros x Hx; apply in_map_iff in Hx; destruct Hx as (y & <- & Hy); apply (IH y Hy (Hes y Hy)). }
      destruct (ext_lookup n) as [[ar [|]]|]; [| |discriminate].
      + rewrite !andb_true_iff in H. destruct H as [[[Hb Hc] Ha] Hes]. destruct (HF Hes) as [E1 E2]. rewrite Hb, Hc, E1, E2.
        destruct es; [discriminate|]. split; reflexivity.
      + apply andb_true_iff in H. destruct H as [Hc Hes]. destruct (HF Hes) as [E1 E2]. rewrite Hc, E1, E2. split; reflexivity.
    - intros kd H. discriminate.
  Qed.

  (* ---- what can be rendered stays renderable in JSON normal form ---- *)
  Theorem expr_ok_normj : forall e, eok e = true -> eok (nj e) = true.
  Proof.
    apply (expr_ind' (fun e => eok e = true -> eok (nj e) = true));
      try (intros a b IHa IHb H; cbn [expr_ok] in H; apply andb_true_iff in H; destruct H as [Ha Hb];
           cbn [normj expr_ok]; rewrite (IHa Ha), (IHb Hb); reflexivity);
      try (intros a IHa H; cbn [expr_ok] in H; cbn [normj expr_ok]; exact (IHa H)).
    - intros v H. destruct v as [b|z|s|ty id|l|kvs|z|z|z|v6 a p]; try exact H.
      + apply (expr_ok_ext1 "decimal"); [fn_in | apply plain_str_ok2, print_decimal_plain].
      + apply (expr_ok_ext1 "ip"); [fn_in | apply print_ip_str_ok2].
    - intros x _. reflexivity.
    - intros a key IHa H. cbn [expr_ok] in H. apply andb_true_iff in H. destruct H as [Ha Hk].
      cbn [normj expr_ok]. rewrite (IHa Ha), Hk. reflexivity.
    - intros a key IHa H. cbn [expr_ok] in H. apply andb_true_iff in H. destruct H as [Ha Hk].
      cbn [normj expr_ok]. rewrite (IHa Ha), Hk. reflexivity.
    - intros a p IHa H. cbn [expr_ok] in H. apply andb_true_iff in H. destruct H as [Ha Hp].
      cbn [normj expr_ok]. rewrite (IHa Ha). pose proof Hp as Hp2. unfold pat_ok2 in Hp2. apply andb_true_iff in Hp2.
      destruct Hp2 as [_ Hp2]. rewrite (text_pat_norm p Hp2), Hp. reflexivity.
    - intros a ty IHa H. cbn [expr_ok] in H. apply andb_true_iff in H. destruct H as [Ha Hk].
      cbn [normj expr_ok]. rewrite (IHa Ha), Hk. reflexivity.
    - intros a ty b IHa IHb H. cbn [expr_ok] in H. rewrite !andb_true_iff in H. destruct H as [[Ha Hk] Hb].
      cbn [normj expr_ok]. rewrite (IHa Ha), (IHb Hb), Hk. reflexivity.
    - intros c t f IHc IHt IHf H. cbn [expr_ok] in H. rewrite !andb_true_iff in H. destruct H as [[Hc Ht] Hf].
      cbn [normj expr_ok]. rewrite (IHc Hc), (IHt Ht), (IHf Hf). reflexivity.
    - intros es IH H. rewrite expr_ok_set in H. rewrite normj_set, expr_ok_set.
      rewrite Forall_forall in IH. rewrite forallb_forall in H.
      apply forallb_forall; intros x Hx; apply in_map_iff in Hx; destruct Hx as (y & <- & Hy); apply (IH y Hy (H y Hy)).
    - intros kvs IH H. rewrite expr_ok_record in H. rewrite !andb_true_iff in H. destruct H as [[Hd Hk] Hv].
      rewrite normj_record, expr_ok_record.
      rewrite (distinct_keys_sorted _ (rec_of_list_sorted_gen _)). cbn [andb]. apply andb_true_iff. split.
      + apply forallb_rec_of_list. rewrite (forallb_keys_mapv nj str_ok2). exact Hk.
      + apply forallb_rec_of_list. rewrite forallb_vals_mapv.
        rewrite Forall_forall in IH. rewrite forallb_forall in Hv. apply forallb_forall. intros kv Hkv. apply (IH kv Hkv (Hv kv Hkv)).
    - intros n es IH H. rewrite expr_ok_call in H. rewrite normj_call, expr_ok_call.
      assert (HF : forallb eok es = true -> forallb eok (map nj es) = true).
      { intros Hes. rewrite Forall_forall in IH. rewrite forallb_forall in Hes.
        apply forallb_forall; intros x Hx; apply in_map_iff in Hx; destruct Hx as (y & <- & Hy); apply (IH y Hy (Hes y Hy)). }
      destruct (ext_lookup n) as [[ar [|]]|]; [| |discriminate].
      + rewrite !andb_true_iff in H. destruct H as [[[Hb Hc] Ha] Hes]. rewrite Hb, Hc, (HF Hes).
        destruct es; [discriminate|]. reflexivity.
      + apply andb_true_iff in H. destruct H as [Hc Hes]. rewrite Hc, (HF Hes). reflexivity.
    - intros kd H. discriminate.
  Qed.

  (* ---- whole policies ---- *)
  Lemma annots_ok_rec_of_list a : annots_ok a = true -> annots_ok (rec_of_list a) = true.
  Proof.
    unfold annots_ok. rewrite !andb_true_iff. intros [_ H].
    split; [apply distinct_keys_sorted, rec_of_list_sorted_gen | apply forallb_rec_of_list; exact H].
  Qed.

  Lemma conds_forallb (q q' : expr -> bool) (f : expr -> expr) (cs : list (bool * expr)) :
    (forall e, q e = true -> q' (f e) = true) -> forallb (fun c : bool * expr => q (snd c)) cs = true ->
    forallb (fun c : bool * expr => q' (snd c)) (map (fun c : bool * expr => (fst c, f (snd c))) cs) = true.
  Proof.
    intros Hq H. rewrite forallb_forall in H. apply forallb_forall. intros c Hc. apply in_map_iff in Hc.
    destruct Hc as (c0 & <- & Hc0). cbn [snd]. apply Hq, H, Hc0.
  Qed.

  (* a renderable policy: its text normal form is renderable and can be encoded as JSON *)
  Theorem policy_ok_norm : forall a p, policy_ok set_order a p = true ->
    policy_ok set_order a (nmp p) = true /\ policy_okj ip_ok (nmp p) = true.
  Proof.
    intros a p. unfold policy_ok, policy_okj, norm_policy. cbn [p_principal p_action p_resource p_conds].
    rewrite !andb_true_iff. intros [[[[Ha Hp] Hac] Hr] Hc].
    rewrite Ha, Hp, Hac, Hr, (principal_scope_okj _ Hp), (action_scope_okj _ Hac), (principal_scope_okj _ Hr).
    split; (split; [repeat split|]).
    - apply (conds_forallb eok eok nm); [intros e He; apply (expr_ok_norm e He) | exact Hc].
    - apply (conds_forallb eok okj nm); [intros e He; apply (expr_ok_norm e He) | exact Hc].
  Qed.

  (* ... and so is its JSON normal form, with the annotations as the JSON decoder returns them *)
  Theorem policy_ok_normj : forall a p, policy_ok set_order a p = true -> policy_ok set_order (rec_of_list a) (njp p) = true.
  Proof.
    intros a p. unfold policy_ok, normj_policy. cbn [p_principal p_action p_resource p_conds].
    rewrite !andb_true_iff. intros [[[[Ha Hp] Hac] Hr] Hc].
    rewrite (annots_ok_rec_of_list a Ha), Hp, Hac, Hr. repeat split.
    apply (conds_forallb eok eok nj); [apply expr_ok_normj | exact Hc].
  Qed.

  (* ---- the side conditions of the commutation theorem follow from either codec's well-formedness predicate ---- *)
  Lemma okj_lit_sorted : forall e, okj e = true -> lit_sorted e = true.
  Proof.
    apply (expr_ind' (fun e => okj e = true -> lit_sorted e = true));
      try (intros a b IHa IHb H; cbn [expr_okj] in H; apply andb_true_iff in H; destruct H as [Ha Hb];
           cbn [lit_sorted]; rewrite (IHa Ha), (IHb Hb); reflexivity);
      try (intros a IHa H; cbn [expr_okj] in H; cbn [lit_sorted]; exact (IHa H));
      try (intros a x IHa H; cbn [expr_okj] in H; cbn [lit_sorted]; exact (IHa H)).
    - intros v H. destruct v as [b|z|s|ty id|l|kvs|z|z|z|v6 a p]; try reflexivity;
        cbn [lit_sorted]; apply wf_recs_sorted, (json_safe_wf ip_ok); exact H.
    - intros x _. reflexivity.
    - intros a p IHa H. cbn [expr_okj] in H. apply andb_true_iff in H. destruct H as [Ha _]. cbn [lit_sorted]. exact (IHa Ha).
    - intros a ty b IHa IHb H. cbn [expr_okj] in H. apply andb_true_iff in H. destruct H as [Ha Hb].
      cbn [lit_sorted]. rewrite (IHa Ha), (IHb Hb). reflexivity.
    - intros c t f IHc IHt IHf H. cbn [expr_okj] in H. rewrite !andb_true_iff in H. destruct H as [[Hc Ht] Hf].
      cbn [lit_sorted]. rewrite (IHc Hc), (IHt Ht), (IHf Hf). reflexivity.
    - intros es IH H. rewrite okj_set in H. rewrite lit_sorted_set. rewrite Forall_forall in IH. rewrite forallb_forall in *. auto.
    - intros kvs IH H. rewrite okj_record in H. rewrite lit_sorted_record. rewrite Forall_forall in IH. rewrite forallb_forall in *. auto.
    - intros n es IH H. rewrite okj_call in H. destruct (ext_lookup n) as [[ar m]|]; [|discriminate].
      apply andb_true_iff in H. destruct H as [_ H].
      rewrite lit_sorted_call. rewrite Forall_forall in IH. rewrite forallb_forall in *. auto.
    - intros kd H. discriminate.
  Qed.

  Lemma lit_ok_sorted_sem : forall e, lit_ok ip_ok e = true -> lit_sorted e = true /\ sem_okj ip_ok e = true.
  Proof.
    apply (expr_ind' (fun e => lit_ok ip_ok e = true -> lit_sorted e = true /\ sem_okj ip_ok e = true));
      try (intros a b IHa IHb H; cbn [lit_ok] in H; apply andb_true_iff in H; destruct H as [Ha Hb];
           destruct (IHa Ha) as [A1 A2]; destruct (IHb Hb) as [B1 B2]; cbn [lit_sorted sem_okj]; rewrite A1, A2, B1, B2; split; reflexivity);
      try (intros a IHa H; cbn [lit_ok] in H; cbn [lit_sorted sem_okj]; exact (IHa H));
      try (intros a x IHa H; cbn [lit_ok] in H; cbn [lit_sorted sem_okj]; exact (IHa H)).
    - intros v H. cbn [lit_ok] in H. unfold value_lit_ok in H. apply andb_true_iff in H. destruct H as [Hw Hx].
      split; [apply wf_recs_sorted; exact Hw|]. destruct v as [b|z|s|ty id|l|kvs|z|z|z|v6 a p]; try reflexivity; exact Hx.
    - intros x _. split; reflexivity.
    - intros a ty b IHa IHb H. cbn [lit_ok] in H. apply andb_true_iff in H. destruct H as [Ha Hb].
      destruct (IHa Ha) as [A1 A2]. destruct (IHb Hb) as [B1 B2]. cbn [lit_sorted sem_okj]. rewrite A1, A2, B1, B2. split; reflexivity.
    - intros c t f IHc IHt IHf H. cbn [lit_ok] in H. rewrite !andb_true_iff in H. destruct H as [[Hc Ht] Hf].
      destruct (IHc Hc) as [C1 C2]. destruct (IHt Ht) as [T1 T2]. destruct (IHf Hf) as [F1 F2].
      cbn [lit_sorted sem_okj]. rewrite C1, C2, T1, T2, F1, F2. split; reflexivity.
    - intros es IH H. rewrite lit_ok_set in H. rewrite lit_sorted_set, sem_set. rewrite Forall_forall in IH. rewrite forallb_forall in H.
      split; apply forallb_forall; intros x Hx; apply (IH x Hx (H x Hx)).
    - intros kvs IH H. rewrite lit_ok_record in H. rewrite lit_sorted_record, sem_record. rewrite Forall_forall in IH.
      rewrite forallb_forall in H. split; apply forallb_forall; intros x Hx; apply (IH x Hx (H x Hx)).
    - intros n es IH H. rewrite lit_ok_call in H. rewrite lit_sorted_call, sem_call. rewrite Forall_forall in IH. rewrite forallb_forall in H.
      split; apply forallb_forall; intros x Hx; apply (IH x Hx (H x Hx)).
    - intros kd _. split; reflexivity.
  Qed.

  Lemma policy_okj_lit_sorted p : policy_okj ip_ok p = true -> policy_lit_sorted p = true.
  Proof.
    unfold policy_okj, policy_lit_sorted. rewrite !andb_true_iff. intros [_ H]. rewrite forallb_forall in *.
    intros c Hc. apply okj_lit_sorted, H, Hc.
  Qed.

  Lemma policy_lit_ok_sorted p : policy_lit_ok ip_ok p = true -> policy_lit_sorted p = true.
  Proof.
    unfold policy_lit_ok, policy_lit_sorted. intros H. rewrite forallb_forall in *. intros c Hc. apply lit_ok_sorted_sem, H, Hc.
  Qed.

  (* ------------------------------------------------------------------------------------------ *)
  (* The codecs themselves, composed                                                              *)
  (* ------------------------------------------------------------------------------------------ *)
  Variable ord : list json -> list json.
  Hypothesis ord_id : forall l, ord l = l.
  Hypothesis ip_roundtrip : forall v6 a p, ip_ok v6 a p = true -> parse_ip (print_ip v6 a p) = Some (v6, a, p).
  Variables (is_printable is_gext : Z -> bool).

  (* the text codec: the tokens of the rendering of (a, p) parse to (a', q) (C08_policy_roundtrip's conclusion) *)
  Definition text_codec (a : list (str * str)) (p : policy) (a' : list (str * str)) (q : policy) : Prop :=
    forall rest, rest <> [] -> exists f0, forall f, (f0 <= f)%nat ->
      p_policy f (toks_of (policy_items is_printable is_gext set_order print_ip no_extra a p) ++ rest)
      = POk {| pp_annots := a'; pp_pos := (0, 0, 0); pp_policy := q |} rest.
  (* the JSON codec: decoding the encoding of (a, p) gives (a', q) (C09_policy_roundtrip's conclusion) *)
  Definition json_codec (a : list (str * str)) (p : policy) (a' : list (str * str)) (q : policy) : Prop :=
    dec_policy (enc_policy print_ip ord a p) = DOk (a', q).

  Lemma text_codec_norm a p : policy_ok set_order a p = true -> text_codec a p a (nmp p).
  Proof. intros H rest Hr. exact (parse_print_policy is_printable is_gext set_order print_ip no_extra print_ip_plain a p rest H Hr). Qed.

  Lemma json_codec_normj a p : policy_okj ip_ok p = true -> json_codec a p (rec_of_list a) (njp p).
  Proof. intros H. exact (dec_enc_policy print_ip ord ip_ok ip_roundtrip ord_id a p H). Qed.

  (* the JSON codec applied to what the text codec returns *)
  Corollary json_codec_after_text a p : policy_ok set_order a p = true -> json_codec a (nmp p) (rec_of_list a) (njp (nmp p)).
  Proof. intros H. apply json_codec_normj. apply (policy_ok_norm a p H). Qed.

  (* text -> JSON -> text: each step succeeds from policy_ok alone, the result is the common normal form njp (nmp p), which both
     codecs then leave unchanged *)
  Theorem text_json_text : forall a p, policy_ok set_order a p = true ->
    text_codec a p a (nmp p) /\
    json_codec a (nmp p) (rec_of_list a) (njp (nmp p)) /\
    text_codec (rec_of_list a) (njp (nmp p)) (rec_of_list a) (njp (nmp p)) /\
    json_codec (rec_of_list a) (njp (nmp p)) (rec_of_list a) (njp (nmp p)).
  Proof.
    intros a p H. destruct (policy_ok_norm a p H) as [H1 H2].
    pose proof (policy_ok_normj a (nmp p) H1) as H3.
    split; [apply text_codec_norm; exact H|]. split; [apply json_codec_normj; exact H2|]. split.
    - pose proof (text_codec_norm _ _ H3) as T. rewrite policy_text_json_text_nf in T. exact T.
    - destruct (policy_ok_norm _ _ H3) as [_ H4]. rewrite policy_text_json_text_nf in H4.
      pose proof (json_codec_normj (rec_of_list a) _ H4) as J. rewrite rec_of_list_idem, normj_policy_idempotent in J. exact J.
  Qed.

  (* JSON -> text -> JSON: the same common normal form, from policy_okj (for the first encoding) and policy_ok (for the rendering);
     the intermediate text result nmp (njp p) IS the common normal form *)
  Theorem json_text_json : forall a p, policy_okj ip_ok p = true -> policy_ok set_order a p = true ->
    json_codec a p (rec_of_list a) (njp p) /\
    text_codec (rec_of_list a) (njp p) (rec_of_list a) (njp (nmp p)) /\
    json_codec (rec_of_list a) (njp (nmp p)) (rec_of_list a) (njp (nmp p)) /\
    njp (nmp p) = nmp (njp p).
  Proof.
    intros a p Hj H. pose proof (policy_okj_lit_sorted p Hj) as Hs.
    pose proof (policy_normal_forms_commute p Hs) as EN.
    split; [apply json_codec_normj; exact Hj|]. split; [|split; [|exact EN]].
    - rewrite EN. apply text_codec_norm. apply policy_ok_normj. exact H.
    - apply (text_json_text a p H).
  Qed.

  (* ------------------------------------------------------------------------------------------ *)
  (* C. Every encoding authorizes identically                                                     *)
  (* ------------------------------------------------------------------------------------------ *)
  Hypothesis set_order_perm : forall l, Permutation (set_order l) (seq 0 (List.length l)).

  Definition policy_sem_okj (p : policy) : bool := forallb (fun c : bool * expr => sem_okj ip_ok (snd c)) (p_conds p).

  Lemma sem_okj_norm_value : forall v, sem_okj ip_ok (nv v) = true.
  Proof.
    apply (value_ind' (fun v => sem_okj ip_ok (nv v) = true)); try (intros; reflexivity).
    - intros l IH. rewrite cc_nv_set, sem_set. apply forallb_forall. intros x Hx. apply in_map_iff in Hx.
      destruct Hx as (i & <- & _). apply (cc_nth_Forall (fun x => sem_okj ip_ok x = true)); [|reflexivity].
      apply Forall_forall. intros x Hx. apply in_map_iff in Hx. destruct Hx as (y & <- & Hy). rewrite Forall_forall in IH. auto.
    - intros l IH. rewrite cc_nv_record, sem_record, forallb_vals_mapv. apply forallb_forall. rewrite Forall_forall in IH. exact IH.
  Qed.

  (* the text normal form has no decimal / ip literal VALUES left: the side condition of eval_normj holds for free *)
  Lemma sem_okj_norm : forall e, sem_okj ip_ok (nm e) = true.
  Proof.
    apply (expr_ind' (fun e => sem_okj ip_ok (nm e) = true));
      try (intros; cbn [norm sem_okj]; repeat (apply andb_true_iff; split); assumption).
    - intros v. apply sem_okj_norm_value.
    - intros x. reflexivity.
    - intros es IH. rewrite cc_nm_set, sem_set. apply forallb_forall. intros x Hx. apply in_map_iff in Hx.
      destruct Hx as (y & <- & Hy). rewrite Forall_forall in IH. auto.
    - intros kvs IH. rewrite cc_nm_record, sem_record, forallb_vals_mapv. apply forallb_forall. rewrite Forall_forall in IH. exact IH.
    - intros n es IH. rewrite cc_nm_call, sem_call. apply forallb_forall. intros x Hx. apply in_map_iff in Hx.
      destruct Hx as (y & <- & Hy). rewrite Forall_forall in IH. auto.
    - intros kd. reflexivity.
  Qed.

  Lemma policy_sem_okj_norm p : policy_sem_okj (nmp p) = true.
  Proof.
    unfold policy_sem_okj, norm_policy. cbn [p_conds]. apply forallb_forall. intros c Hc. apply in_map_iff in Hc.
    destruct Hc as (c0 & <- & _). cbn [snd]. apply sem_okj_norm.
  Qed.

  Lemma policy_lit_ok_sem p : policy_lit_ok ip_ok p = true -> policy_sem_okj p = true.
  Proof.
    unfold policy_lit_ok, policy_sem_okj. intros H. rewrite forallb_forall in *. intros c Hc. apply lit_ok_sorted_sem, H, Hc.
  Qed.

  (* the policy-level form of eval_normj (C09_normal_form_same_meaning) *)
  Theorem policy_normj_same_outcome : forall en p, policy_sem_okj p = true ->
    bool_eval en (policy_to_expr (njp p)) = bool_eval en (policy_to_expr p).
  Proof.
    intros en p Hok. unfold bool_eval. apply bool_eval_cong. unfold policy_to_expr.
    assert (HN : Forall2 (same_res en) (policy_nodes (njp p)) (policy_nodes p)).
    { unfold policy_nodes, normj_policy. cbn [p_principal p_action p_resource p_conds].
      apply Forall2_app; [apply same_res_refl_list|].
      unfold policy_sem_okj in Hok. induction (p_conds p) as [|[w c] cs IH]; cbn [map]; [constructor|].
      cbn [forallb snd] in Hok. apply andb_true_iff in Hok. destruct Hok as [Hc Hcs]. constructor; [|apply IH; exact Hcs].
      cbn [fst snd]. unfold same_res. apply res_equiv_eq.
      destruct w; cbn [eval]; rewrite (eval_normj print_ip ip_ok ip_roundtrip en c Hc); reflexivity. }
    destruct HN as [|x y l l' Hxy Hl]; [apply res_equiv_refl|]. apply and_all_cong; assumption.
  Qed.

  (* the policy as written, as read back from text, as read back from JSON, and as read back through both codecs in either order:
     one outcome (the same Boolean or the same error) in every well-formed environment *)
  Theorem all_encodings_same_outcome : forall en p, norm_env_wf en -> policy_lit_ok ip_ok p = true ->
    bool_eval en (policy_to_expr (nmp p)) = bool_eval en (policy_to_expr p) /\
    bool_eval en (policy_to_expr (njp p)) = bool_eval en (policy_to_expr p) /\
    bool_eval en (policy_to_expr (njp (nmp p))) = bool_eval en (policy_to_expr p) /\
    bool_eval en (policy_to_expr (nmp (njp p))) = bool_eval en (policy_to_expr p).
  Proof.
    intros en p Hen Hok.
    pose proof (policy_norm_same_outcome set_order set_order_perm print_ip ip_ok ip_roundtrip en p Hen Hok) as E1.
    assert (E3 : bool_eval en (policy_to_expr (njp (nmp p))) = bool_eval en (policy_to_expr p)).
    { rewrite (policy_normj_same_outcome en (nmp p) (policy_sem_okj_norm p)). exact E1. }
    split; [exact E1|]. split; [apply policy_normj_same_outcome, policy_lit_ok_sem; exact Hok|]. split; [exact E3|].
    rewrite <- (policy_normal_forms_commute p (policy_lit_ok_sorted p Hok)). exact E3.
  Qed.

  Corollary both_codecs_same_outcome : forall en p, norm_env_wf en -> policy_lit_ok ip_ok p = true ->
    bool_eval en (policy_to_expr (njp (nmp p))) = bool_eval en (policy_to_expr p).
  Proof. intros en p Hen Hok. apply (all_encodings_same_outcome en p Hen Hok). Qed.

  Corollary both_codecs_same_outcome' : forall en p, norm_env_wf en -> policy_lit_ok ip_ok p = true ->
    bool_eval en (policy_to_expr (nmp (njp p))) = bool_eval en (policy_to_expr p).
  Proof. intros en p Hen Hok. apply (all_encodings_same_outcome en p Hen Hok). Qed.

  (* ... and is satisfied by the same requests *)
  Corollary all_encodings_same_sat : forall en p, norm_env_wf en -> policy_lit_ok ip_ok p = true ->
    PartialProofs.sat en (nmp p) = PartialProofs.sat en p /\ PartialProofs.sat en (njp p) = PartialProofs.sat en p /\
    PartialProofs.sat en (njp (nmp p)) = PartialProofs.sat en p /\ PartialProofs.sat en (nmp (njp p)) = PartialProofs.sat en p.
  Proof.
    intros en p Hen Hok. destruct (all_encodings_same_outcome en p Hen Hok) as (E1 & E2 & E3 & E4).
    unfold PartialProofs.sat. rewrite E1, E2, E3, E4. repeat split.
  Qed.
End NormalForms.

(* text -> JSON -> text needs nothing about net/netip's parser: the text normal form has no ip literal VALUE left to encode *)
Corollary text_json_text_no_ip_hyp : forall set_order print_ip,
  (forall v6 a p, Forall (fun c => 32 <= c < 127 /\ c <> 34 /\ c <> 92) (print_ip v6 a p)) ->
  forall ord, (forall l, ord l = l) -> forall is_printable is_gext a p, policy_ok set_order a p = true ->
    text_codec set_order print_ip is_printable is_gext a p a (norm_policy set_order print_ip p) /\
    json_codec print_ip ord a (norm_policy set_order print_ip p) (rec_of_list a) (normj_policy print_ip (norm_policy set_order print_ip p)) /\
    text_codec set_order print_ip is_printable is_gext (rec_of_list a) (normj_policy print_ip (norm_policy set_order print_ip p))
               (rec_of_list a) (normj_policy print_ip (norm_policy set_order print_ip p)) /\
    json_codec print_ip ord (rec_of_list a) (normj_policy print_ip (norm_policy set_order print_ip p))
               (rec_of_list a) (normj_policy print_ip (norm_policy set_order print_ip p)).
Proof.
  intros so pip Hplain ord Hord ipr ig a p H.
  apply (text_json_text so pip (fun _ _ _ => false) Hplain ord Hord); [|exact H].
  intros v6 x y Hf. discriminate.
Qed.

(* ------------------------------------------------------------------------------------------ *)
(* The side condition of the commutation theorem is needed (computed on the model)              *)
(* ------------------------------------------------------------------------------------------ *)

(* a literal record VALUE whose keys are not in order (renderable: expr_ok holds; not a Go map in iteration order: neither wf_value nor
   json_safe): JSON sorts the entries the text normal form spells out, the text normal form of the JSON normal form keeps the order *)
Definition cc_ex_e : expr := ELit (VRecord [([98], VLong 1); ([97], VLong 2)]).
Example cc_ex_unsorted :
  expr_ok nm_id_order cc_ex_e = true /\ lit_sorted cc_ex_e = false /\
  normj nm_no_ip (norm nm_id_order nm_no_ip cc_ex_e) = ERecord [([97], ELit (VLong 2)); ([98], ELit (VLong 1))] /\
  norm nm_id_order nm_no_ip (normj nm_no_ip cc_ex_e) = ERecord [([98], ELit (VLong 1)); ([97], ELit (VLong 2))].
Proof. vm_compute. repeat split. Qed.

(* ... while text -> JSON -> text still ends in the common normal form (text_json_text_nf needs no side condition) *)
Example cc_ex_unsorted_tjt :
  norm nm_id_order nm_no_ip (normj nm_no_ip (norm nm_id_order nm_no_ip cc_ex_e)) = normj nm_no_ip (norm nm_id_order nm_no_ip cc_ex_e).
Proof. vm_compute. reflexivity. Qed.

(* ids: a list that repeats an id encodes to a map with one entry (the last), so "the same ids" is as a set *)
Example cc_ex_repeated_id :
  dec_policy_set (enc_policy_set pj_no_ip pj_id [([98], ([], pj_pol SAll SAll SAll)); ([97], ([], pj_pol SAll SAll SAll)); ([98], ([], pj_pol (SIs [84]) SAll SAll))]) =
  DOk [([97], ([], pj_pol SAll SAll SAll)); ([98], ([], pj_pol (SIs [84]) SAll SAll))].
Proof. vm_compute. reflexivity. Qed.

Print Assumptions dec_enc_policy_set.
Print Assumptions dec_enc_policy_set_sorted.
Print Assumptions dec_enc_policy_set_nodup.
Print Assumptions dec_policy_set_total.
Print Assumptions normj_norm_commute.
Print Assumptions norm_idempotent.
Print Assumptions policy_normal_forms_commute.
Print Assumptions policy_text_json_text_nf.
Print Assumptions policy_json_text_json_nf.
Print Assumptions policy_common_nf_fixed.
Print Assumptions expr_ok_norm.
Print Assumptions expr_ok_normj.
Print Assumptions policy_ok_norm.
Print Assumptions policy_ok_normj.
Print Assumptions text_json_text.
Print Assumptions json_text_json.
Print Assumptions text_json_text_no_ip_hyp.
Print Assumptions policy_normj_same_outcome.
Print Assumptions all_encodings_same_outcome.
Print Assumptions all_encodings_same_sat.
